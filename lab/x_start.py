"""Start helper for checks that run many short-lived squid instances (C45, C46, C47, C61).

squidproc.Squid picks its port by bind-0 probing; between the probe and squid's own bind another process
(another agent's stub, an outgoing connection's ephemeral source port) can take it.  Squid then logs
'FATAL: Unable to open HTTP Socket' and exits -- or, worse, Squid.start() believes the instance is up
because the OTHER process answers the connect probe.  DESIGN 4.3: that is a harness retry, not an event."""
import time

LISTENING = "Accepting HTTP Socket connections at"
LOST = ("Unable to open HTTP Socket", "Address already in use")


def listening_count(sq):
    return sq.log_text().count(LISTENING)


def wait_listening(sq, more_than=0, secs=30):
    """wait until cache.log shows more than `more_than` 'Accepting HTTP Socket connections' lines (log based: no
    connect probes, which on loopback can self-connect to a closed port in the ephemeral range)"""
    t0 = time.time()
    while time.time() - t0 < secs:
        if listening_count(sq) > more_than:
            return True
        if not sq.alive():
            return False
        time.sleep(0.05)
    return False


def start_retry(make, prepare=None, tries=4):
    """make() -> a fresh squidproc.Squid (new port each time); prepare(sq) writes per-instance files before start.
    Returns a started instance that really owns its port; raises RuntimeError otherwise."""
    last = None
    for _ in range(tries):
        sq = make()
        if prepare:
            prepare(sq)
        try:
            sq.start()
        except RuntimeError as e:
            last = str(e)
            sq.stop()
            if "Bungled" in last or "FATAL: " in sq.log_text() and not any(x in sq.log_text() for x in LOST):
                raise      # squid refuses this configuration: retrying cannot help
            continue       # port lost, or the (shared, loaded) machine stalled the start: try again
        if wait_listening(sq, 0, 30) and sq.alive():
            return sq
        log = sq.log_text()
        sq.stop(kill=True)
        last = log[-1500:]
        if any(x in log for x in LOST):
            continue
        raise RuntimeError("squid did not start listening: " + last)
    raise RuntimeError("squid lost the race for its port %d times: %s" % (tries, last))
