"""Common plumbing of every e2e lab check: arguments, seeded PRNG, result accumulation (same JSON shape
as vharness so bin/vcheck can merge/judge), logical clock, work directory handling."""
import argparse, json, os, random, sys, threading, time, hashlib, itertools, traceback

CACHE = os.environ.get("VERIF_CACHE", "/var/tmp/verif-cache")
BUILD = f"{CACHE}/asan/src"
PREFIX = f"{CACHE}/asan/prefix"

_clock = itertools.count(1)
_clock_lock = threading.Lock()


def tick():
    """global logical clock shared by all stubs of one check process"""
    with _clock_lock:
        return next(_clock)


class Result:
    def __init__(self, prop):
        self.prop = prop
        self.evaluations = 0
        self.greys = 0
        self.trivial = 0
        self.features = set()
        self.samples = []
        self.counters = {}
        self.notes = []
        self.violations = []
        self.violation_count = 0
        self.inconclusive = []
        self.harness_failure = []
        self.lock = threading.Lock()

    def case(self, sample=None):
        with self.lock:
            self.evaluations += 1
            if sample is not None and len(self.samples) < 6:
                self.samples.append(sample)

    def feature(self, *parts, nontrivial=True):
        with self.lock:
            if nontrivial:
                self.features.add(hashlib.sha1(repr(parts).encode()).hexdigest()[:16])
            else:
                self.trivial += 1

    def grey(self, why=None):
        with self.lock:
            self.greys += 1
            if why:
                self.counters["grey:" + why] = self.counters.get("grey:" + why, 0) + 1

    def count(self, name, n=1):
        with self.lock:
            self.counters[name] = self.counters.get(name, 0) + n

    def note(self, s):
        with self.lock:
            if s not in self.notes and len(self.notes) < 40:
                self.notes.append(s)

    def violation(self, key, detail, witness=None, extra=None):
        """key: stable+coarse identity (known-findings matching). witness: JSON-able description that --replay can re-run."""
        with self.lock:
            self.violation_count += 1
            if any(v["key"] == key for v in self.violations):
                return
            w = witness if witness is not None else {}
            self.violations.append({"key": key, "detail": str(detail)[:4000], "witness": json.dumps(w)[:2000],
                                    "witness_hex": json.dumps(w).encode().hex(), "extra": extra})

    def dump(self, path):
        d = {"prop": self.prop, "evaluations": self.evaluations, "greys": self.greys, "trivial": self.trivial,
             "features": sorted(self.features), "samples": self.samples, "counters": self.counters, "notes": self.notes,
             "violations": self.violations, "violation_count": self.violation_count, "exhaustive": False,
             "inconclusive": self.inconclusive, "harness_failure": self.harness_failure}
        tmp = path + ".tmp"
        json.dump(d, open(tmp, "w"))
        os.replace(tmp, path)


def parse_args(prop):
    ap = argparse.ArgumentParser()
    ap.add_argument("--tier", default="quick")
    ap.add_argument("--seed", type=int, default=1)
    ap.add_argument("--cases", type=int, default=100)
    ap.add_argument("--out", default=f"/tmp/{prop}.json")
    ap.add_argument("--work", default=None)
    ap.add_argument("--replay", default=None)
    a = ap.parse_args()
    if a.work is None:
        import tempfile
        os.makedirs("/var/tmp/verif-work", exist_ok=True)
        a.work = tempfile.mkdtemp(prefix=f"{prop}-", dir="/var/tmp/verif-work")
    os.chmod(a.work, 0o755)
    a.replay_data = None
    if a.replay:
        rp = json.load(open(a.replay))
        try:
            a.replay_data = json.loads(bytes.fromhex(rp["witness_hex"]).decode())
        except Exception:
            a.replay_data = rp
    return a


def main_wrapper(prop, fn):
    """fn(args, result) runs the check; any exception is a harness failure (exit 2), never a verdict"""
    a = parse_args(prop)
    res = Result(prop)
    rc = 0
    try:
        fn(a, res)
    except Exception:
        res.harness_failure.append(traceback.format_exc()[-3000:])
        rc = 2
    res.dump(a.out)
    if res.violations and rc == 0:
        rc = 1
    sys.stdout.flush()
    os._exit(rc)
