#!/usr/bin/python3
"""C07 Non-idempotent requests are not resent after reaching the origin (DESIGN 5.1, fault_enumeration).

Topology: one squid; 9 origin "groups" (3 each with 1, 2, 3 addresses 127.7.<g>.<i>, one shared port per group). Every case
uses its own hostname c<seed>x<n>.g<g>.c07.test which a DNS stub inside this process resolves to all addresses of the
group (hosts_file cannot do this in this tree: ipcacheAddEntryFromHosts() replaces the entry on every line). A group serves
one case at a time, and idle persistent connections of earlier cases can never be reused (pconn pool key contains the
hostname), so every byte arriving at the group's listeners during a case belongs to that case; the request line/Host of
longer reads is cross-checked and foreign bytes are discarded.

Fault plan: the k-th upstream attempt of the test request (a new connection, or the test request arriving on the warmed-up
persistent connection) gets the k-th fault of the plan, later attempts are served normally:
  close / rst (before reading), read_close k / read_rst k (k request bytes read), hdr_close (request head read, body not),
  read_all_close / read_all_rst (whole request read, no response), read_all_stall, stall, partial_head_close /
  partial_head_rst (part of the response head), mid_body_rst (reset inside the response body).
Oracle: for POST / PATCH / extension methods, the number of distinct upstream connections on which the origin received
>= 1 byte of the test request is <= 1. Connections on which the origin read nothing are invisible (not counted).
Controls (GET, DELETE, PUT): resends are allowed and counted -- they prove that the plans do provoke retries.
"""
import random, threading, time, socket, struct, queue, itertools
from concurrent.futures import ThreadPoolExecutor
from lab import base, httpref
from lab.lab import Lab, Resp, Conn, request_bytes
from lab.origin import Origin

DNS_IP = "127.7.0.53"
ACCEPT_LEVEL = ("close", "rst", "read_close", "read_rst", "stall")
MENU = [("close",), ("rst",), ("read_close", 1), ("read_close", 20), ("read_close", 120), ("read_rst", 5), ("read_rst", 60), ("hdr_close",),
        ("read_all_close",), ("read_all_rst",), ("read_all_stall",), ("stall",), ("partial_head_close",), ("partial_head_rst",), ("mid_body_rst",),
        # an interim response (which squid relays to the client), then the connection fails without a final response
        ("interim_close",), ("interim_rst",)]
NONIDEM = ["POST", "POST0", "POSTbig", "POSTchunked", "PATCH", "FROB", "FROB0"]
CONTROL = ["GET", "DELETE", "PUT"]
PLANS = [[m] for m in MENU] + [[m1, m2] for m1 in MENU for m2 in MENU]


def gen_case(seed, n):
    r = random.Random(f"C07:{seed}:{n}")
    order = list(range(len(PLANS)))
    random.Random(f"C07:{seed}:plans").shuffle(order)
    c = {"n": n, "seed": seed}
    c["plan"] = [list(x) for x in PLANS[order[n % len(PLANS)]]]
    if r.random() < 0.2:
        c["plan"].append(list(r.choice(MENU)))
    c["method"] = r.choice(NONIDEM * 2 + CONTROL * 2) if r.random() < 0.9 else r.choice(NONIDEM)
    c["naddr"] = r.choice([1, 2, 2, 3, 3])
    c["warm"] = r.choice([0, 1, 1])
    c["pc"] = r.choice([0, 1])          # server_pconn_for_nonretriable allow for this URL?
    c["cut"] = r.random()               # where partial_head / mid_body faults cut
    return c


class SamePortOrigin(Origin):
    """Origin stub listening on ONE port number on several local addresses"""

    def __init__(self, handler, hosts):
        for attempt in range(20):
            socks = []
            try:
                s0 = socket.socket(socket.AF_INET, socket.SOCK_STREAM)
                s0.bind((hosts[0], 0))
                port = s0.getsockname()[1]
                socks.append(s0)
                for h in hosts[1:]:
                    s = socket.socket(socket.AF_INET, socket.SOCK_STREAM)
                    s.bind((h, port))
                    socks.append(s)
                break
            except OSError:
                for s in socks:
                    s.close()
        else:
            raise RuntimeError("cannot bind one port on " + repr(hosts))
        self.handler = handler
        self.on_accept = None
        self.events = []
        self.requests = []
        self.lock = threading.Lock()
        self.listeners = []
        self.ports = []
        self.conn_seq = itertools.count(1)
        self.stopping = False
        self.threads = []
        self.conns = []
        for s in socks:
            s.listen(64)
            self.listeners.append(s)
            self.ports.append(port)
            t = threading.Thread(target=self._accept, args=(s,), daemon=True)
            t.start()
            self.threads.append(t)
        self.port = port
        self.host = hosts[0]


class Dns:
    """answers A queries for *.g<k>.c07.test with all addresses of group k; AAAA and everything else: empty NOERROR"""

    def __init__(self, groups):
        self.groups = groups
        self.sock = socket.socket(socket.AF_INET, socket.SOCK_DGRAM)
        self.sock.bind((DNS_IP, 53))
        self.queries = 0
        self.stopping = False
        threading.Thread(target=self.loop, daemon=True).start()

    def loop(self):
        while not self.stopping:
            try:
                data, addr = self.sock.recvfrom(4096)
            except OSError:
                return
            try:
                pos, labels = 12, []
                while data[pos]:
                    l = data[pos]
                    labels.append(data[pos + 1:pos + 1 + l].decode("latin1").lower())
                    pos += 1 + l
                pos += 1
                qtype, qclass = struct.unpack("!HH", data[pos:pos + 4])
                question = data[12:pos + 4]
                ans = b""
                nans = 0
                rcode = 0
                if len(labels) >= 4 and labels[-2:] == ["c07", "test"] and labels[-3].startswith("g"):
                    g = self.groups.get(labels[-3])
                    if g is None:
                        rcode = 3
                    elif qtype == 1:
                        for ip in g.addrs:
                            ans += b"\xc0\x0c" + struct.pack("!HHIH", 1, 1, 3600, 4) + socket.inet_aton(ip)
                            nans += 1
                else:
                    rcode = 3
                self.queries += 1
                self.sock.sendto(data[:2] + struct.pack("!HHHHH", 0x8180 | rcode, 1, nans, 0, 0) + question + ans, addr)
            except Exception:
                pass

    def stop(self):
        self.stopping = True
        self.sock.close()


class Group:
    def __init__(self, idx, naddr):
        self.idx = idx
        self.label = f"g{idx}"
        self.addrs = [f"127.7.{idx}.{i + 1}" for i in range(naddr)]
        self.cur = None                 # state of the case that currently owns the group
        self.recs = {}
        self.glock = threading.Lock()
        self.org = SamePortOrigin(_Handler(self), self.addrs)
        self.org.on_accept = self.on_accept

    # ---- fault plan plumbing
    def next_slot(self, reused):
        cur = self.cur
        with self.glock:
            i = cur["next"]
            cur["next"] += 1
        act = tuple(cur["plan"][i]) if i < len(cur["plan"]) else ("ok",)
        if reused and act[0] in ACCEPT_LEVEL:
            act = ("hdr_close",)        # a connection that is already being served cannot be failed at accept time
        return act

    def on_accept(self, rec):
        cur = self.cur
        with self.glock:
            self.recs[rec["cid"]] = rec
        rec["phase"] = cur["phase"] if cur else "idle"
        rec["case"] = cur["n"] if cur else None
        rec["slot"] = None
        rec["base_len"] = 0
        if not cur or cur["phase"] != "test":
            return None
        act = self.next_slot(False)
        rec["slot"] = act
        cur["attempts"].append((rec["cid"], act[0], False))
        if act[0] == "stall":
            return ("stall", 1.2)
        if act[0] in ACCEPT_LEVEL:
            return act
        return None


class _Handler:
    """callable with a before_body hook (Origin looks the attribute up on the handler object)"""

    def __init__(self, g):
        self.g = g

    def _is_test(self, req):
        cur = self.g.cur
        return cur is not None and req.req_id == cur["test_id"]

    def before_body(self, req):
        g = self.g
        rec = g.recs.get(req.cid)
        if rec is None or not self._is_test(req):
            return None
        cur = g.cur
        if rec.get("slot") is None or rec.get("slot_used"):
            # the test request arrived on a connection accepted earlier (warm-up): it is the next attempt
            if rec.get("slot_used"):
                return None
            act = g.next_slot(True)
            rec["slot"] = act
            rec["reused"] = True
            cur["attempts"].append((rec["cid"], act[0], True))
        if rec["slot"][0] == "hdr_close":
            rec["slot_used"] = True
            raise OSError("fault: close after reading the request head")
        if rec["slot"][0] in ("interim_close", "interim_rst"):
            return b"HTTP/1.1 103 Early Hints\r\nLink: </c07.css>; rel=preload\r\n\r\n"
        return None

    def __call__(self, req):
        g = self.g
        rec = g.recs.get(req.cid, {})
        if not self._is_test(req):
            # warm-up (keep-alive) or a stray request
            return Resp(200, [("Cache-Control", "no-store")], length=20)
        cur = g.cur
        slot = rec.get("slot") or ("ok",)
        if rec.get("slot_used"):
            slot = ("ok",)
        rec["slot_used"] = True
        kind = slot[0]
        ok = Resp(200, [("Cache-Control", "no-store"), ("Connection", "close")], length=3000, close_after=True)
        if kind == "ok":
            return ok
        if kind in ("read_all_close", "interim_close"):
            return None
        if kind == "interim_rst":
            ok.abort_at, ok.abort_kind = 0, "rst"
            return ok
        if kind == "read_all_rst":
            ok.abort_at, ok.abort_kind = 0, "rst"
            return ok
        if kind == "read_all_stall":
            ok.abort_at, ok.delay_before = 0, 1.2
            return ok
        wire = ok.serialize()
        hl = wire.find(b"\r\n\r\n") + 4
        if kind in ("partial_head_close", "partial_head_rst"):
            ok.abort_at = max(1, min(hl - 1, int(hl * cur["cut"])))
            ok.abort_kind = "rst" if kind.endswith("rst") else "close"
            return ok
        if kind == "mid_body_rst":
            ok.abort_at = hl + max(1, int(2900 * cur["cut"]))
            ok.abort_kind = "rst"
            return ok
        return ok


def build_request(c, url, req_id):
    m = c["method"]
    hs = [("Connection", "close")]
    if m == "GET" or m == "DELETE":
        return m, request_bytes(m, url, hs, None, "HTTP/1.1", req_id)
    if m == "POST0":
        return "POST", request_bytes("POST", url, hs + [("Content-Length", "0")], None, "HTTP/1.1", req_id)
    if m == "FROB0":
        return "FROB", request_bytes("FROB", url, hs, None, "HTTP/1.1", req_id)
    if m == "POSTbig":
        return "POST", request_bytes("POST", url, hs, b"Z" * 200000, "HTTP/1.1", req_id)
    if m == "POSTchunked":
        return "POST", request_bytes("POST", url, hs, b"c" * 3000, "HTTP/1.1", req_id, chunked=[1000, 7, 1993])
    meth = {"POST": "POST", "PATCH": "PATCH", "FROB": "FROB", "PUT": "PUT"}[m]
    return meth, request_bytes(meth, url, hs, b"b" * 10, "HTTP/1.1", req_id)


def run(a, res):
    groups = {}
    pools = {1: queue.Queue(), 2: queue.Queue(), 3: queue.Queue()}
    idx = 1
    for naddr in (1, 2, 3):
        for _ in range(3):
            g = Group(idx, naddr)
            groups[g.label] = g
            pools[naddr].put(g)
            idx += 1
    dns = Dns(groups)
    conf = ("acl pc1 urlpath_regex /pc1$\nserver_pconn_for_nonretriable allow pc1\ncache deny all\nconnect_timeout 5 seconds\n"
            "client_request_buffer_max_size 1 MB\n")
    lab = Lab(a, res, conf=conf, start=False)
    # the base config names 127.0.0.1 as the only resolver: point squid at the DNS stub of this check instead
    txt = open(lab.sq.conf_path).read().replace("dns_nameservers 127.0.0.1", f"dns_nameservers {DNS_IP}")
    open(lab.sq.conf_path, "w").write(txt)
    lab.sq.start()
    wit = lambda c: {"seed": c["seed"], "case": c["n"]}

    def one(c):
        res.case({k: v for k, v in c.items()} if c["n"] % 41 == 0 else None)
        g = pools[c["naddr"]].get()
        try:
            run_case(c, g)
        finally:
            g.cur = None
            pools[c["naddr"]].put(g)

    def run_case(c, g):
        host = f"c{c['seed']}x{c['n']}.{g.label}.c07.test"
        marker = host.encode()
        url = f"http://{host}:{g.org.port}/c07/{c['seed']}/{c['n']}/pc{c['pc']}"
        test_id = f"{c['seed']}.{c['n']}.t"
        cur = {"n": c["n"], "phase": "warm", "plan": c["plan"], "next": 0, "attempts": [], "test_id": test_id, "cut": c["cut"]}
        first_cid = max(g.recs) if g.recs else 0
        g.cur = cur
        if c["warm"]:
            conn = lab.conn(timeout=15)
            conn.send(request_bytes("GET", url + "w", [], None, "HTTP/1.1", f"{c['seed']}.{c['n']}.w"))
            m = conn.read_response("GET", 15)
            conn.close()
            if m.start is None or m.status != 200:
                res.count("warmup_failed")
                return
            time.sleep(0.02)
        with g.glock:
            for cid, rec in g.recs.items():
                if cid > first_cid:
                    rec["base_len"] = len(rec["raw_in"])
        cur["phase"] = "test"
        meth, wire = build_request(c, url, test_id)
        conn = lab.conn(timeout=20)
        conn.send(wire)
        m = conn.read_response(meth, 20)
        conn.close()
        if m.timed_out:
            res.count("client_timeout")
            time.sleep(3.0)
        time.sleep(0.05)    # let the origin threads log the tail of the last attempt
        cur["phase"] = "done"
        # ---- which upstream connections saw bytes of the test request?
        visible = []
        foreign = 0
        with g.glock:
            recs = [(cid, rec) for cid, rec in sorted(g.recs.items()) if cid > first_cid]
        for cid, rec in recs:
            data = bytes(rec["raw_in"][rec.get("base_len", 0):])
            if not data:
                continue
            if b".c07.test" in data and marker not in data:
                foreign += 1
                continue
            visible.append((cid, rec.get("slot", (None,))[0] if rec.get("slot") else "ok", bool(rec.get("reused")), len(data), rec["host"]))
        if foreign:
            res.count("foreign_connections_discarded", foreign)
        complete = len(g.org.seen(test_id))
        nonidem = c["method"] in NONIDEM
        status = m.status if m.start is not None and not m.error else None
        nvis = len(visible)
        attempts = cur["attempts"]
        res.count("attempts", len(attempts))
        res.count("faults_fired", sum(1 for x in attempts if x[1] != "ok"))
        for x in attempts:
            res.count("fault:" + x[1] + (":reused" if x[2] else ""))
        cls = "nonidem" if nonidem else "control"
        res.count(f"{cls}_cases")
        res.count(f"{cls}_visible_{min(nvis, 3)}")
        if any(v[2] for v in visible):
            res.count(f"{cls}_test_request_on_reused_pconn")
        first = visible[0] if visible else (None, "none", False, 0, None)
        feat = (c["method"], c["naddr"], c["warm"], c["pc"], tuple(x[1] for x in attempts[:3]), tuple(x[2] for x in attempts[:3]), min(nvis, 3), status)
        if nonidem:
            if nvis > 1:
                res.violation(f"non-idempotent-resent:{c['method']}:after-{first[1]}" + (":reused-pconn" if first[2] else ""),
                              f"{c['method']} request {test_id} was received (>=1 byte) on {nvis} distinct upstream connections: "
                              f"{[(v[0], v[4], 'fault=' + str(v[1]), 'reused' if v[2] else 'new', str(v[3]) + ' bytes') for v in visible]}; "
                              f"complete copies at origin: {complete}; plan={c['plan']} naddr={c['naddr']} warm={c['warm']} "
                              f"server_pconn_for_nonretriable={'allow' if c['pc'] else 'default'}; client got {status}", wit(c))
                return
            res.feature(*feat)
        else:
            if nvis > 1:
                res.count("control_resent")
            res.feature(*feat)

    if a.replay_data and "case" in a.replay_data:
        cases = [gen_case(a.replay_data.get("seed", a.seed), a.replay_data["case"])]
    else:
        cases = [gen_case(a.seed, n) for n in range(a.cases)]
    try:
        with ThreadPoolExecutor(8) as ex:
            list(ex.map(one, cases))
    finally:
        lab.finish()
        dns.stop()
        for g in groups.values():
            g.org.stop()
    res.count("dns_queries", dns.queries)
    if not a.replay_data:
        cn = res.counters
        if cn.get("control_resent", 0) < 1:
            res.inconclusive.append("no idempotent control request was ever resent: the fault plans did not provoke retries")
        if cn.get("nonidem_visible_1", 0) < 5:
            res.inconclusive.append("too few non-idempotent requests reached the origin")
        if cn.get("nonidem_test_request_on_reused_pconn", 0) < 1:
            res.inconclusive.append("no non-idempotent request travelled on a reused persistent connection")
        if cn.get("client_timeout", 0) > max(2, len(cases) // 20):
            res.inconclusive.append(f"{cn.get('client_timeout')} client timeouts")


if __name__ == "__main__":
    base.main_wrapper("C07", run)
