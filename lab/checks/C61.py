#!/usr/bin/python3
"""C61 Cache manager enforces access rules and passwords (DESIGN 5.1).

One squid instance per generated configuration (http_access lines over the built-in `manager` acl and src
acls; cachemgr_passwd lines with passwords / disable / none / all).  Clients on 127.0.0.2-5 request
/squid-internal-mgr/<action> (canonical and odd spellings) with right / wrong / absent / odd Basic
passwords.  Oracle (one direction, as the statement says "only when"): whatever report content or
management side effect is observed must be permitted by the python reference for that client, action
and password.  shutdown is never allowed to succeed un-noticed: after every request the squid pid must
be alive and unchanged unless the reference allowed a shutdown."""
import base64, os, random, re, socket, threading, time
from concurrent.futures import ThreadPoolExecutor
from lab import base, httpref
from lab.squidproc import Squid, health_events
from lab.client import Conn
from lab.x_start import start_retry, wait_listening, listening_count

PFX = "/squid-internal-mgr/"
SRCS = ["127.0.0.2", "127.0.0.3", "127.0.0.4", "127.0.0.5"]
# action -> (needs password by default, marker that only this action's report contains)
ACTIONS = {
    "info": (False, "Squid Object Cache: Version"),
    "menu": (False, "\tCache Manager Menu"),
    "counters": (False, "sample_time = "),
    "5min": (False, "sample_start_time = "),
    "ipcache": (False, "IP Cache Statistics:"),
    "fqdncache": (False, "FQDN Cache Statistics:"),
    "events": (False, "\tNext Execution \tWeight"),
    "filedescriptors": (False, "Active file descriptors:"),
    "idns": (False, "Internal DNS Statistics:"),
    "mem": (False, "Current memory usage:"),
    "config": (True, "hopeless_kid_revival_delay "),
    "offline_toggle": (True, "offline_mode is now"),
    "rotate": (True, "Rotating Squid Process Logs"),
    "reconfigure": (True, "Reconfiguring Squid Process"),
    "shutdown": (True, "Shutting down Squid Process"),
}
EFFECTS = {   # action -> cache.log line written synchronously when the action is PERFORMED
    "shutdown": "Shutdown by Cache Manager command.",
    "reconfigure": "Reconfigure by Cache Manager command.",
    "rotate": "Rotate Logs by Cache Manager command.",
    "offline_toggle": "by Cache Manager request.",
}
PASSWORDS = ["sec-A1", "s3cr:et", "Zeta9"]


def b64(s):
    return base64.b64encode(s.encode()).decode()


# ------------------------------------------------------------------------------------------------ generator
def gen_case(seed, n):
    r = random.Random(f"C61:{seed}:{n}")
    c = {"n": n, "seed": seed}
    # ---- http_access: acls manager (built in), sa, sb (src), all
    c["sa"] = sorted(r.sample(SRCS, r.randrange(1, 3)))
    c["sb"] = sorted(r.sample(SRCS, r.randrange(1, 4)))
    rules = []
    shape = r.random()
    if shape < 0.3:
        rules = [["allow", [[False, "manager"], [False, "sa"]]], ["deny", [[False, "manager"]]], ["allow", [[False, "all"]]]]    # the documented recipe
    elif shape < 0.45:
        rules = [["allow", [[False, "all"]]]]
    elif shape < 0.55:
        rules = [["deny", [[False, "manager"], [True, "sa"]]], ["allow", [[False, "all"]]]]
    else:
        for _ in range(r.randrange(1, 4)):
            lits = [[r.random() < 0.3, r.choice(["manager", "manager", "sa", "sb", "all"])] for _ in range(r.choice([1, 1, 2]))]
            rules.append([r.choice(["allow", "allow", "allow", "deny"]), lits])
        rules.append([r.choice(["allow", "allow", "deny"]), [[False, "all"]]])
    c["rules"] = rules
    # ---- cachemgr_passwd: explicit action lists, optionally an 'all' line (reordered / overlapping below)
    names = list(ACTIONS)
    r.shuffle(names)
    lines = []
    k = r.random()
    if k < 0.12:
        pass                                                          # no cachemgr_passwd at all: protected actions are hidden
    else:
        pool = names[:]
        for _ in range(r.randrange(1, 5)):
            if not pool:
                break
            take = [pool.pop() for _ in range(min(len(pool), r.randrange(1, 5)))]
            # side-effecting actions are listed more often, so that protected/disabled/none variants of them occur
            if r.random() < 0.6:
                extra = r.choice(["shutdown", "reconfigure", "offline_toggle", "rotate", "config"])
                if extra in pool:
                    pool.remove(extra)
                    take.append(extra)
            lines.append([r.choice(PASSWORDS + PASSWORDS + ["disable", "none"]), take])
        if r.random() < 0.3:
            lines.append([r.choice(PASSWORDS + ["disable", "none"]), ["all"]])
    # ---- first match wins: 'all' lines anywhere (also BEFORE lines that name actions explicitly) and actions named twice
    r1 = random.Random(f"C61:order:{seed}:{n}")
    if lines and r1.random() < 0.6:
        if lines[-1][1] == ["all"]:
            if r1.random() < 0.7:
                lines.insert(r1.randrange(len(lines)), lines.pop())
        elif r1.random() < 0.6:
            lines.insert(r1.randrange(len(lines)), [r1.choice(PASSWORDS + ["disable", "none"]), ["all"]])
        ai = [i for i, l in enumerate(lines) if l[1] == ["all"]]
        if ai and ai[0] < len(lines) - 1 and r1.random() < 0.7:
            # the shadowing shape: a strict 'all' line first, a laxer explicit line after it (which must stay without effect)
            lines[ai[0]][0] = r1.choice(PASSWORDS + ["disable"])
            j = r1.randrange(ai[0] + 1, len(lines))
            lines[j][0] = r1.choice(["none"] + [p_ for p_ in PASSWORDS if p_ != lines[ai[0]][0]])
        named = [i for i, l in enumerate(lines) if l[1] != ["all"]]
        if len(named) >= 2 and r1.random() < 0.5:
            i, j = sorted(r1.sample(named, 2))
            lines[j][1] = lines[j][1] + [r1.choice(lines[i][1])]
    c["passwd_lines"] = lines
    # ---- requests
    reqs = []
    nreq = 40
    for i in range(nreq):
        act = r.choice(names + ["shutdown", "shutdown", "reconfigure", "offline_toggle", "rotate", "config", "config", "info"])
        q = {"i": i, "src": r.choice(SRCS), "action": act}
        # URL spelling
        k = r.random()
        if k < 0.62:
            q["target"], q["odd"] = PFX + act, None
        elif k < 0.70:
            q["target"], q["odd"] = "http://verif.test:{PORT}" + PFX + act, "absolute"
        elif k < 0.74:
            q["target"], q["odd"] = "http://VERIF.Test:{PORT}" + PFX + act, "absolute-case"
        elif k < 0.78:
            q["target"], q["odd"] = "http://u:%s@verif.test:{PORT}" % r.choice(PASSWORDS).replace(":", "%3A") + PFX + act, "userinfo-password"
        elif k < 0.82:
            q["target"], q["odd"] = PFX + act + "#" + r.choice(PASSWORDS), "fragment"
        elif k < 0.85:
            q["target"], q["odd"] = PFX + act.upper(), "upper"
        elif k < 0.88:
            q["target"], q["odd"] = PFX + act + "/", "slash"
        elif k < 0.91:
            q["target"], q["odd"] = PFX + "%%%02x" % ord(act[0]) + act[1:], "pct-encoded"
        elif k < 0.94:
            q["target"], q["odd"] = PFX + act + "@" + r.choice(PASSWORDS), "at-password"
        elif k < 0.97:
            q["target"], q["odd"] = "/Squid-Internal-Mgr/" + act, "prefix-case"
        else:
            q["target"], q["odd"] = PFX + "menu/../" + act, "dotdot"
        q["pwkind"] = r.choice(["none", "none", "right", "right", "right", "right", "right", "other", "other", "mutated", "mutated", "prefix", "prefix", "empty", "nocolon", "scheme-case", "literal-disable", "literal-none", "garbled"])
        q["mut"] = r.randrange(4)
        q["method"] = r.choice(["GET", "GET", "GET", "POST", "HEAD"]) if r.random() < 0.2 else "GET"
        reqs.append(q)
    c["reqs"] = reqs
    return c


# ------------------------------------------------------------------------------------------------ reference
def protection(lines, action):
    """documented cachemgr_passwd semantics. returns ('public'|'hidden'|'disabled'|'protected', password)"""
    for pw_, acts in lines:
        if action in acts or "all" in acts:
            if pw_ == "disable":
                return "disabled", None
            if pw_ == "none":
                return "public", None
            return "protected", pw_
    return ("hidden" if ACTIONS[action][0] else "public"), None


def http_access_ref(c, src):
    for action, lits in c["rules"]:
        ok = True
        for neg, name in lits:
            v = True if name in ("manager", "all") else (src in c[name])
            if neg:
                v = not v
            if not v:
                ok = False
                break
        if ok:
            return action
    return "deny" if c["rules"][-1][0] == "allow" else "allow"


def sent_password(auth):
    """strict reading of what password the request presents (None = none)"""
    if not auth:
        return None
    m = re.fullmatch(r"(?i)basic +([A-Za-z0-9+/]+={0,2})", auth)
    if not m:
        return None
    try:
        txt = base64.b64decode(m.group(1), validate=True).decode("latin1")
    except Exception:
        return None
    if ":" not in txt:
        return None
    return txt.split(":", 1)[1]


def allowed(c, src, action, auth):
    if http_access_ref(c, src) != "allow":
        return False, "http_access denies this client for manager requests"
    kind, pw_ = protection(c["passwd_lines"], action)
    if kind == "public":
        return True, "public action"
    if kind == "protected":
        if sent_password(auth) == pw_:
            return True, "protected action, right password"
        return False, f"action protected by password {pw_!r}, request presents {sent_password(auth)!r}"
    return False, f"action is {kind}"


def auth_header(c, q):
    kind, pw_ = protection(c["passwd_lines"], q["action"])
    right = pw_ if pw_ else PASSWORDS[0]
    k = q["pwkind"]
    if k == "none":
        return None
    if k == "right":
        return "Basic " + b64("mgr:" + right)
    if k == "other":
        # "a password configured for something else": if a LATER cachemgr_passwd line (shadowed by the first match) names this
        # action or 'all' with another password, present exactly that one half of the time
        later = [p_ for p_, acts in c["passwd_lines"] if (q["action"] in acts or "all" in acts) and p_ not in ("disable", "none") and p_ != right]
        if later and q["mut"] >= 2:
            return "Basic " + b64("mgr:" + later[q["mut"] % len(later)])
        return "Basic " + b64("mgr:" + [p for p in PASSWORDS if p != right][q["mut"] % 2])
    if k == "mutated":
        return "Basic " + b64("mgr:" + [right + "x", right[:-1], right.swapcase(), " " + right][q["mut"]])
    if k == "prefix":
        # proper, non-empty prefixes of the right password (first character, half, all but one) and extensions of it
        return "Basic " + b64("mgr:" + [right[:1], right[:max(1, len(right) // 2)], right[:-1], right + right][q["mut"]])
    if k == "empty":
        return "Basic " + b64("mgr:")
    if k == "nocolon":
        return "Basic " + b64(right)
    if k == "scheme-case":
        return ["basic ", "BASIC ", "bAsIc ", "Basic  "][q["mut"]] + b64("mgr:" + right)
    if k == "literal-disable":
        return "Basic " + b64("mgr:disable")
    if k == "literal-none":
        return "Basic " + b64("mgr:none")
    # garbled: derived from a WRONG password so that decoder leniency cannot make it right
    g = b64("mgr:not-" + right)
    return "Basic " + [g[:5], "*" + g, g[:3] + "!" + g[3:], "=" + g][q["mut"]]


def conf_text(c):
    out = ["logfile_rotate 0", "acl sa src " + " ".join(c["sa"]), "acl sb src " + " ".join(c["sb"])]
    for pw_, acts in c["passwd_lines"]:
        out.append("cachemgr_passwd %s %s" % (pw_, " ".join(acts)))
    acc = ["http_access %s %s" % (a_, " ".join(("!" if neg else "") + nm for neg, nm in lits)) for a_, lits in c["rules"]]
    return "\n".join(out) + "\n", "\n".join(acc)


# ------------------------------------------------------------------------------------------------ run
def run(a, res):
    squids = []
    lock = threading.Lock()

    def effect_counts(sq):
        txt = ""
        for f in os.listdir(sq.work):
            if f.startswith("cache.log"):
                try:
                    txt += open(os.path.join(sq.work, f), "rb").read().decode("latin1")
                except OSError:
                    pass
        return {k: txt.count(v) for k, v in EFFECTS.items()}

    def one(c):
        wit = {"seed": c["seed"], "case": c["n"]}
        conf, acc = conf_text(c)
        cfgdesc = "\n".join(l for l in (conf + acc).splitlines() if l.startswith(("acl", "http_access", "cachemgr_passwd")))
        try:
            sq = start_retry(lambda: Squid(a.work, conf=conf, http_access=acc))
        except RuntimeError as e:
            res.harness_failure.append(f"case {c['n']}: squid did not start with generated config:\n{cfgdesc}\n{str(e)[-1000:]}")
            return
        with lock:
            squids.append(sq)
        pid0 = sq.proc.pid
        legit_shutdown = False
        port_lost = False
        try:
            # order: a reference-allowed shutdown (at most one) goes last, at most one reference-allowed reconfigure is kept
            plan, tail, seen_reconf = [], [], False
            for q in c["reqs"]:
                q = dict(q)
                q["auth"] = auth_header(c, q)
                ok, why = allowed(c, q["src"], q["action"], q["auth"])
                q["ref"], q["why"] = ok, why
                if ok and q["action"] == "shutdown":
                    if not tail:
                        tail.append(q)
                    continue
                if ok and q["action"] == "reconfigure":
                    if seen_reconf:
                        continue
                    seen_reconf = True
                plan.append(q)
            for q in plan + tail:
                res.case({"case": c["n"], "config": cfgdesc, "request": {k: q[k] for k in ("src", "target", "auth", "method")}, "reference": q["ref"]} if (q["i"] == 0 and c["n"] % 4 == 0) else None)
                before = effect_counts(sq)
                listening_before = listening_count(sq)
                target = q["target"].replace("{PORT}", str(sq.port))
                desc = (f"config:\n{cfgdesc}\nrequest: {q['method']} {target} from {q['src']} Authorization: {q['auth']!r} (presents password {sent_password(q['auth'])!r}); "
                        f"reference for action '{q['action']}': {'ALLOW' if q['ref'] else 'DENY'} ({q['why']})")
                try:
                    conn = Conn(sq.port, src=q["src"], timeout=20)
                except OSError:
                    res.count("connect_failed")
                    if not sq.alive():
                        break
                    continue
                head = f"{q['method']} {target} HTTP/1.1\r\nHost: 127.0.0.1:{sq.port}\r\n" + (f"Authorization: {q['auth']}\r\n" if q["auth"] else "") + \
                       ("Content-Length: 0\r\n" if q["method"] == "POST" else "") + "Connection: close\r\n\r\n"
                conn.send(head.encode("latin1"))
                m = conn.read_response(q["method"], timeout=20)
                conn.close()
                body = m.body.decode("latin1") if m.start is not None else ""
                after = effect_counts(sq)
                performed = [k for k in EFFECTS if after[k] > before[k]]
                shown = [k for k, (_, marker) in ACTIONS.items() if marker in body]
                status = m.status
                feat = [q["odd"], q["pwkind"] if q["pwkind"] in ("none", "right", "scheme-case") else "bad", protection(c["passwd_lines"], q["action"])[0],
                        http_access_ref(c, q["src"]), q["action"] if q["action"] in EFFECTS else "report", bool(shown or performed)]
                # ---- everything observed must be permitted by the reference (for THE ACTION OBSERVED, whatever the URL spelling)
                bad = False
                for act in set(shown + performed):
                    ok, why = allowed(c, q["src"], act, q["auth"])
                    if not ok:
                        bad = True
                        what = "performed" if act in performed else "report content served"
                        if "http_access" in why:
                            key = "manager-action-despite-http_access"
                        elif "disabled" in why or "hidden" in why:
                            key = "disabled-or-hidden-action-" + ("performed" if act in performed else "served")
                        else:
                            key = "protected-action-without-password-" + ("performed" if act in performed else "served")
                        res.violation(key, desc + f"; observed: status {status}, action '{act}' {what} (reference: {why})", wit)
                if performed:
                    res.count("effects_performed_" + "_".join(performed))
                if "shutdown" in performed:
                    ok, _ = allowed(c, q["src"], "shutdown", q["auth"])
                    if ok:
                        legit_shutdown = True
                        res.count("legit_shutdown")
                        try:
                            sq.proc.wait(timeout=20)
                        except Exception:
                            res.note("squid did not exit within 20 s after an authorised shutdown")
                        break
                if "reconfigure" in performed:
                    # squid closes and re-opens its listening socket; wait for the log line, not by connect probes
                    if not wait_listening(sq, listening_before, 30) and any(x in sq.log_text() for x in ("Unable to open HTTP Socket", "Address already in use")):
                        res.count("lab_port_lost_during_reconfigure")     # lab artefact (port taken while closed), not an event
                        port_lost = True
                        break
                    time.sleep(0.1)
                # ---- squid must still be the same live process
                if not sq.alive():
                    log = sq.log_text()
                    if EFFECTS["shutdown"] in log:
                        res.violation("shutdown-without-authorisation", desc + "; observed: squid exited after this request and cache.log says 'Shutdown by Cache Manager command.'", wit)
                    else:
                        res.violation("crash:squid-exited", desc + "; squid exited: " + sq.tail_log(800), wit)
                    break
                if sq.proc.pid != pid0:
                    res.violation("squid-pid-changed", desc, wit)
                if bad:
                    continue
                if q["ref"] and not q["odd"] and q["method"] == "GET":
                    if q["action"] in shown or q["action"] in performed:
                        res.count("allowed_and_served")
                    else:
                        # not demanded by the statement ("only when"); evidence that the reference is not vacuous is counted below
                        res.count("allowed_but_not_served")
                        res.note(f"reference allows but squid answered {status} {m.header('X-Squid-Error')} for action {q['action']} ({q['why']}); body starts {body[:60]!r}; case {c['n']}")
                        res.grey("allowed-but-not-served")
                        continue
                elif not q["ref"]:
                    res.count("denied_status_%s" % status)
                else:
                    res.count("odd_or_nonGET_allowed_" + ("served" if (shown or performed) else "not_served"))
                res.feature(*feat)
            time.sleep(0.1)
            health_events(sq, res, judge=not port_lost, witness=wit)
            if not legit_shutdown and not port_lost and not sq.alive():
                res.violation("crash:squid-exited", "squid exited during the workload: " + sq.tail_log(), wit)
        finally:
            sq.stop()
            health_events(sq, res, judge=not port_lost, witness=wit)

    if a.replay_data and "case" in a.replay_data:
        cases = [gen_case(a.replay_data.get("seed", a.seed), a.replay_data["case"])]
    else:
        cases = [gen_case(a.seed, n) for n in range(a.cases)]
    try:
        with ThreadPoolExecutor(2) as ex:
            list(ex.map(one, cases))
    finally:
        for sq in squids:
            sq.stop()
    res.count("configs", len(cases))
    if not a.replay_data:
        if res.counters.get("allowed_and_served", 0) < 3 * len(cases):
            res.inconclusive.append("too few allowed manager requests were served: %d" % res.counters.get("allowed_and_served", 0))
        denied = sum(v for k, v in res.counters.items() if k.startswith("denied_status_"))
        if denied < 3 * len(cases):
            res.inconclusive.append("too few denied manager requests: %d" % denied)


if __name__ == "__main__":
    base.main_wrapper("C61", run)
