#!/usr/bin/python3
"""C33 Error pages never reflect client input unescaped (DESIGN 5.1).

Every client-controlled location of a request (URL path / userinfo / host, method, header names and values, HTTP version
token, Basic user names for proxy and cache-manager authentication, FTP user from the URL and FTP server replies) carries a
unique nonce payload  <vErIf-CxL>"'&  .  The request is shaped so that Squid answers with one of its generated error pages
(X-Squid-Error tells which).  Oracle on the page body: the nonce may only occur HTML-escaped or URL-escaped, i.e. never
preceded by a raw '<' and never followed by the raw '>' '"' ''' '&' characters of the payload."""
import base64, os, random, re, shutil, socket, threading, time
from lab import base, httpref
from lab.lab import Lab, run_cases, Resp, Conn, request_bytes
from lab.squidproc import free_port

FULL_TAIL = ">\"'&"

ALL_TEMPLATE = """<html><head><title>%c</title></head><body id=%c>
<p>a=[%a] B=[%B] H=[%H] i=[%i] I=[%I] M=[%M] o=[%o] p=[%p] P=[%P] u=[%u] U=[%U] x=[%x] z=[%z] Z=[%Z] m=[%m] e=[%e] E=[%E]
 f=[%f] F=[%F] g=[%g] D=[%D] A=[%A] b=[%b] t=[%t]</p>
<a href="%U">%U</a> <a href="mailto:%w%W">%w</a>
<pre>%R</pre>
</body></html>
"""

AUTH_HELPER = """#!/usr/bin/python3
import sys, urllib.parse
for line in sys.stdin:
    p = line.rstrip("\\n").split(" ")
    pw = urllib.parse.unquote(p[1]) if len(p) > 1 else ""
    sys.stdout.write("OK\\n" if pw == "ok" else "ERR\\n")
    sys.stdout.flush()
"""

KINDS = ["deny", "denyall", "badhost", "badreq", "badmethod", "unsup", "httpver", "refused", "toobig", "hdrtoobig", "auth407", "authok_denied",
         "mgr_badaction", "mgr_pw", "only_if_cached", "zero", "badresp", "never_direct", "internal", "expect", "origin_form", "unknown_scheme",
         "ftp_login", "ftp_list", "ftp_refused", "precond", "replytoobig", "connect_bad", "urn", "readerr", "dns"]


class Noncer:
    def __init__(self, n, r):
        self.n = n
        self.k = 0
        self.r = r
        self.where = {}
        self.tails = {}

    def __call__(self, where):
        self.k += 1
        self.where[self.k] = where
        self.tails[self.k] = FULL_TAIL
        extra = self.r.choice(["", "", "", "<script>alert(1)</script>", "%U", "%R%W", "%", "</pre>", "&lt;", "&#60;", "\t<b>"])
        return f"<vErIf-{self.n}x{self.k}>\"'&{extra}"

    def safe(self, where):
        """payload restricted to token characters (method / header-name positions that must stay syntactically valid)"""
        self.k += 1
        self.where[self.k] = where
        self.tails[self.k] = "'&"
        return f"vErIf-{self.n}x{self.k}'&"


def gen_case(seed, n):
    r = random.Random(f"C33:{seed}:{n}")
    c = {"n": n, "seed": seed}
    # DNS failures take seconds each: few cases
    kinds = [k for k in KINDS if k != "dns"]
    c["kind"] = "dns" if r.random() < 0.02 else r.choice(kinds)
    c["rs"] = r.randrange(1 << 30)
    return c


def b64(s):
    return base64.b64encode(s.encode("latin1")).decode()


class FtpStub:
    """tiny FTP server: greets, then fails the login (or a later command) with a reply text taken from the scenario table"""

    def __init__(self):
        self.ls = socket.socket()
        self.ls.setsockopt(socket.SOL_SOCKET, socket.SO_REUSEADDR, 1)
        self.ls.bind(("127.0.0.1", 0))
        self.ls.listen(64)
        self.port = self.ls.getsockname()[1]
        self.replies = {}       # user -> (stage, code, text)
        self.seen = []
        self.stop = False
        threading.Thread(target=self._loop, daemon=True).start()

    def _loop(self):
        while not self.stop:
            try:
                c, _ = self.ls.accept()
            except OSError:
                return
            threading.Thread(target=self._serve, args=(c,), daemon=True).start()

    def _serve(self, c):
        try:
            c.settimeout(20)
            c.sendall(b"220 verif ftp ready\r\n")
            f = c.makefile("rb")
            plan = None
            ds = None
            while True:
                line = f.readline()
                if not line:
                    return
                cmd = line.decode("latin1").rstrip("\r\n")
                self.seen.append(cmd)
                verb = cmd.split(" ", 1)[0].upper()
                arg = cmd.split(" ", 1)[1] if " " in cmd else ""
                if verb == "USER":
                    plan = self.replies.get(arg)
                    if plan and plan[0] == "USER":
                        c.sendall(f"{plan[1]}-{plan[2]}\r\n{plan[1]} {plan[2]}\r\n".encode("latin1"))
                        continue
                    c.sendall(b"331 password please\r\n")
                elif verb == "PASS":
                    if plan and plan[0] == "PASS":
                        c.sendall(f"{plan[1]}-{plan[2]}\r\n{plan[1]} {plan[2]}\r\n".encode("latin1"))
                        continue
                    c.sendall(b"230 logged in\r\n")
                elif verb in ("TYPE", "MDTM", "SIZE", "CWD", "FEAT", "PWD", "SYST"):
                    if verb == "TYPE":
                        c.sendall(b"200 ok\r\n")
                    elif plan and plan[0] == "CWD" and verb in ("CWD", "MDTM", "SIZE"):
                        c.sendall(f"{plan[1]}-{plan[2]}\r\n{plan[1]} {plan[2]}\r\n".encode("latin1"))
                    elif verb == "CWD":
                        c.sendall((f"250-{plan[2]}\r\n250 ok\r\n" if plan and plan[0] == "LIST" else "250 ok\r\n").encode("latin1"))
                    elif verb == "PWD":
                        c.sendall(b'257 "/" is cwd\r\n')
                    elif verb == "SYST":
                        c.sendall(b"215 UNIX Type: L8\r\n")
                    else:
                        c.sendall(b"550 no\r\n")
                elif verb == "PASV":
                    ds = socket.socket()
                    ds.bind(("127.0.0.1", 0))
                    ds.listen(1)
                    dp = ds.getsockname()[1]
                    c.sendall(f"227 Entering Passive Mode (127,0,0,1,{dp >> 8},{dp & 255})\r\n".encode())
                elif verb in ("LIST", "NLST", "RETR") and ds is not None:
                    c.sendall(b"150 here it comes\r\n")
                    ds.settimeout(10)
                    d, _ = ds.accept()
                    if verb == "RETR":
                        d.sendall(b"file body\n")
                    else:
                        d.sendall("".join(l + "\r\n" for l in (plan[3] if plan and len(plan) > 3 else ["-rw-r--r-- 1 u g 5 Jan  1  2020 plain.txt"])).encode("latin1"))
                    d.close()
                    ds.close()
                    ds = None
                    c.sendall(b"226 done\r\n")
                elif verb == "QUIT":
                    c.sendall(b"221 bye\r\n")
                    return
                else:
                    t = plan[2] if plan else "no"
                    c.sendall(f"500 {t}\r\n".encode("latin1"))
        except OSError:
            pass
        finally:
            try:
                c.close()
            except OSError:
                pass


NONCE_RE = re.compile(rb"verif-(\d+)x(\d+)", re.I)


def scan(body, tails=None):
    """returns list of (nonce id, problem) for every unescaped reflection found in body.
    tails: {k: tail string sent right after nonce k}; default is the full hostile tail"""
    bad = []
    for m in NONCE_RE.finditer(body):
        s, e = m.start(), m.end()
        ident = m.group(0).decode()
        TAIL = (tails or {}).get(int(m.group(2)), FULL_TAIL)
        if s > 0 and body[s - 1:s] == b"<":
            bad.append((ident, "raw '<' before nonce"))
        # walk the payload tail: none of the (remaining) tail characters may appear raw right after the nonce
        pos = e
        for i in range(len(TAIL)):
            nxt = body[pos:pos + 1]
            em = re.match(rb"&(?:lt|gt|quot|apos|amp|#\d+|#x[0-9a-f]+);", body[pos:pos + 10], re.I)
            if em:
                pos += em.end()
                continue
            if nxt and nxt in TAIL[i:].encode():
                bad.append((ident, "raw %r after nonce" % nxt.decode()))
                break
            um = re.match(rb"(?:%(?:25)*[0-9A-Fa-f]{2})", body[pos:pos + 12])
            if um:
                pos += um.end()
                continue
            break   # something else (truncated / transformed): nothing raw adjacent
    return bad


def run(a, res):
    table = {}

    def handler(req):
        path = "/" + req.target.split("://", 1)[-1].split("/", 1)[-1]
        k = path.split("/")[1] if path.count("/") >= 1 else ""
        if k == "zero":
            return None
        if k == "badresp":
            v = len(path) % 4
            return Resp(raw=[b"HTTP/1.1 200 OK\r\nContent-Length: 3\r\nContent-Length: 5\r\n\r\nabcde", b"HTTP/1.1 2000 OK\r\nContent-Length: 0\r\n\r\n",
                             b"HTTP/1.1 200 OK\r\nTransfer-Encoding: chunked\r\n\r\nzz\r\n", b"HTTP/9.1 200 OK\r\nContent-Length: 0\r\n\r\n"][v])
        if k == "readerr":
            return Resp(200, length=5000, abort_at=60, abort_kind="rst")
        if k == "precond":
            return Resp(200, [("Cache-Control", "max-age=3600"), ("ETag", '"v1"')], length=20)
        if k == "replytoobig":
            return Resp(200, length=20000)
        return Resp(200, length=10)

    errdir = os.path.join(a.work, "errs33")
    os.makedirs(errdir, exist_ok=True)
    src = f"{base.BUILD}/errors/templates"
    for f in os.listdir(src):
        if f.startswith("ERR_") or f in ("error-details.txt", "MGR_INDEX"):
            shutil.copy(os.path.join(src, f), os.path.join(errdir, f))
    open(os.path.join(errdir, "ERR_VERIF_ALL"), "w").write(ALL_TEMPLATE)
    os.chmod(errdir, 0o755)
    for f in os.listdir(errdir):
        os.chmod(os.path.join(errdir, f), 0o644)
    helper = os.path.join(a.work, "auth33.py")
    open(helper, "w").write(AUTH_HELPER)
    os.chmod(helper, 0o755)
    closed_port = free_port()
    ftp = FtpStub()
    conf = f"""
error_directory {errdir}
cache_mem 8 MB
auth_param basic program {helper}
auth_param basic children 4
auth_param basic realm verif
auth_param basic credentialsttl 1 second
acl authed proxy_auth REQUIRED
acl p_deny urlpath_regex ^/deny/
acl p_denyall urlpath_regex ^/denyall/
acl p_auth urlpath_regex ^/auth/
acl p_authok urlpath_regex ^/authok/
acl p_authok2 urlpath_regex ^/authok/
acl p_nd urlpath_regex ^/nd/
acl p_rtb urlpath_regex ^/replytoobig/
deny_info ERR_VERIF_ALL p_denyall
deny_info ERR_VERIF_ALL p_authok2
request_body_max_size 2 KB
request_header_max_size 16 KB
reply_body_max_size 4 KB p_rtb
never_direct allow p_nd
dns_timeout 1 seconds
connect_timeout 5 seconds
cachemgr_passwd s3cret info
email_err_data on
ftp_passive on
ftp_epsv off
http_access deny p_deny
http_access deny p_denyall
http_access deny p_auth !authed
http_access deny p_authok authed p_authok2
"""
    lab = Lab(a, res, handler=handler, conf=conf)
    errs = {}
    elock = threading.Lock()

    def one(c):
        r = random.Random(c["rs"])
        N = Noncer(c["n"], r)
        wit = {"seed": c["seed"], "case": c["n"]}
        kind = c["kind"]
        oport = lab.org.port
        P = N
        hs = []
        # hostile values in ordinary request headers (every kind)
        for name in ["User-Agent", "Referer", "Cookie", "Accept-Language", "X-Forwarded-For", "Via", "X-Custom", "From", "Origin"]:
            if r.random() < 0.6:
                hs.append((name, P("hdr:" + name)))
        if r.random() < 0.3:
            hs.append(("X-" + N.safe("hdrname"), "v"))
        method = "GET"
        version = "HTTP/1.1"
        body = None
        path_tail = P("path") if r.random() < 0.8 else "plain"
        path_tail = path_tail.replace(" ", "_").replace("\t", "_")
        host = f"127.0.0.1:{oport}"
        raw = None
        url = None
        if kind == "deny":
            url = f"http://{host}/deny/{path_tail}"
            if r.random() < 0.3:
                method = N.safe("method")
        elif kind == "denyall":
            url = f"http://{host}/denyall/{path_tail}"
            if r.random() < 0.5:
                method = N.safe("method")
            if r.random() < 0.3:
                url = f"http://{N.safe('userinfo')}@{host}/denyall/{path_tail}"
        elif kind == "badhost":
            hh = r.choice([P("host"), "a" + P("host") + ".example", "127.0.0.1:" + P("port"), P("userinfo") + "@127.0.0.1", "[" + P("v6host") + "]"])
            url = f"http://{hh}/x/{path_tail}".replace(" ", "_").replace("\t", "_")
        elif kind == "badreq":
            v = r.choice(["sp_in_uri", "bad_version", "hdr_no_colon", "bad_hdr_name", "nul"])
            if v == "sp_in_uri":
                raw = f"GET http://{host}/x/{P('uri')} {P('uri2')} HTTP/1.1\r\nHost: {host}\r\n"
            elif v == "bad_version":
                raw = f"GET http://{host}/x/{path_tail} HTTP/1.1{P('version')}\r\nHost: {host}\r\n"
            elif v == "hdr_no_colon":
                raw = f"GET http://{host}/x/{path_tail} HTTP/1.1\r\nHost: {host}\r\n{P('hdrline')}\r\n"
            elif v == "bad_hdr_name":
                raw = f"GET http://{host}/x/{path_tail} HTTP/1.1\r\nHost: {host}\r\nX{P('hdrname')}: v\r\n"
            else:
                raw = f"GET http://{host}/x/{path_tail} HTTP/1.1\r\nHost: {host}\r\nX-Nul: a\0{P('afternul')}\r\n"
            raw += "".join(f"{k}: {v}\r\n" for k, v in hs) + "Connection: close\r\n\r\n"
        elif kind == "badmethod":
            raw = f"{P('method')} http://{host}/x/{path_tail} HTTP/1.1\r\nHost: {host}\r\n" + "".join(f"{k}: {v}\r\n" for k, v in hs) + "Connection: close\r\n\r\n"
        elif kind == "unsup":
            method = N.safe("method")
            url = f"ftp://127.0.0.1:{ftp.port}/unsup/{path_tail}"
        elif kind == "unknown_scheme":
            url = f"{r.choice(['foo', 'gopher', 'wais', 'verif+x'])}://{host}/x/{path_tail}"
        elif kind == "httpver":
            version = r.choice(["HTTP/2.0", "HTTP/3.1", "HTTP/0.8"])
            url = f"http://{host}/x/{path_tail}"
        elif kind == "refused":
            url = f"http://127.0.0.1:{closed_port}/refused/{path_tail}"
            if r.random() < 0.3:
                method = N.safe("method")
        elif kind == "toobig":
            method = r.choice(["POST", "PUT"])
            body = b"x" * 5000
            url = f"http://{host}/big/{path_tail}"
        elif kind == "hdrtoobig":
            url = f"http://{host}/hbig/{path_tail}"
            hs.append(("X-Fill", P("bighdr") + "y" * 20000))
        elif kind == "auth407":
            url = f"http://{host}/auth/{path_tail}"
            hs.append(("Proxy-Authorization", "Basic " + b64(P("user") + ":" + r.choice(["wrong", P("password")]))))
        elif kind == "authok_denied":
            url = f"http://{host}/authok/{path_tail}"
            hs.append(("Proxy-Authorization", "Basic " + b64(P("user") + ":ok")))
        elif kind == "mgr_badaction":
            mh = f"127.0.0.1:{lab.sq.port}"
            raw = f"GET /squid-internal-mgr/{path_tail} HTTP/1.1\r\nHost: {mh}\r\n" + "".join(f"{k}: {v}\r\n" for k, v in hs) + "Connection: close\r\n\r\n"
        elif kind == "mgr_pw":
            mh = f"127.0.0.1:{lab.sq.port}"
            hs.append(("Authorization", "Basic " + b64(P("mgruser") + ":" + r.choice(["bad", P("mgrpw")]))))
            raw = f"GET /squid-internal-mgr/info HTTP/1.1\r\nHost: {mh}\r\n" + "".join(f"{k}: {v}\r\n" for k, v in hs) + "Connection: close\r\n\r\n"
        elif kind == "internal":
            mh = f"127.0.0.1:{lab.sq.port}"
            sub = r.choice(["squid-internal-static", "squid-internal-periodic", "squid-internal-dynamic"])
            raw = f"GET /{sub}/{path_tail} HTTP/1.1\r\nHost: {mh}\r\n" + "".join(f"{k}: {v}\r\n" for k, v in hs) + "Connection: close\r\n\r\n"
        elif kind == "origin_form":
            raw = f"GET /of/{path_tail} HTTP/1.1\r\nHost: {P('hosthdr')}\r\n" + "".join(f"{k}: {v}\r\n" for k, v in hs) + "Connection: close\r\n\r\n"
        elif kind == "only_if_cached":
            url = f"http://{host}/oic/{path_tail}"
            hs.append(("Cache-Control", "only-if-cached"))
        elif kind in ("zero", "badresp", "readerr", "replytoobig"):
            url = f"http://{host}/{kind}/{path_tail}"
        elif kind == "never_direct":
            url = f"http://{host}/nd/{path_tail}"
        elif kind == "expect":
            url = f"http://{host}/x/{path_tail}"
            hs.append(("Expect", P("expect")))
        elif kind == "ftp_login":
            user = N.safe("ftpuser").replace("&", "%26").replace("'", "%27")
            uplain = user.replace("%26", "&").replace("%27", "'")
            stage = r.choice(["USER", "PASS", "CWD"])
            ftp.replies[uplain] = (stage, r.choice([530, 421, 550, 500, 451]), P("ftpreply").replace("\t", " "))
            url = f"ftp://{user}:{N.safe('ftppass').replace('&', '%26')}@127.0.0.1:{ftp.port}/d/{path_tail}"
            if r.random() < 0.3:
                url += "/"
        elif kind == "ftp_list":
            user = N.safe("ftpuser").replace("&", "%26").replace("'", "%27")
            uplain = user.replace("%26", "&").replace("%27", "'")
            lines = []
            for _ in range(r.randrange(1, 6)):
                nm = P("ftpfilename").replace("\t", " ")
                t = r.choice(["file", "file", "dir", "link", "dos", "garbage"])
                if t == "file":
                    lines.append(f"-rw-r--r--   1 {N.safe('ftpowner')} grp  {r.randrange(10**6)} Jan  1  2020 {nm}")
                elif t == "dir":
                    lines.append(f"drwxr-xr-x   2 own grp  4096 Feb  2 12:34 {nm}")
                elif t == "link":
                    lines.append(f"lrwxrwxrwx   1 own grp  4 Mar  3  2021 {nm} -> {P('ftplinktarget')}")
                elif t == "dos":
                    lines.append(f"01-02-20  03:04PM       <DIR>          {nm}")
                elif r.random() < 0.5:
                    lines.append(P("ftplistline"))
                else:
                    lines.append(f"-rw-r--r--   1 own grp  77 Jan  1  2020 {P('ftplongline')}" + "y" * 1100)
            ftp.replies[uplain] = ("LIST", 250, P("ftpcwdmsg").replace("\t", " "), lines)
            url = f"ftp://{user}:pw@127.0.0.1:{ftp.port}/d/{path_tail}/"
        elif kind == "ftp_refused":
            url = f"ftp://{N.safe('ftpuser').replace('&', '%26')}@127.0.0.1:{closed_port}/d/{path_tail}"
        elif kind == "precond":
            url = f"http://{host}/precond/{c['n']}"
            m0 = lab.fetch("GET", None, url=url, req_id=f"{c['seed']}.{c['n']}.prime")
            hs.append(("If-Match", '"' + N.safe("etag") + '"'))
        elif kind == "connect_bad":
            raw = f"CONNECT {P('authority')}:443 HTTP/1.1\r\nHost: x\r\n" + "".join(f"{k}: {v}\r\n" for k, v in hs) + "\r\n"
        elif kind == "urn":
            url = f"urn:{r.choice(['menu', 'x'])}:{path_tail}"
        elif kind == "dns":
            url = f"http://verif-{c['n']}x0.{N.safe('dnshost').replace(chr(39), '').replace('&', '')}.invalid/dns/{path_tail}"
        if raw is None:
            url = url.replace(" ", "_")
            data = request_bytes(method, url, hs + [("Connection", "close")], body, version, req_id=f"{c['seed']}.{c['n']}", host=url.split("://", 1)[-1].split("/", 1)[0].split("@")[-1] if "://" in url else "x")
        else:
            data = raw.encode("latin1")
        try:
            conn = lab.conn(timeout=30)
        except OSError:
            res.count("connect_failed")
            return
        conn.send(data)
        m = conn.read_response(method if raw is None else "GET", timeout=30)
        if m.start is None and not m.error:
            rest = m.raw
        conn.close()
        if m.start is None:
            res.count("no_response:" + kind)
            res.feature(kind, "noresp")
            # even a non-HTTP answer must not carry a raw reflection
            bodybytes = m.raw or b""
            err = None
        else:
            bodybytes = m.body
            err = m.header("X-Squid-Error")
        ename = err.split(" ")[0] if err else None
        if m.start is not None and ename is None:
            res.count(f"not_an_error_page:{kind}:{m.status}")
            res.feature(kind, "noerr", m.status)
            return
        with elock:
            if ename:
                errs[ename] = errs.get(ename, 0) + 1
        res.count("error_pages")
        res.count(f"kind:{kind}:{ename}")
        nn = len(NONCE_RE.findall(bodybytes))
        res.count("nonce_occurrences_in_pages", nn)
        if nn:
            res.count("pages_reflecting_some_nonce")
        bad = scan(bodybytes, N.tails)
        ctype = (m.header("Content-Type") or "") if m.start is not None else ""
        if bad:
            ident, why = bad[0]
            k = int(ident.split("x")[-1])
            loc = N.where.get(k, "?")
            loc_key = loc.split(":")[0]
            i = bodybytes.lower().find(ident.lower().encode())
            ctx = bodybytes[max(0, i - 80):i + 80]
            if "html" not in ctype.lower() and m.start is not None:
                res.grey("reflection-in-non-html-body")
                res.note(f"non-HTML ({ctype}) squid-generated body reflects input raw: {ename} {loc}")
            else:
                res.violation(f"unescaped-reflection:{ename}:{loc_key}",
                              f"{why}; client-controlled location={loc}; scenario={kind}; status={m.status if m.start else None}; X-Squid-Error={err}; body context={ctx!r}", wit)
        reflected = sorted(set(N.where.get(int(k), "?").split(":")[0] for _, k in NONCE_RE.findall(bodybytes)))
        res.feature(kind, ename, m.status if m.start else None, tuple(reflected))

    try:
        run_cases(a, res, gen_case, one, threads=6)
    finally:
        ftp.stop = True
        try:
            ftp.ls.close()
        except OSError:
            pass
        lab.finish()
    for k, v in sorted(errs.items()):
        res.count("template:" + k, v)
    res.note("distinct X-Squid-Error values reached: %d (%s)" % (len(errs), ",".join(sorted(errs))))
    if not a.replay_data:
        if len(errs) < 6:
            res.inconclusive.append(f"only {len(errs)} distinct error templates reached (floor 6)")
        if res.counters.get("pages_reflecting_some_nonce", 0) < max(1, a.cases // 10):
            res.inconclusive.append("too few error pages echoed any nonce (escaped or not): nothing to judge")


if __name__ == "__main__":
    base.main_wrapper("C33", run)
