#!/usr/bin/python3
"""C11 Responses forbidden to be stored are never served from cache (DESIGN 5.1).

Per case a fresh URL and three sequential GETs. Request 1 carries random request Cache-Control directives and
optionally Authorization; every origin response of the case carries the same random response Cache-Control
combination / status / Expires / Last-Modified / ETag. Requests 2 and 3 are plain (no Authorization, no directives).

Oracle (exactly the statement): pair j=(request j, response j) is FORBIDDEN if response j had no-store or private,
or request j had no-store, or request j had Authorization and response j had none of {public, must-revalidate,
s-maxage}. A later request k must never be answered with the body of a forbidden pair j<k (neither as a plain hit nor
after a conditional revalidation), and while the only earlier pairs are forbidden the request must reach the origin.
Grey: Authorization + bare `no-cache` only (Squid's documented USE_HTTP_VIOLATIONS tolerance)."""
import random, time
from lab import base
from lab.lab import Lab, run_cases, Resp, http_date
from lab.x_cachelab import path_of, parse_cc, rand_case, render_list, body_rid, RidBook, liveness_conf

STATUSES = [200, 200, 200, 200, 200, 203, 300, 301, 410, 404, 302, 204]


def gen_case(seed, n):
    r = random.Random(f"C11:{seed}:{n}")
    c = {"n": n, "seed": seed}
    # ---- request 1
    rq = []
    kind = r.random()
    c["req_nostore"] = kind < 0.3
    if c["req_nostore"]:
        for _ in range(r.choice([1, 1, 1, 2])):
            rq.append(rand_case("no-store", r))
    for d in ["max-age=%d" % r.choice([0, 60, 100000]), "no-cache", "max-stale", "min-fresh=5", "no-transform",
              "x-ext=1", 'x-q="a, no-store, b"', "only-if-cachedx", "x-no-store", "no-storex"]:
        if r.random() < 0.12:
            rq.append(d)
    r.shuffle(rq)
    c["req_cc"] = render_list(r, rq, "Cache-Control")
    c["auth"] = r.random() < 0.4
    c["auth_value"] = r.choice(["Basic dXNlcjpwYXNz", "Bearer abc.def.ghi", "Digest username=\"u\", realm=\"r\", nonce=\"n\", uri=\"/\", response=\"0\""])
    # ---- response (same header recipe for every response of the case)
    rs = []
    pool = [("no-store", 0.22), ("private", 0.16), ('private="x-f1, x-f2"', 0.06), ("private=x-f1", 0.06), ("public", 0.25), ("must-revalidate", 0.2),
            ("s-maxage=%d" % r.choice([60, 3600, 86400]), 0.2), ("max-age=%d" % r.choice([60, 3600, 86400, 31536000]), 0.6),
            ("no-cache", 0.08), ('no-cache="set-cookie"', 0.04), ("proxy-revalidate", 0.06), ("no-transform", 0.06),
            ("immutable", 0.05), ("x-ext", 0.06), ('x-q="private, no-store"', 0.06), ("stale-while-revalidate=30", 0.04),
            ("x-private", 0.03), ("no-store-x", 0.03)]
    for d, p in pool:
        if r.random() < p:
            if d in ("no-store", "private", "public", "must-revalidate"):
                d = rand_case(d, r)
                if r.random() < 0.15:
                    rs.append(d)      # duplicate
            rs.append(d)
    r.shuffle(rs)
    c["resp_cc"] = render_list(r, rs, "Cache-Control")
    c["status"] = r.choice(STATUSES)
    c["expires"] = r.choice([None, None, "future", "future", "past", "bad"])
    c["lm"] = r.random() < 0.5
    c["etag"] = r.random() < 0.5
    c["reval304"] = r.random() < 0.6      # origin answers 304 to conditional requests from squid
    c["len"] = r.choice([30, 100, 5000, 40000])
    c["gap"] = r.choice([0, 0, 0.05])
    return c


def forbidden(req_cc, auth, resp_cc):
    """returns (forbidden?, grey?, reason) from the statement"""
    if "no-store" in resp_cc:
        return True, False, "resp-no-store"
    if "private" in resp_cc:
        return True, False, "resp-private"
    if "no-store" in req_cc:
        return True, False, "req-no-store"
    if auth:
        if not ({"public", "must-revalidate", "s-maxage"} & set(resp_cc)):
            if any(a is None for a in resp_cc.get("no-cache", [])):
                return True, True, "auth+bare-no-cache"
            return True, False, "auth"
    return False, False, "allowed"


def run(a, res):
    table = {}
    book = RidBook()

    def handler(req):
        c = table.get(path_of(req))
        if c is None:
            return Resp(404, length=5)
        hs = list(c["resp_cc"])
        now = time.time()
        if c["expires"] == "future":
            hs.append(("Expires", http_date(now + 7200)))
        elif c["expires"] == "past":
            hs.append(("Expires", http_date(now - 7200)))
        elif c["expires"] == "bad":
            hs.append(("Expires", "0"))
        if c["lm"]:
            hs.append(("Last-Modified", http_date(now - 30 * 86400)))
        if c["etag"]:
            hs.append(("ETag", '"v%d"' % c["n"]))
        if c["status"] in (301, 302, 300):
            hs.append(("Location", "/elsewhere"))
        cond = any(k.lower() in ("if-none-match", "if-modified-since") for k, _ in req.headers)
        if cond and c["reval304"]:
            resp = Resp(304, hs, body=b"", framing="none")
        else:
            resp = Resp(c["status"], hs, length=0 if c["status"] == 204 else c["len"], framing="none" if c["status"] == 204 else "cl")
        return book.add(resp, req_id=req.req_id, cond=cond)

    lab = Lab(a, res, handler=handler, conf="cache_mem 32 MB\nmaximum_object_size_in_memory 1 MB\n" + liveness_conf())

    def one(c):
        wit = {"seed": c["seed"], "case": c["n"]}
        path = f"/c11/{c['seed']}/{c['n']}"
        table[path] = c
        resp_cc = parse_cc([v for _, v in c["resp_cc"]])
        pairs = {}       # k -> (forbidden, grey, reason, body rid of response minted for k or None)
        outcome = []
        for k in (1, 2, 3):
            rid_req = f"{c['seed']}.{c['n']}.{k}"
            hs = []
            req_cc = {}
            auth = False
            if k == 1:
                hs += c["req_cc"]
                req_cc = parse_cc([v for _, v in c["req_cc"]])
                auth = c["auth"]
                if auth:
                    hs.append(("Authorization", c["auth_value"]))
            m = lab.fetch("GET", path, hs, req_id=rid_req)
            if m.start is None or m.error:
                res.count("no_or_bad_response")
                outcome.append("noresp")
                if m.error:
                    res.violation("client-bytes-invalid-http", m.error, wit)
                break
            ups = lab.at_origin(rid_req)
            res.count("requests")
            if ups:
                res.count("reached_origin")
            conditional = any(any(k2.lower() in ("if-none-match", "if-modified-since") for k2, _ in u.headers) for u in ups)
            brid = body_rid(m.body)
            if brid is None and m.status != 204 and m.header("X-Verif-Rid") is None:
                res.count("squid_generated_%s" % m.status)
                outcome.append("squidgen")
                pairs[k] = (True, False, "none", None)
                continue
            src = book.get(brid) if brid else None
            # which pair produced the body the client got?
            j = None
            if src is not None:
                j = int(src["req_id"].rsplit(".", 1)[1])
            elif m.status == 204:
                # bodyless: identify by header rid
                src = book.get(m.header("X-Verif-Rid") or "")
                j = int(src["req_id"].rsplit(".", 1)[1]) if src else None
            own = [u.resp.rid for u in ups if getattr(u, "resp", None) is not None and u.resp.status != 304]
            pairs[k] = forbidden(req_cc, auth, resp_cc) + ((own[0] if own else None),)
            if j is None:
                res.count("unidentified_body")
                outcome.append("unknown")
                continue
            earlier_all_forbidden = all(pairs[i][0] and not pairs[i][1] for i in range(1, k) if i in pairs and pairs[i][3] is not None) and \
                any(i in pairs and pairs[i][3] is not None for i in range(1, k))
            if j < k:
                fb, grey, why, _ = pairs[j]
                how = "revalidated" if ups else "hit"
                res.count("hits" if not ups else "revalidated_hits")
                outcome.append(how + ":" + why)
                if fb and grey:
                    res.grey(why)
                elif fb:
                    key = "forbidden-response-served-from-cache:" + why + (":after-304" if ups else "")
                    res.violation(key, f"request {k} was answered with the body of response {j} ({src['resp'].rid}) which must not be reused: {why}; "
                                       f"request-1 headers={c['req_cc']} auth={c['auth']}; response headers={c['resp_cc']} status={c['status']} "
                                       f"expires={c['expires']} lm={c['lm']} etag={c['etag']}; origin contacted for request {k}: {bool(ups)} conditional={conditional}", wit)
                else:
                    res.count("allowed_hits")
            else:
                outcome.append("miss")
                res.count("misses")
                if k > 1 and not ups:
                    res.violation("own-rid-without-origin", f"request {k} got a fresh rid but the origin never saw it", wit)
            if k > 1 and earlier_all_forbidden and not ups:
                # already a violation above (j<k is then necessarily a forbidden pair); counted for the evidence
                res.count("forbidden_not_at_origin")
            if k > 1 and earlier_all_forbidden and ups:
                res.count("forbidden_then_origin_contacted")
            if c["gap"]:
                time.sleep(c["gap"])
        fb1 = forbidden(parse_cc([v for _, v in c["req_cc"]]), c["auth"], resp_cc)
        res.feature(fb1[2], c["req_nostore"], c["auth"], tuple(sorted(k for k in resp_cc if k in (
            "no-store", "private", "public", "must-revalidate", "s-maxage", "max-age", "no-cache", "proxy-revalidate"))),
            c["status"], c["expires"], c["lm"], c["etag"], tuple(outcome))

    try:
        run_cases(a, res, gen_case, one, threads=8)
    finally:
        lab.finish()
    if not a.replay_data:
        if res.counters.get("allowed_hits", 0) < max(1, a.cases // 20):
            res.inconclusive.append("too few cache hits on storable responses: caching did not demonstrably work (%d)" % res.counters.get("allowed_hits", 0))
        if res.counters.get("forbidden_then_origin_contacted", 0) < max(1, a.cases // 10):
            res.inconclusive.append("too few forbidden pairs followed by a request")


if __name__ == "__main__":
    base.main_wrapper("C11", run)
