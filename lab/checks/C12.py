#!/usr/bin/python3
"""C12 Stale responses are not served without revalidation (DESIGN 5.1; uses clock hook H1).

The clock is global, so the run is a sequence of BATCHES (the unit of replay). A batch caches 64 fresh URLs
concurrently; every origin response carries a random explicit freshness lifetime (s-maxage / max-age / Expires-Date,
single or in combinations that exercise the precedence, 5..3600 s left at the time of the response), a Date skewed
against Squid-time (small, up to 12 h in the past with a correspondingly longer lifetime, up to 12 h in the future, or
25-48 h in the past = grey), optionally must-revalidate / proxy-revalidate and a validator. Then 8 rounds: the clock
is advanced to 4 s before or 4 s after the expiry instant of a pivot entry and ALL entries of the batch are probed
concurrently with random request directives (none, max-age=0, no-cache, max-stale, max-stale=n, min-fresh=n,
max-age=n, Pragma: no-cache). Whenever the origin is asked (fully or conditionally; it answers conditionals with 304
half of the time) the entry's expiry instant E is recomputed from that newest origin response (Date + lifetime).

Oracle, per probe sent at Squid-time T = wall + offset, only if the origin was NOT contacted for it (pure hit):
 * request had max-age=0 or no-cache                       -> violation;
 * T >= E+3 and the response is marked must-revalidate      -> violation (even with max-stale);
 * T >= E+3 otherwise -> violation unless max-stale (bare) or max-stale=n with n >= (T-E)+3; n within 3 s: grey;
 * T <= E-3 -> fine (counted as fresh hit: the evidence that caching works); |T-E| < 3 -> grey.
Serving fresh content from cache is never required. Grey: Date more than 24 h old (Bug 1791 rule; deviations are
reported as an observation), stale + max-stale with only proxy-revalidate/s-maxage (statement names must-revalidate),
responses without explicit lifetime."""
import os, random, threading, time
from concurrent.futures import ThreadPoolExecutor
from lab import base
from lab.lab import Lab, Resp, http_date
from lab.x_cachelab import path_of, body_rid, liveness_conf

B = 64          # entries per batch
ROUNDS = 8
LIVENESS = bool(os.environ.get("VERIF_LIVENESS_ORACLE"))    # validation only: oracle believes lifetimes are half as long

DIRECTIVES = [None] * 6 + ["max-age=0", "no-cache", "max-stale", "max-stale=%d", "max-stale=%d", "min-fresh=%d", "max-age=%d", "pragma"]


def gen_batch(seed, b):
    r = random.Random(f"C12:{seed}:{b}")
    ents = []
    for i in range(B):
        e = {"i": i}
        k = r.random()
        if k < 0.55:
            e["skew"] = r.choice([0, 0, 0, -1, 1, -30, 30, -60, 60])
        elif k < 0.75:
            e["skew"] = -r.randrange(61, 12 * 3600)
        elif k < 0.92:
            e["skew"] = r.randrange(61, 12 * 3600)
        else:
            e["skew"] = -r.randrange(25 * 3600, 48 * 3600)
        e["kind"] = r.choice(["max-age", "max-age", "max-age", "s-maxage", "expires", "expires", "s-maxage+max-age", "max-age+expires",
                              "s-maxage+expires", "none", "expires-invalid"])
        e["reval"] = r.choice([None, None, None, None, "must-revalidate", "must-revalidate", "proxy-revalidate"])
        e["etag"] = r.random() < 0.6
        e["lm"] = r.random() < 0.4
        e["p304"] = r.choice([0.0, 0.5, 1.0])
        e["rseed"] = r.randrange(1 << 30)
        probes = []
        for _ in range(ROUNDS + 1):
            d = r.choice(DIRECTIVES)
            if d and "%d" in d:
                d = d % r.choice([1, 5, 30, 300, 4000, 100000])
            probes.append(d)
        e["probes"] = probes
        ents.append(e)
    return {"b": b, "seed": seed, "ents": ents, "pivots": [(r.randrange(B), r.choice([-4, 4, 4])) for _ in range(ROUNDS)]}


def run(a, res):
    table = {}        # path -> state
    offset = [0]
    lock = threading.Lock()

    def now():
        return time.time() + offset[0]

    def handler(req):
        s = table.get(path_of(req))
        if s is None:
            return Resp(404, length=5)
        e = s["e"]
        with lock:
            s["nresp"] += 1
            k = s["nresp"]
        r = random.Random("c12resp:%d:%d" % (e["rseed"], k))
        cond = any(h.lower() in ("if-none-match", "if-modified-since") for h, _ in req.headers)
        date = int(now()) + e["skew"]
        left = r.choice([5, 8, 12, 20, 30, 45, 60, 61, 90, 120, 300, 600, 900, 1800, 3600, r.randrange(5, 3600)])
        L = left + max(0, -e["skew"])          # lifetime: what is left now, plus the age the Date already claims
        # RFC 9111 4.2.3: a Date in the future gives apparent_age 0, so the age counts from when the response was received;
        # the response is stale at min(Date, receipt time) + lifetime, NOT at Date + lifetime
        date_E = min(date, int(now()))
        kind = e["kind"]
        cc = []
        hs = []
        E = None
        if kind == "max-age":
            cc.append("max-age=%d" % L); E = date_E + L
        elif kind == "s-maxage":
            cc.append("s-maxage=%d" % L); E = date_E + L
        elif kind == "expires":
            hs.append(("Expires", http_date(date + L))); E = date_E + L
        elif kind == "s-maxage+max-age":
            cc += ["max-age=%d" % (L + 5000), "s-maxage=%d" % L]; E = date_E + L
        elif kind == "max-age+expires":
            cc.append("max-age=%d" % L); hs.append(("Expires", http_date(date + L + 7200))); E = date_E + L
        elif kind == "s-maxage+expires":
            cc.append("s-maxage=%d" % L); hs.append(("Expires", http_date(date + L + 7200))); E = date_E + L
        elif kind == "expires-invalid":
            # invalid Expires = "already expired" (RFC 9111 5.3) without a defined instant: the least demanding reading
            # is "expired when received", which also fixes what max-stale=n is measured from
            hs.append(("Expires", "0")); E = max(date, date - e["skew"])
        if e["reval"]:
            cc.append(e["reval"])
        r.shuffle(cc)
        if cc:
            hs.append(("Cache-Control", ", ".join(cc)))
        if e["etag"]:
            hs.append(("ETag", '"t%d"' % e["i"]))
        if e["lm"] or kind == "none":
            hs.append(("Last-Modified", http_date(date - 86400 * 10)))
        if cond and r.random() < e["p304"]:
            resp = Resp(304, hs, body=b"", framing="none", date=http_date(date))
        else:
            resp = Resp(200, hs, length=80, date=http_date(date))
        with lock:
            s["last"] = {"E": E, "date": date, "L": L, "kind": kind, "status": resp.status, "req_id": req.req_id, "k": k, "rid": resp.rid}
            if resp.status == 200:
                s["rids"][resp.rid] = k
        return resp

    lab = Lab(a, res, handler=handler, conf="cache_mem 64 MB\n" + liveness_conf(), clock=True)

    def probe(bt, s, rnd):
        """one request for entry state s in round rnd (0 = the caching fetch)"""
        e = s["e"]
        wit = {"seed": bt["seed"], "case": bt["b"]}
        d = e["probes"][rnd] if rnd else None
        hs = []
        if d == "pragma":
            hs.append(("Pragma", "no-cache"))
        elif d:
            hs.append(("Cache-Control", d))
        rid = f"{bt['seed']}.{bt['b']}.{e['i']}.{rnd}"
        before = dict(s["last"]) if s["last"] else None
        T = now()
        m = lab.fetch("GET", s["path"], hs, req_id=rid, timeout=30)
        if m.start is None or m.error:
            res.count("no_or_bad_response")
            if m.error:
                res.violation("client-bytes-invalid-http", m.error, wit)
            return
        res.count("probes")
        if before and before["E"] is not None and 3 <= abs(T - before["E"]) <= 10:
            res.count("probes_3_to_10s_before_E" if T < before["E"] else "probes_3_to_10s_after_E")
        ups = lab.at_origin(rid)
        brid = body_rid(m.body)
        feat = [e["kind"], e["reval"], (e["skew"] > 60) - (e["skew"] < -60) if e["skew"] > -86400 else -2, (d or "").split("=")[0]]
        if ups:
            cond = any(any(h.lower() in ("if-none-match", "if-modified-since") for h, _ in u.headers) for u in ups)
            res.count("origin_contacted_conditionally" if cond else "origin_contacted_fully")
            if before and before["E"] is not None and e["skew"] > -86400:
                if T >= before["E"] + 3:
                    res.count("probes_after_expiry_that_contacted_origin")
                elif T <= before["E"] - 3 and d is None:
                    res.count("revalidated_although_fresh")
            res.feature(*feat, "contacted", cond)
            return
        # ---- pure hit
        if brid is None or brid not in s["rids"] or before is None:
            res.count("answer_without_origin_and_unknown_body_%s" % m.status)
            return
        res.count("pure_hits")
        E = before["E"]
        det = (f"entry {e['i']} round {rnd}: request directive {d!r}; served {brid} without contacting the origin at Squid-time T={T:.1f}; newest origin response "
               f"for the URL: status {before['status']} Date={before['date']} kind={before['kind']} lifetime={before['L']} => E={E} (T-E={T - E if E is not None else None}); "
               f"reval={e['reval']} skew={e['skew']}; ")
        if d in ("max-age=0", "no-cache"):
            res.violation("served-from-cache-although-request-forces-revalidation:" + d, det, wit)
            res.feature(*feat, "VIOLATION-forced")
            return
        if e["skew"] < -86400:
            if E is not None and T >= E + 3:
                res.count("observation_date_older_than_24h_served_beyond_Date_plus_lifetime")
                res.note("Date more than 24 h old: squid measured the lifetime from its own clock (Bug 1791 rule) and served past Date+lifetime (grey, observation only)")
            res.grey("date-older-than-24h")
            return
        if E is None:
            res.grey("no-explicit-lifetime")
            res.feature(*feat, "heuristic-hit")
            return
        if LIVENESS:
            E = before["date"] + before["L"] // 2
        if T <= E - 3:
            res.count("fresh_hits")
            res.feature(*feat, "fresh-hit")
            return
        if T < E + 3:
            res.grey("T-within-3s-of-E")
            return
        stale_by = T - E
        if e["reval"] == "must-revalidate":
            res.violation("stale-must-revalidate-served-without-revalidation", det, wit)
            res.feature(*feat, "VIOLATION-mr")
            return
        if d == "max-stale":
            res.count("stale_hits_allowed_by_max_stale")
            if e["reval"] or "s-maxage" in e["kind"]:
                res.grey("max-stale-vs-proxy-revalidate")
            res.feature(*feat, "stale-hit-max-stale")
            return
        if d and d.startswith("max-stale="):
            n = int(d.split("=")[1])
            if n >= stale_by + 3:
                res.count("stale_hits_allowed_by_max_stale")
                if e["reval"] or "s-maxage" in e["kind"]:
                    res.grey("max-stale-vs-proxy-revalidate")
                res.feature(*feat, "stale-hit-max-stale-n")
                return
            if n > stale_by - 3:
                res.grey("max-stale-within-3s")
                return
        res.violation("stale-served-without-revalidation", det, wit)
        res.feature(*feat, "VIOLATION-stale")

    def run_batch(bt):
        states = []
        for e in bt["ents"]:
            s = {"e": e, "path": f"/c12/{bt['seed']}/{bt['b']}/{e['i']}", "nresp": 0, "last": None, "rids": {}}
            table[s["path"]] = s
            states.append(s)
            res.case({"batch": bt["b"], "entry": e} if e["i"] == 0 and bt["b"] % 4 == 0 else None)
        with ThreadPoolExecutor(8) as ex:
            list(ex.map(lambda s: probe(bt, s, 0), states))
        pivot = None
        for rnd in range(1, ROUNDS + 1):
            pv, delta = bt["pivots"][rnd - 1]
            # odd rounds: jump to 4 s BEFORE the expiry instant of a pivot entry (known E still ahead); even rounds: to 4 s
            # AFTER the expiry instant of the same pivot (if it was not refreshed meanwhile), so both sides of E are probed closely
            if rnd % 2 == 0 and pivot is not None and pivot["last"]["E"] is not None and pivot["last"]["E"] + 4 > now():
                target = pivot["last"]["E"] + 4
            else:
                cands = [s for s in states if s["last"] and s["last"]["E"] is not None and s["last"]["E"] - 4 > now() + 1 and -86400 < s["e"]["skew"] <= 60]
                if cands:
                    pivot = cands[pv % len(cands)]
                    target = pivot["last"]["E"] + (-4 if rnd % 2 else delta)
                else:
                    pivot = None
                    target = now() + 30
            adv = target - now()
            if adv > 0:
                offset[0] += int(adv + 0.999)
                lab.sq.set_clock(offset[0])
                res.count("clock_jumps")
                time.sleep(0.05)
            with ThreadPoolExecutor(8) as ex:
                list(ex.map(lambda s: probe(bt, s, rnd), states))
        for s in states:
            table.pop(s["path"], None)

    def squid_time():
        import email.utils
        for line in lab.sq.mgr("info").splitlines():
            if line.startswith("Current Time:"):
                return email.utils.parsedate_to_datetime(line.split(":", 1)[1].strip()).timestamp()
        return None

    def check_hook():
        """the clock hook must move squid's notion of now (independent of the refresh logic under test); else harness failure"""
        offset[0] += 1000
        lab.sq.set_clock(offset[0])
        st = squid_time()
        if st is None or abs(st - now()) > 5:
            raise RuntimeError(f"clock hook H1 inactive: squid says {st}, expected about {now()} (binary without -DSQUID_VERIF?)")
        res.count("clock_hook_verified")

    nb = (a.cases + B - 1) // B
    if a.replay_data and "case" in a.replay_data:
        batches = [gen_batch(a.replay_data.get("seed", a.seed), a.replay_data["case"])]
    else:
        batches = [gen_batch(a.seed, b) for b in range(nb)]
    try:
        check_hook()
        for bt in batches:
            run_batch(bt)
            if not lab.sq.alive():
                break
    finally:
        lab.finish()
    res.count("final_clock_offset_s", offset[0])
    if not a.replay_data:
        cn = res.counters
        if cn.get("fresh_hits", 0) < max(1, a.cases // 2):
            res.inconclusive.append("too few fresh hits (%d): caching did not demonstrably work" % cn.get("fresh_hits", 0))
        if cn.get("origin_contacted_conditionally", 0) + cn.get("origin_contacted_fully", 0) < a.cases:
            res.inconclusive.append("too few origin contacts after expiry")


if __name__ == "__main__":
    base.main_wrapper("C12", run)
