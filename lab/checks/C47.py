#!/usr/bin/python3
"""C47 Helper replies reach the request that asked (DESIGN 5.1).

One squid instance per case with a url_rewrite_program (or external_acl_type) stub helper
(lab/helpers/linehelper.py, run by squid) that answers out of order, after PRNG latencies, in PRNG write
fragments (also INSIDE multi-digit channel ids), with CRLF/LF endings, several replies per write, and
occasional replies on unknown or already-answered numeric channels.  The stub logs every request line and
every reply (with its fragmentation).  Oracle: what the origin/client observed for request r is exactly what
the stub replied to r's own helper query."""
import importlib.util, json, os, random, select, threading, time
from concurrent.futures import ThreadPoolExecutor
from lab import base, httpref
from lab.squidproc import Squid, health_events, chown_nobody
from lab.origin import Origin, Resp
from lab.client import Conn, request_bytes
from lab.x_start import start_retry

HELPER = "/verif/lab/helpers/linehelper.py"
_spec = importlib.util.spec_from_file_location("linehelper", HELPER)
linehelper = importlib.util.module_from_spec(_spec)
_spec.loader.exec_module(linehelper)


def gen_case(seed, n):
    r = random.Random(f"C47:{seed}:{n}")
    c = {"n": n, "seed": seed}
    c["mode"] = "rewrite" if r.random() < 0.65 else "extacl"
    c["concurrency"] = r.choice([0, 1, 3, 10, 30, 60, 100, 100, 150])
    c["children"] = r.choice([1, 1, 1, 2])
    if c["concurrency"] == 0:
        c["children"] = r.choice([1, 2, 3])
        c["nreq"] = 24
    else:
        c["nreq"] = r.choice([60, 90, 130])
    h = {"mode": c["mode"], "seed": r.randrange(1 << 30), "concurrent": c["concurrency"] > 0}
    h["max_latency"] = r.choice([0.03, 0.2, 0.6]) if c["concurrency"] else 0.03
    h["hold_prob"] = r.choice([0.0, 0.1, 0.2]) if c["concurrency"] else 0.0
    h["hold_latency"] = r.choice([1.0, 1.8])
    h["idsplit_prob"] = r.choice([0.0, 0.3, 0.6])
    h["frag_prob"] = r.choice([0.2, 0.6])
    h["pause"] = [0.01, r.choice([0.02, 0.05])]
    h["crlf_prob"] = r.choice([0.0, 0.15])
    h["join_prob"] = r.choice([0.0, 0.4])
    h["bogus_prob"] = r.choice([0.0, 0.08, 0.15])
    h["dup_prob"] = r.choice([0.0, 0.06])
    h["reorder"] = c["concurrency"] > 0 and r.random() < 0.85
    h["avoid_id_cuts"] = r.random() < 0.4    # these instances exercise everything except the channel-id split
    c["helper"] = h
    c["stagger"] = r.choice([0.0, 0.001, 0.004])
    return c


def read_helper_log(path):
    recs = []
    try:
        for l in open(path, "rb").read().decode("latin1").splitlines():
            try:
                recs.append(json.loads(l))
            except ValueError:
                pass
    except OSError:
        pass
    return recs


def run(a, res):
    lock = threading.Lock()

    def handler(req):
        return Resp(200, [("Cache-Control", "no-store")], length=30)

    org = Origin(handler)
    squids = []

    def one(c):
        wit = {"seed": c["seed"], "case": c["n"]}
        mode = c["mode"]
        pfx = "rewrite" if mode == "rewrite" else "extacl"
        kids, conc = c["children"], c["concurrency"]
        if mode == "rewrite":
            conf = ("cache deny all\n"
                    f"url_rewrite_program {HELPER} {{W}}/helper.json\n"
                    f"url_rewrite_children {kids} startup={kids} idle=1 concurrency={conc} queue-size=5000\n"
                    'url_rewrite_extras "%{X-Verif-Req}>h"\n')
            acc = "http_access allow all"
        else:
            conf = ("cache deny all\n"
                    f"external_acl_type vext ttl=0 negative_ttl=0 children-max={kids} children-startup={kids} children-idle=1 concurrency={conc} queue-size=5000 %{{X-Verif-Req}}>h {HELPER} {{W}}/helper.json\n"
                    "acl vacl external vext\n"
                    "logformat vf %{X-Verif-Req}>h %un %>Hs\n"
                    "access_log stdio:{W}/access2.log vf\n")
            acc = "http_access allow vacl\nhttp_access deny all"

        def prepare(sq):
            hlog = f"{sq.work}/helper.log"
            open(hlog, "w").close()
            chown_nobody(hlog)
            hcfg = dict(c["helper"])
            hcfg["log"] = hlog
            json.dump(hcfg, open(f"{sq.work}/helper.json", "w"))
            os.chmod(f"{sq.work}/helper.json", 0o644)

        sq = start_retry(lambda: Squid(a.work, conf=conf, http_access=acc), prepare)
        hlog = f"{sq.work}/helper.log"
        with lock:
            squids.append(sq)
        try:
            judge_case(c, sq, hlog, wit, pfx)
            time.sleep(0.1)
            health_events(sq, res, judge=True, witness=wit)
            if not sq.alive():
                res.violation("crash:squid-exited", "squid exited during the workload: " + sq.tail_log(), wit)
        finally:
            sq.stop()
            health_events(sq, res, judge=True, witness=wit)

    def judge_case(c, sq, hlog, wit, pfx):
        mode = c["mode"]
        n = c["nreq"]
        r = random.Random(f"C47req:{c['seed']}:{c['n']}")
        reqs = []
        conns = {}
        for i in range(n):
            rid_ = f"{c['seed']}.{c['n']}.{i}"
            path = f"/c47/{c['seed']}/{c['n']}/{i}"
            url = f"http://127.0.0.1:{org.port}{path}"
            reqs.append({"i": i, "req_id": rid_, "path": path, "url": url})
        t_start = time.time()
        for q in reqs:
            try:
                conn = Conn(sq.port, timeout=40)
            except OSError:
                res.count("connect_failed")
                continue
            conn.send(request_bytes("GET", q["url"], [("Connection", "close")], None, req_id=q["req_id"]))
            conns[q["i"]] = conn
            if c["stagger"]:
                time.sleep(c["stagger"])
        # ---- wait by events, not by a per-request deadline: done when every client got its response, or when
        # the helper has written a reply for every query it received and nothing moved for a while
        done = {}
        last_activity = time.time()
        last_logsize = -1
        hard_deadline = time.time() + 60
        while len(done) < len(conns) and time.time() < hard_deadline:
            socks = {conns[i].sock: i for i in conns if i not in done}
            rl, _, _ = select.select(list(socks), [], [], 0.25)
            for s in rl:
                i = socks[s]
                m = conns[i].read_response("GET", timeout=0.002)
                last_activity = time.time()
                if m.error or (m.start is not None and m.complete) or conns[i].eof:
                    done[i] = m
            try:
                sz = os.path.getsize(hlog)
            except OSError:
                sz = 0
            if sz != last_logsize:
                last_logsize = sz
                last_activity = time.time()
            if time.time() - last_activity > 3.0:
                recs = read_helper_log(hlog)
                nreq_h = sum(1 for x in recs if x["ev"] == "req")
                nwritten = sum(len(x["ids"]) for x in recs if x["ev"] == "written")
                if nreq_h == nwritten:
                    break   # quiescent: the helper owes nothing, nothing moves
        for i, conn in conns.items():
            conn.close()
        recs = read_helper_log(hlog)
        starts = [x for x in recs if x["ev"] == "start"]
        if not starts:
            res.harness_failure.append(f"case {c['n']}: helper stub never started: " + sq.tail_log(600))
            return
        by_req = {}      # req_id -> (req record, reply record)
        replies = [x for x in recs if x["ev"] == "reply"]
        for x in recs:
            if x["ev"] in ("req", "reply"):
                toks = x["payload"].split(" ")
                key = toks[1] if (mode == "rewrite" and len(toks) > 1) else toks[0]
                by_req.setdefault(key, {})[x["ev"]] = x
        # split-channel-id situations (F10 shape): reply for channel X written with a first fragment that is a strict digit prefix
        splits = {}   # (pid, prefix string) -> list of reply records
        for x in replies:
            if x.get("idsplit"):
                res.count("replies_split_inside_or_after_channel_id")
                if x["idsplit"] < len(str(x["id"])):
                    splits.setdefault((x["pid"], str(x["id"])[:x["idsplit"]]), []).append(x)
        res.count("helper_queries", sum(1 for x in recs if x["ev"] == "req"))
        res.count("helper_replies", len(replies))
        res.count("replies_fragmented", sum(1 for x in replies if len(x.get("frags", [])) > 1))
        res.count("replies_unknown_channel", sum(1 for x in recs if x["ev"] in ("bogus", "dup")))
        res.count("max_channel_id", 0)
        mx = max([x["id"] for x in replies if isinstance(x.get("id"), int)] + [0])
        with res.lock:
            res.counters["max_channel_id"] = max(res.counters.get("max_channel_id", 0), mx)
        # out-of-order evidence: replies whose write order differs from request order
        order_req = [x["payload"] for x in recs if x["ev"] == "req"]
        order_rep = [x["payload"] for x in replies]
        pos = {p: k for k, p in enumerate(order_req)}
        res.count("replies_out_of_order", sum(1 for k in range(1, len(order_rep)) if pos.get(order_rep[k], 0) < pos.get(order_rep[k - 1], 0)))
        unexpected_logged = sq.log_text().count("unexpected reply on channel")
        res.count("squid_logged_unexpected_channel", unexpected_logged)
        userlog = {}
        if mode == "extacl":
            try:
                for l in open(f"{sq.work}/access2.log", "rb").read().decode("latin1").splitlines():
                    p = l.split(" ")
                    if len(p) >= 3:
                        userlog[p[0]] = p[1]
            except OSError:
                pass

        def classify(q, e, generic):
            """stable key: attribute to the split-channel-id situation when the helper log shows it"""
            rep = e.get("reply") if e else None
            if rep is not None:
                if (rep["pid"], str(rep["id"])) in splits:
                    return f"{pfx}-reply-misrouted:split-channel-id", f"; helper {rep['pid']} wrote the reply for channel {splits[(rep['pid'], str(rep['id']))][0]['id']} as fragments {splits[(rep['pid'], str(rep['id']))][0]['frags']!r} while channel {rep['id']} (this request) was in use"
                if rep.get("idsplit") and rep["idsplit"] < len(str(rep["id"])):
                    return f"{pfx}-reply-lost:split-channel-id", f"; this request's own reply was written as fragments {rep['frags']!r} (channel id {rep['id']} split across writes)"
                if rep.get("idsplit"):
                    return f"{pfx}-reply-corrupted:split-channel-id", f"; this request's own reply was written as fragments {rep['frags']!r} (first write ends right after channel id {rep['id']}, before the separator)"
            return generic, ""

        for q in reqs:
            res.case({"case": c["n"], "mode": mode, "concurrency": c["concurrency"], "helper": c["helper"]} if (q["i"] == 0 and c["n"] % 4 == 0) else None)
            e = by_req.get(q["req_id"])
            m = done.get(q["i"])
            ups = org.seen(q["req_id"])
            feat = [mode, min(c["concurrency"], 2), c["children"] > 1]
            if e is None or "req" not in e:
                res.count("query_never_reached_helper")
                continue
            if "reply" not in e:
                res.count("helper_never_replied")
                continue
            rep = e["reply"]["reply"]
            nfr = len(e["reply"].get("frags", []))
            feat += [rep.split(" ")[0], "split-id" if e["reply"].get("idsplit") else ("frag" if nfr > 1 else "whole"), e["reply"]["line"].endswith("\r\n")]
            desc = f"{mode} helper, concurrency={c['concurrency']} children={c['children']}; request {q['req_id']} {q['url']} went to helper {e['req']['pid']} on channel {e['req']['id']}; the helper replied {e['reply']['line']!r}"
            if m is None or (m.start is None and not m.error):
                # the helper wrote a complete reply for this request's channel, yet the request was never answered
                key, extra = classify(q, e, f"{pfx}-reply-never-applied")
                if key.endswith("never-applied") and not unexpected_logged:
                    res.count("unanswered_without_logical_evidence")
                    res.inconclusive.append(f"case {c['n']}: request {q['req_id']} unanswered, no evidence in helper/squid logs")
                    continue
                res.violation(key, desc + "; observed: the client never received a response (squid logged %d 'unexpected reply on channel' errors)" % unexpected_logged + extra, wit)
                continue
            if m.error:
                res.violation("client-bytes-invalid-http", m.error, wit)
                continue
            if mode == "rewrite":
                # sanity of the stub itself (harness, not verdict): reply names this request's own URL
                if "url=" in rep:
                    if (q["path"].replace("/c47/", "/rw/", 1) not in rep and q["path"].replace("/c47/", "/rd/", 1) not in rep) or linehelper.token(q["url"]) not in rep:
                        res.harness_failure.append(f"stub replied {rep!r} for {q['url']}")
                        continue
                seen_paths = ["/" + u.target.split("://", 1)[-1].split("/", 1)[-1] if "://" in u.target else u.target for u in ups]
                if any("/bogus/" in p for p in seen_paths):
                    # (if this request's own reply was lost to a channel-id split, squid still has the channel open and the
                    # stub's later "duplicate" is not a duplicate from squid's side: attribute to the split then)
                    key, extra = classify(q, e, "unknown-channel-reply-applied")
                    res.violation(key, desc + f"; observed at origin: {seen_paths} (the /bogus/ target was sent on an unknown/already answered channel)" + extra, wit)
                    continue
                if rep.startswith("OK rewrite-url="):
                    want = rep.split("rewrite-url=", 1)[1].strip('"').split("://", 1)[1]
                    want = "/" + want.split("/", 1)[1]
                    if seen_paths != [want] or m.status != 200:
                        key, extra = classify(q, e, f"{pfx}-reply-misrouted" if (seen_paths and seen_paths[0] != q["path"]) else f"{pfx}-reply-not-applied")
                        res.violation(key, desc + f"; expected the origin to see {want}; observed at origin: {seen_paths}, client status {m.status}" + extra, wit)
                        continue
                elif rep.startswith("OK status=302"):
                    want = rep.split('url="', 1)[1].rstrip('"')
                    if ups or m.status != 302 or m.header("Location") != want:
                        key, extra = classify(q, e, f"{pfx}-reply-misrouted")
                        res.violation(key, desc + f"; expected a 302 to {want} and nothing at the origin; observed client status {m.status} Location={m.header('Location')} origin={seen_paths}" + extra, wit)
                        continue
                else:
                    if seen_paths != [q["path"]] or m.status != 200:
                        key, extra = classify(q, e, f"{pfx}-reply-misrouted")
                        res.violation(key, desc + f"; expected the unchanged URL at the origin; observed {seen_paths}, client status {m.status}" + extra, wit)
                        continue
            else:
                allow = rep.startswith("OK")
                if allow:
                    if not ups or m.status != 200:
                        key, extra = classify(q, e, f"{pfx}-reply-misrouted")
                        res.violation(key, desc + f"; expected allow (forwarded, 200); observed status {m.status}, at origin: {len(ups)}" + extra, wit)
                        continue
                    want_user = rep.split("user=", 1)[1].split(" ")[0]
                    got_user = userlog.get(q["req_id"])
                    if got_user is not None and got_user != want_user:
                        key, extra = classify(q, e, "unknown-channel-reply-applied" if got_user.startswith("bogus") else f"{pfx}-reply-misrouted")
                        res.violation(key, desc + f"; access.log names user {got_user!r} for this request, the helper said {want_user!r}" + extra, wit)
                        continue
                    if got_user is not None:
                        res.count("extacl_user_logged_ok")
                else:
                    if ups or m.status != 403:
                        key, extra = classify(q, e, f"{pfx}-reply-misrouted")
                        res.violation(key, desc + f"; expected deny (403, not forwarded); observed status {m.status}, at origin: {len(ups)}" + extra, wit)
                        continue
            res.count("requests_consistent")
            res.feature(*feat)

    if a.replay_data and "case" in a.replay_data:
        cases = [gen_case(a.replay_data.get("seed", a.seed), a.replay_data["case"])]
    else:
        cases = [gen_case(a.seed, n) for n in range(a.cases)]
    try:
        with ThreadPoolExecutor(2) as ex:
            list(ex.map(one, cases))
    finally:
        for sq in squids:
            sq.stop()
        org.stop()
    res.count("origin_requests", org.count())
    res.count("instances", len(cases))
    if not a.replay_data:
        if res.counters.get("requests_consistent", 0) < 10 * len(cases):
            res.inconclusive.append("too few helper-mediated requests judged consistent: %d" % res.counters.get("requests_consistent", 0))
        if res.counters.get("replies_fragmented", 0) == 0 or res.counters.get("replies_out_of_order", 0) == 0:
            res.inconclusive.append("no fragmented or no out-of-order helper replies occurred")


if __name__ == "__main__":
    base.main_wrapper("C47", run)
