#!/usr/bin/python3
"""C19 SMP workers share cache entries consistently (DESIGN 5.1).

2-4 workers sharing cache_mem and a rock cache_dir; every request uses its own short connection so the kernel spreads
them over the workers (per-worker access logs prove which worker served what). Per case one URL with a history of steps;
inside a step GETs, refreshes (no-cache / max-age=0), and PURGEs run concurrently; the origin answers every fetch with a
new version (new rid, new length around the 32 KB shared-page boundaries), sometimes slowly.
Oracle: (1) C10's identity: whatever a client receives under a rid is the status/marker header/body of exactly that
origin response of that URL (complete => identical, else a visible prefix); (2) after a PURGE (200) or a refresh (200
with a fresh rid) COMPLETED at its client, no request STARTED later is served a rid that was completely delivered
(hence completely cached) before that invalidation started."""
import os, random, threading, time, glob
from lab import base, httpref
from lab.squidproc import Squid, health_events
from lab.origin import Origin, Resp
from lab.client import Conn, request_bytes

PAGE = 32768
LOGFMT = "logformat vf %ts.%03tu %tS %tr %{X-Verif-Req}>h %Ss/%03>Hs %<st kid${process_number} %rm\n"
# (workers, collapsed_forwarding, rock options)
INSTANCES = {
    "w2": (2, False, "slot-size=4096"),
    "w3": (3, False, ""),
    "w3cf": (3, True, "slot-size=8192"),
    "w4cf": (4, True, ""),
    "w4": (4, False, "slot-size=4096"),
}


class HealthFilter:
    """a kid missing squid's fixed start-up registration deadline (overloaded shared machine; the master restarts it) is a
    harness event, not a verdict"""

    def __init__(self, res, sq=None):
        self._res = res
        self._sq = sq

    def __getattr__(self, n):
        return getattr(self._res, n)

    def violation(self, key, detail, witness=None, extra=None):
        if "registration timed out" in str(detail) and "AddressSanitizer" not in str(detail):
            self._res.count("harness:kid-registration-timeout-at-startup")
            return
        if "failed to open db file" in str(detail) and self._sq is not None and "communication channel establishment timeout" in self._sq.log_text():
            # same class: the worker gave up waiting (fixed 6 s) for the disker of an overloaded machine during start-up
            self._res.count("harness:disker-channel-timeout-at-startup")
            return
        self._res.violation(key, detail, witness, extra)


def instances_for(seed, tier):
    if tier == "thorough":
        return ["w2", "w3", "w3cf", "w4cf", "w4"]
    return [["w2", "w3cf"], ["w3", "w4cf"], ["w4", "w3cf"]][seed % 3]


def pick_len(r):
    k = r.random()
    if k < 0.45:      # around a shared-memory page boundary (headers + swap meta share the first page: spread widely)
        return max(0, r.choice([1, 2, 3, 4]) * PAGE + r.randrange(-700, 200))
    if k < 0.6:
        return r.choice([0, 1, 100, 4095, 4096, 4097, 8192])
    if k < 0.85:
        return r.randrange(1, 140000)
    return r.choice([200000, 262144, 300000])


def gen_case(seed, n, tier="quick"):
    r = random.Random(f"C19:{seed}:{n}")
    c = {"n": n, "seed": seed}
    insts = instances_for(seed, tier)
    c["inst"] = insts[n % len(insts)]
    steps = []
    for s in range(r.randint(3, 6)):
        acts = []
        for _ in range(r.choice([2, 3, 4, 6, 8])):
            k = r.random()
            kind = "get" if (k < 0.66 or (s == 0 and k < 0.9)) else "refresh" if k < 0.78 else "reval" if k < 0.85 else "purge"
            acts.append([kind, round(r.choice([0, 0, 0.01, 0.03, 0.08, 0.15]), 3)])
        if s == 0:
            acts[0] = ["get", 0]
        steps.append(acts)
    c["steps"] = steps
    c["vseed"] = r.randrange(1 << 30)
    return c


def run(a, res):
    table = {}
    issued = {}        # path -> {rid: Resp}
    all_rids = {}      # rid -> path
    lock = threading.Lock()
    liveness = os.environ.get("C19_LIVENESS", "")

    def path_of(target):
        t = target.split("://", 1)[-1] if "://" in target else target
        return t if t.startswith("/") else "/" + t.split("/", 1)[-1]

    def handler(req):
        p = path_of(req.target)
        c = table.get(p)
        if c is None:
            return Resp(404, length=3)
        with lock:
            idx = len(issued.setdefault(p, {}))
            cur = list(issued[p].values())[-1] if issued[p] else None
        inm = httpref.get(req.headers, "If-None-Match")
        if inm is not None and cur is not None and inm.strip() == getattr(cur, "etag", None) and random.Random(f"{c['vseed']}:304:{req.req_id}").random() < 0.6:
            # the current version is confirmed: same rid, same validators, but an unrelated header whose size changes with every
            # revalidation, so squid rewrites the stored header block (and whatever shares a shared-memory page / slot with it)
            with lock:
                reval_n[0] += 1
                k = reval_n[0]
            res.count("origin_answered_304")
            return Resp(304, [("Cache-Control", "max-age=3600"), ("ETag", cur.etag), ("X-Verif-Hdr", "h-" + cur.rid), ("X-Reval", "g%d-" % k + "x" * ((k % 9) * 37))],
                        body=b"", framing="none", rid=cur.rid)
        r = random.Random(f"{c['vseed']}:{idx}")
        n = pick_len(r)
        slow = r.random() < 0.45
        resp = Resp(200, [("Content-Type", "application/octet-stream"), ("Cache-Control", "max-age=3600")], length=n,
                    framing=r.choice(["cl", "cl", "chunked"]), chunks=[4096, 30000, 70000],
                    delay_before=r.choice([0, 0.02, 0.08]) if slow else 0, delay=r.choice([0.02, 0.05]) if slow else 0)
        resp.headers.append(("X-Verif-Hdr", "h-" + resp.rid))
        resp.etag = '"%s-%d"' % (resp.rid, n)
        resp.headers.append(("ETag", resp.etag))
        if slow:
            wire = resp.serialize()
            hl = wire.find(b"\r\n\r\n") + 4
            resp.splits = sorted({hl} | {r.randrange(hl, len(wire) + 1) for _ in range(r.randint(1, 3))})
        resp.t_mint = base.tick()
        with lock:
            issued[p][resp.rid] = resp
            all_rids[resp.rid] = p
        return resp

    reval_n = [0]
    org = Origin(handler, backlog=512)
    wit = lambda c: {"seed": c["seed"], "case": c["n"], "tier": a.tier}
    totals = {"hits": 0, "xhits": 0, "inval": 0, "after_inval": 0}

    def first_diff(x, y):
        for i in range(min(len(x), len(y))):
            if x[i] != y[i]:
                return i
        return min(len(x), len(y))

    def do_case(sq, c):
        path = f"/c19/{c['seed']}/{c['n']}"
        table[path] = c
        url = f"http://127.0.0.1:{org.port}{path}"
        recs = []
        seq = [0]

        def act(kind, off, step):
            with lock:
                seq[0] += 1
                rec = {"kind": kind, "step": step, "req_id": f"{c['seed']}.{c['n']}.{seq[0]}"}
                recs.append(rec)
            if off:
                time.sleep(off)
            hs = [("Connection", "close")]
            method = "GET"
            if kind == "refresh":
                hs.append(("Cache-Control", "no-cache"))
            elif kind == "reval":
                hs.append(("Cache-Control", "max-age=0"))
            elif kind == "purge":
                method = "PURGE"
            try:
                conn = Conn(sq.port, timeout=40)
            except OSError as e:
                rec["connect_error"] = str(e)
                return
            rec["t_start"] = base.tick()          # logical clock: strictly before the first request byte leaves
            conn.send(request_bytes(method, url, hs, req_id=rec["req_id"]))
            m = conn.read_response(method, timeout=40)
            rec["t_done"] = m.t_done               # tick taken after the last response byte was read
            rec["m"] = m
            conn.close()

        for si, acts in enumerate(c["steps"]):
            ths = [threading.Thread(target=act, args=(k, off, si), daemon=True) for k, off in acts]
            for t in ths:
                t.start()
            for t in ths:
                t.join(100)
        return recs

    def judge_case(c, recs, inst, worker_of):
        path = f"/c19/{c['seed']}/{c['n']}"
        with lock:
            mine = dict(issued.get(path, {}))
        fetcher = {}          # rid -> req_id whose forwarding produced it
        for q in org.by_target(path):
            rp = getattr(q, "resp", None)
            if rp is not None:
                fetcher[rp.rid] = q.req_id
        est = {}              # rid -> earliest tick at which some client had received it completely
        got = []
        hits = xhits = trunc = errs = 0
        kinds = set()
        purge_codes = set()
        for rec in recs:
            kinds.add(rec["kind"])
            m = rec.get("m")
            if m is None:
                res.count("client_connect_failed")
                continue
            if m.error:
                res.violation("client-bytes-invalid-http", f"{inst}: {m.error}; raw={m.raw[:200]!r}", wit(c))
                continue
            if m.start is None:
                res.count("no_response" + ("_timeout" if m.timed_out else ""))
                continue
            if rec["kind"] == "purge":
                purge_codes.add(m.status)
                res.count(f"purge_{m.status}")
                continue
            rid = m.header("X-Verif-Rid")
            if rid is None:
                errs += 1
                res.count(f"squid_generated_{m.status}")
                continue
            resp = mine.get(rid)
            if resp is None:
                with lock:
                    other = all_rids.get(rid)
                res.violation("foreign-rid", f"{inst}: client of {path} received rid {rid} " + (f"that the origin issued for {other}" if other else "that the origin never issued"), wit(c))
                continue
            w_served = worker_of.get(rec["req_id"])
            w_fetched = worker_of.get(fetcher.get(rid))
            where = f"served by {w_served}, fetched by {w_fetched} for {fetcher.get(rid)}"
            if m.header("X-Verif-Hdr") != "h-" + rid:
                res.violation("headers-of-another-version", f"{inst}: {rec['req_id']} got X-Verif-Rid {rid} with X-Verif-Hdr {m.header('X-Verif-Hdr')!r} ({where})", wit(c))
            is_hit = not org.seen(rec["req_id"])
            if m.complete:
                if m.status != 200:
                    res.violation("status-changed", f"{inst}: origin 200, client {m.status} ({where})", wit(c))
                if m.body != resp.body:
                    mixed = None
                    for orid, o in mine.items():
                        if orid != rid and len(m.body) and (m.body[:64] == o.body[:64] or m.body[-64:] == o.body[-64:]):
                            mixed = orid
                    key = "truncated-served-as-complete" if resp.body.startswith(m.body) else "body-mixes-versions" if mixed else "body-differs"
                    res.violation(key + (":hit" if is_hit else ":miss"), f"{inst}: {rec['req_id']} got a complete {m.framing} 200 for rid {rid}: {len(m.body)} body bytes vs {len(resp.body)} at the origin, "
                                  f"first difference at {first_diff(m.body, resp.body)}" + (f", bytes of {mixed} present" if mixed else "") + f" ({where})", wit(c))
                    continue
                est[rid] = min(est.get(rid, 1 << 62), rec["t_done"])
                got.append((rec, rid))
                if is_hit:
                    hits += 1
                    if w_served and w_fetched and w_served != w_fetched:
                        xhits += 1
            else:
                trunc += 1
                res.count("visibly_truncated")
                if not resp.body.startswith(m.body):
                    res.violation("truncated-not-prefix", f"{inst}: incomplete message whose {len(m.body)} bytes are not a prefix of {rid} ({where})", wit(c))
        if os.environ.get("C19_DUMP"):
            for rec in sorted(recs, key=lambda x: x.get("t_start", 0)):
                m = rec.get("m")
                print(rec["req_id"], rec["kind"], "step", rec["step"], "ticks", rec.get("t_start"), rec.get("t_done"), "status", m and m.status, "rid", m and m.start and m.header("X-Verif-Rid"),
                      "complete", m and m.complete, "worker", worker_of.get(rec["req_id"]), "forwarded" if org.seen(rec["req_id"]) else "", flush=True)
        # ---- invalidation oracle
        invs = []
        for rec in recs:
            m = rec.get("m")
            if m is None or m.start is None or m.error:
                continue
            if rec["kind"] == "purge" and m.status == 200 and (m.complete or m.framing == "close"):
                invs.append((rec, "purge"))
            elif rec["kind"] in ("refresh", "reval") and m.complete and m.status == 200:
                rid = m.header("X-Verif-Rid")
                if rid in mine and fetcher.get(rid) == rec["req_id"] and m.body == mine[rid].body:
                    invs.append((rec, "refresh" if rec["kind"] == "refresh" else "revalidation"))
        n_after = 0
        stale = 0
        for rec, rid in got:
            for irec, ikind in invs:
                if irec["t_done"] < rec["t_start"]:
                    n_after += 1
                    if est.get(rid, 1 << 62) < irec["t_start"] and rid != irec["m"].header("X-Verif-Rid"):
                        stale += 1
                        res.violation(f"stale-rid-after-completed-{ikind}", f"{inst}: {rec['req_id']} ({rec['kind']}, served by {worker_of.get(rec['req_id'])}) started at tick {rec['t_start']}, after "
                                      f"{ikind} {irec['req_id']} (handled by {worker_of.get(irec['req_id'])}) had completed at tick {irec['t_done']} (started {irec['t_start']}), yet it was served rid {rid}, "
                                      f"which a client had completely received already at tick {est[rid]} (fetched by {worker_of.get(fetcher.get(rid))}); fetched-for-itself={bool(org.seen(rec['req_id']))}", wit(c))
        if 404 in purge_codes:
            res.count("purge_found_nothing")
        res.count("responses_with_rid", len(got))
        res.count("hits", hits)
        res.count("cross_worker_hits", xhits)
        res.count("invalidations_completed", len(invs))
        res.count("requests_started_after_an_invalidation", n_after)
        res.count("origin_versions", len(mine))
        with lock:
            totals["hits"] += hits
            totals["xhits"] += xhits
            totals["inval"] += len(invs)
            totals["after_inval"] += n_after
        sizes = sorted({min(len(o.body) // PAGE, 5) for o in mine.values()})
        edge = any(abs((len(o.body) + 350) % PAGE - PAGE // 2) > PAGE // 2 - 1200 for o in mine.values())
        res.feature(inst, len(c["steps"]), tuple(sorted(kinds)), tuple(sizes), edge, min(hits, 3), min(xhits, 2), tuple(sorted(purge_codes)), min(len(invs), 2), trunc > 0, errs > 0, stale > 0)

    def read_logs(sq):
        worker_of, kids = {}, {}
        for f in glob.glob(f"{sq.work}/access-*.log"):
            try:
                for l in open(f, "rb").read().decode("latin1").splitlines():
                    p = l.split()
                    if len(p) >= 7 and p[3] != "-":
                        worker_of[p[3]] = p[6]
                        kids[p[6]] = kids.get(p[6], 0) + 1
            except OSError:
                pass
        return worker_of, kids

    if a.replay_data and "case" in a.replay_data:
        cases = [gen_case(a.replay_data.get("seed", a.seed), a.replay_data["case"], a.replay_data.get("tier", a.tier))]
    else:
        cases = [gen_case(a.seed, n, a.tier) for n in range(a.cases)]

    def run_instance(inst):
        mine = [c for c in cases if c["inst"] == inst]
        if not mine:
            return
        workers, cf, rockopt = INSTANCES[inst]
        conf = ("cache_mem 48 MB\nmaximum_object_size_in_memory 1 MB\nmaximum_object_size 4 MB\nacl purge method PURGE\nhttp_access allow purge\n"
                + ("collapsed_forwarding on\n" if cf else "") + LOGFMT + "access_log stdio:{W}/access-${process_number}.log vf\n")
        if liveness == "unshared":
            conf += "memory_cache_shared off\n"      # liveness: private per-worker memory caches cannot see each other's PURGE/refresh
        dirs = () if liveness == "unshared" else (f"cache_dir rock {{W}}/rock 48 {rockopt}".rstrip(),)
        sq = Squid(a.work, conf=conf, smp=workers, cache_dirs=dirs, access_log="", debug=os.environ.get("C19_DEBUG", "ALL,1"))
        outs = {}
        try:
            sq.start()
            sem = threading.Semaphore(4)

            def guarded(c):
                with sem:
                    res.case({"case": c["n"], "inst": c["inst"], "steps": c["steps"][:3]} if c["n"] % 31 == 0 else None)
                    outs[c["n"]] = do_case(sq, c)

            ths = [threading.Thread(target=guarded, args=(c,), daemon=True) for c in mine]
            for t in ths:
                t.start()
            for t in ths:
                t.join(600)
            time.sleep(0.3)
            health_events(sq, HealthFilter(res, sq), judge=True, witness={"seed": a.seed, "inst": inst})
            if not sq.alive():
                res.violation("crash:squid-exited", f"{inst}: squid exited during the workload: " + sq.tail_log(), {"seed": a.seed, "inst": inst})
        finally:
            sq.stop()
        health_events(sq, HealthFilter(res, sq), judge=True, witness={"seed": a.seed, "inst": inst})
        worker_of, kids = read_logs(sq)
        res.count(f"workers_that_served:{inst}", len(kids))
        if len(kids) < 2 and not a.replay_data:
            res.inconclusive.append(f"{inst}: only {len(kids)} worker(s) served requests")
        for c in mine:
            if c["n"] in outs:
                judge_case(c, outs[c["n"]], inst, worker_of)

    errors = []
    todo = [i for i in INSTANCES if any(c["inst"] == i for c in cases)]
    todo_lock = threading.Lock()

    def lane():
        while True:
            with todo_lock:
                if not todo:
                    return
                inst = todo.pop(0)
            try:
                run_instance(inst)
            except Exception:
                import traceback
                errors.append(inst + ": " + traceback.format_exc()[-1500:])

    try:
        lanes = [threading.Thread(target=lane, daemon=True) for _ in range(2)]
        for t in lanes:
            t.start()
        for t in lanes:
            t.join()
    finally:
        org.stop()
    if errors:
        raise RuntimeError("instance(s) failed:\n" + "\n".join(errors))
    res.count("origin_requests", org.count())
    if not a.replay_data:
        if totals["xhits"] < max(1, len(cases) // 10):
            res.inconclusive.append(f"only {totals['xhits']} cross-worker hits observed")
        if totals["after_inval"] < max(1, len(cases) // 10):
            res.inconclusive.append(f"only {totals['after_inval']} requests started after a completed invalidation")


if __name__ == "__main__":
    base.main_wrapper("C19", run)
