#!/usr/bin/python3
"""C16 Disk cache crash consistency (DESIGN 5.1; level fault_enumeration).

For each store type a scripted, sequential workload (stores across slot boundaries, hits, overwrites, evictions, a PURGE,
then a graceful shutdown) is run once under the LD_PRELOAD interposer preload/wkill.c in counting mode: T = number of
write-family calls to files under the cache_dir (data files, rock db, swap.state*), in one sequence over all processes.
Each case then picks a crash point n in 1..T (stratified over the cases of that type; optionally the partial-write
variant): fresh cache, same workload until the interposer SIGKILLs every process of the instance at cache write n,
stale IPC artefacts removed, normal restart, wait for the rebuild, request every URL.
Oracle: the restart succeeds (no FATAL/assert/ASan, port opens); every response served without contacting the origin
carries the rid of a response the origin had COMPLETELY sent for that URL before the crash, with that response's
marker header, status and - when complete by its framing - exactly its body."""
import os, random, threading, time, glob, subprocess, signal, shutil
from lab import base, httpref
from lab.squidproc import Squid, health_events, chown_nobody
from lab.origin import Origin, Resp
from lab.client import Conn, request_bytes, fetch

SRC = "/verif/preload/wkill.c"
CACHED_SO = f"{base.CACHE}/asan/harness/wkill.so"
COMMON = ("cache_mem 0 MB\nmaximum_object_size 1 MB\ncache_swap_low 70\ncache_swap_high 80\nacl purge method PURGE\nhttp_access allow purge\n"
          "store_avg_object_size 20 KB\n")
TYPES = {
    "rock": (0, "cache_dir rock {W}/cd 2 slot-size=4096"),
    "ufs": (0, "cache_dir ufs {W}/cd 2 4 4"),
    "aufs": (0, "cache_dir aufs {W}/cd 2 4 4"),
    "diskd": (0, "cache_dir diskd {W}/cd 2 4 4"),
    "rock-smp": (2, "cache_dir rock {W}/cd 2 slot-size=4096"),
}
QUICK_TYPES = ["rock", "ufs", "aufs", "diskd"]
ALL_TYPES = ["rock", "ufs", "aufs", "diskd", "rock-smp"]


def workload():
    """deterministic script: list of (op, url index, body size of the version the origin will mint if asked)"""
    r = random.Random("C16:workload")
    ops = []
    first = [120, 3900, 4096, 4200, 8200, 16500, 33000, 70000, 150000, 300000]
    for i, n in enumerate(first):
        ops.append(("get", i, n))
    for i in (0, 3, 5, 9):
        ops.append(("get", i, 0))                       # hits (no new version expected)
    for i, n in ((1, 9000), (4, 4000), (6, 41000), (8, 100)):
        ops.append(("refresh", i, n))                   # overwrite with a different size
    for i in range(10, 16):
        ops.append(("get", i, 380000 + 4096 * (i - 10) + r.randrange(100)))   # 2.3 MB into a 2 MB cache: evictions
    for i in (0, 1, 2, 7):
        ops.append(("get", i, 5000 + 1000 * i))         # hit or, if evicted, store again
    ops.append(("purge", 2, 0))
    ops.append(("get", 2, 12345))
    ops.append(("get", 16, 66000))
    return ops


NURLS = 17


class HealthFilter:
    """start-up timeouts of kids/diskers on an overloaded shared machine are harness events (the master restarts the kid)"""

    def __init__(self, res, sq):
        self._res = res
        self._sq = sq

    def __getattr__(self, n):
        return getattr(self._res, n)

    def violation(self, key, detail, witness=None, extra=None):
        d = str(detail)
        if "AddressSanitizer" not in d:
            if "registration timed out" in d:
                self._res.count("harness:kid-registration-timeout-at-startup")
                return
            if "failed to open db file" in d and "communication channel establishment timeout" in self._sq.log_text():
                self._res.count("harness:disker-channel-timeout-at-startup")
                return
        self._res.violation(key, detail, witness, extra)


class SquidUnprivileged(Squid):
    """Starts squid directly as `nobody`. The SMP master fork+execs its kids while its effective uid differs from its
    real uid, which puts the kids into the dynamic linker's secure-execution mode where LD_PRELOAD is ignored; started
    without privileges there is no uid switching and the interposer reaches workers and diskers."""
    unprivileged = False

    def start(self, init=True, timeout=40, extra_args=()):
        if not self.unprivileged:
            return Squid.start(self, init, timeout, extra_args)
        # same steps as Squid.start(), with the process created as nobody:nogroup
        import socket
        args = (["--foreground"] if self.smp else ["-N"]) + list(extra_args)
        self.out = open(f"{self.work}/stdout.txt", "ab")
        self.proc = subprocess.Popen(self._cmd(*args), env=self._env(), stdout=self.out, stderr=subprocess.STDOUT, start_new_session=True, cwd=self.work,
                                     user="nobody", group="nogroup", extra_groups=[])
        t0 = time.time()
        while time.time() - t0 < timeout:
            if self.proc.poll() is not None:
                raise RuntimeError(f"squid exited rc={self.proc.returncode} during start: " + self.tail_log())
            try:
                socket.create_connection(("127.0.0.1", self.port), timeout=0.5).close()
                break
            except OSError:
                time.sleep(0.05)
        else:
            self.stop(kill=True)
            raise RuntimeError("squid did not open its port: " + self.tail_log())
        t1 = time.time()
        while self.smp and time.time() - t1 < 15:
            if self.log_text().count("Accepting HTTP Socket connections") >= self.smp:
                break
            time.sleep(0.1)
        time.sleep(0.5)
        return self


def wkill_so(work):
    try:
        if os.path.exists(CACHED_SO) and os.path.getmtime(CACHED_SO) >= os.path.getmtime(SRC):
            return CACHED_SO
    except OSError:
        pass
    so = os.path.join(work, "wkill.so")
    subprocess.run(["gcc", "-O1", "-g", "-shared", "-fPIC", "-o", so, SRC, "-ldl"], check=True)
    os.chmod(so, 0o755)
    return so


def run(a, res):
    so = wkill_so(a.work)
    ops = workload()
    lock = threading.Lock()
    sizes = {}         # path -> size for the next version
    issued = {}        # path -> {rid: Resp}
    types = ALL_TYPES if a.tier == "thorough" else QUICK_TYPES
    liveness = os.environ.get("C16_LIVENESS", "")

    def path_of(target):
        t = target.split("://", 1)[-1] if "://" in target else target
        return t if t.startswith("/") else "/" + t.split("/", 1)[-1]

    def handler(req):
        p = path_of(req.target)
        with lock:
            n = sizes.get(p)
        if n is None:
            return Resp(404, length=3)
        resp = Resp(200, [("Content-Type", "application/octet-stream"), ("Cache-Control", "max-age=86400")], length=n)
        resp.headers.append(("X-Verif-Hdr", "h-" + resp.rid))
        resp.wall_mint = time.time()
        with lock:
            issued.setdefault(p, {})[resp.rid] = resp
        return resp

    org = Origin(handler)
    timing = os.environ.get("C16_TIMING")
    T0 = time.time()

    def tlog(*x):
        if timing:
            print("%7.2f" % (time.time() - T0), *x, flush=True)

    def completed_rids(path):
        """rids whose responses the origin sent completely (before now)"""
        out = {}
        for q in org.by_target(path):
            rp = getattr(q, "resp", None)
            if rp is not None and hasattr(q, "wall_resp_done"):
                out[rp.rid] = rp
        return out

    def kill_registered(sq):
        try:
            for l in open(f"{sq.work}/wk.counter.pids").read().split():
                try:
                    os.kill(int(l), signal.SIGKILL)
                except (OSError, ValueError):
                    pass
        except OSError:
            pass

    templates = {}

    def fresh_cache(sq, typ):
        """an initialised (squid -z), empty cache_dir: made once per store type, then copied (its content is path-independent)"""
        with lock:
            tpl = templates.get(typ)
        if tpl is None:
            sq.init_dirs()
            tpl = os.path.join(a.work, f"tpl-{typ}")
            shutil.rmtree(tpl, ignore_errors=True)
            shutil.copytree(f"{sq.work}/cd", tpl)
            with lock:
                templates[typ] = tpl
        else:
            shutil.copytree(tpl, f"{sq.work}/cd")
            subprocess.run(["chown", "-R", "nobody:nogroup", f"{sq.work}/cd"], check=True)
        sq._inited = True

    def one_run(tag, typ, nwrite, partial, pseed):
        try:
            return one_run_once(tag, typ, nwrite, partial, pseed)
        except RuntimeError as e:
            # squid neither came up nor was killed by the interposer (seen once under heavy machine load): harness retry
            res.count("harness:start_retry")
            res.note("start retry: " + str(e)[-300:])
            return one_run_once(tag + "r", typ, nwrite, partial, pseed)

    def one_run_once(tag, typ, nwrite, partial, pseed):
        """returns dict(T=counted writes, fired=bool, sq=Squid, prefix=path prefix, ...)"""
        smp, cd = TYPES[typ]
        sq = SquidUnprivileged(a.work, conf=COMMON, smp=smp, cache_dirs=(cd,), name=None)
        prefix = f"/c16/{tag}"
        fresh_cache(sq, typ)
        sq.unprivileged = bool(smp)
        for fn in ("wk.counter", "wk.log", "wk.dump"):
            p = f"{sq.work}/{fn}"
            open(p, "wb").close()
            os.chmod(p, 0o666)
            chown_nobody(p)
        sq.env_extra = {"LD_PRELOAD": so, "WKILL_PREFIX": f"{sq.work}/cd", "WKILL_COUNTER": f"{sq.work}/wk.counter", "WKILL_LOG": f"{sq.work}/wk.log",
                        "WKILL_AT": str(nwrite), "WKILL_PARTIAL": "1" if partial else "0", "WKILL_SEED": str(pseed)}
        if nwrite == 0 and typ == "rock":
            sq.env_extra["WKILL_DUMP"] = f"{sq.work}/wk.dump"     # the counting run of (non-SMP) rock also records every write's payload
        dead = lambda: os.path.exists(f"{sq.work}/wk.counter.dead")
        info = {"sq": sq, "prefix": prefix, "typ": typ, "requests": 0, "start_failed": False}
        tlog(tag, "init done")
        try:
            sq.start()
            tlog(tag, "started")
        except RuntimeError as e:
            if not dead():
                sq.stop(kill=True)
                kill_registered(sq)
                try:
                    extra = open(f"{sq.work}/stdout.txt", "rb").read().decode("latin1")[-600:]
                except OSError:
                    extra = ""
                raise RuntimeError(f"{typ} write {nwrite}: {e} | stdout: {extra}")
            info["start_failed"] = True      # killed by the interposer during start-up writes: a legitimate crash point
        if not info["start_failed"] and smp:
            # SMP: workers answer before the disker is usable (and kids of an overloaded machine may still be restarting);
            # store small probe objects until the interposer has seen the first cache write
            for k in range(90):
                if dead() or not sq.alive() or os.path.getsize(f"{sq.work}/wk.log") > 0:
                    break
                with lock:
                    sizes[f"{prefix}/probe{k}"] = 3000 + k
                try:
                    fetch(sq.port, "GET", f"http://127.0.0.1:{org.port}{prefix}/probe{k}", req_id=f"{tag}.p{k}", timeout=10)
                except OSError:
                    pass
                time.sleep(0.5)
            tlog(tag, "disker ready after probes:", k)
        if not info["start_failed"]:
            for k, (op, ui, n) in enumerate(ops):
                if dead() or not sq.alive():
                    break
                path = f"{prefix}/u{ui}"
                if op != "purge" and n:
                    with lock:
                        sizes[path] = n
                elif op == "get":
                    with lock:
                        sizes.setdefault(path, 777)
                hs = [("Cache-Control", "no-cache")] if op == "refresh" else []
                try:
                    fetch(sq.port, "PURGE" if op == "purge" else "GET", f"http://127.0.0.1:{org.port}{path}", hs, req_id=f"{tag}.w{k}", timeout=20)
                except OSError:
                    pass
                info["requests"] += 1
            tlog(tag, "workload done", info["requests"])
            if not dead():
                time.sleep(1.0)            # let queued swap-outs and the once-per-second replacement pass run
            if not dead():
                sq.stop()                  # graceful shutdown: its cache writes (clean swap.state ...) are crash points too
        tlog(tag, "stopped")
        # whatever happened, nothing of this instance may survive
        sq.stop(kill=True)
        kill_registered(sq)
        time.sleep(0.1)
        try:
            logtxt = open(f"{sq.work}/wk.log").read()
        except OSError:
            logtxt = ""
        info["T"] = logtxt.count("\n")
        info["fired"] = "(INJECTED)" in logtxt
        info["last"] = logtxt.strip().splitlines()[-1] if logtxt.strip() else ""
        info["procs"] = len(set(l.split()[1] for l in logtxt.splitlines() if len(l.split()) > 1))
        return info

    def cause_of_foreign_bytes(key, got, rp, d, path, rid, typ, info, wit):
        """sub-key for a hit whose bytes differ from the origin's: where do the foreign bytes come from? (rock only)"""
        if key != "hit-body-differs" or not typ.startswith("rock"):
            return ""
        torn = info.get("torn_prefix")
        if torn is None:
            import re as _re
            mt = _re.search(r"prefix=(\d+) \(INJECTED\)", info.get("last", ""))
            torn = int(mt.group(1)) if (mt and wit.get("partial")) else 0
        if torn >= 40:
            # the kill tore ONE slot write behind its 40-byte DbCellHeader: the header (payload size, chain links) is on disk,
            # its payload only partly; rock has no payload checksum
            return ":write-torn-behind-the-slot-header"
        # a slot left over from ANOTHER version of the same URL (same key) sits where the new chain's missing slot belongs:
        # the rebuild compares keys only (RockRebuild.cc sameEntry(): "we can only compare the keys")
        probe = got[d + 8:d + 72]
        with lock:
            others = [o for r_, o in issued.get(path, {}).items() if r_ != rid]
        for o in others:
            if len(probe) >= 32 and probe in o.body:
                return ":spliced-with-another-version-of-the-url"
        return ""

    def restart_and_verify(info, wit, feat):
        sq = info["sq"]
        typ = info["typ"]
        prefix = info["prefix"]
        pre = {f"{prefix}/u{i}": completed_rids(f"{prefix}/u{i}") for i in range(NURLS)}     # frozen before the restart
        sq.cleanup_ipc()
        sq.env_extra = {}
        sq.unprivileged = False
        before = sq.log_text().count("Finished rebuilding storage from disk")
        if liveness == "corrupt":
            corrupt_cache(sq)
        try:
            sq.start(init=False, timeout=60)
        except RuntimeError as e:
            ok = health_events(sq, HealthFilter(res, sq), judge=True, witness=wit)
            if ok:
                res.violation(f"restart-failed:{typ}", f"{typ}: squid did not come up after the crash at cache write {wit.get('nwrite')}: {str(e)[-600:]}", wit)
            res.feature(typ, *feat, "restart-failed")
            return
        tlog(info["tag"], "restarted")
        # wait (bounded) until the store rebuild finished so that hits are possible; not finishing is counted, not judged
        t0 = time.time()
        while time.time() - t0 < 45:
            if sq.log_text().count("Finished rebuilding storage from disk") > before:
                break
            time.sleep(0.2)
        else:
            res.count("rebuild_not_finished_in_time")
        tlog(info["tag"], "rebuilt")
        hits = misses = trunc = errs = 0
        for rnd in (0, 1):
            for i in range(NURLS):
                path = f"{prefix}/u{i}"
                with lock:
                    sizes.setdefault(path, 777)
                    sizes[path] = 1000 + 37 * i + rnd            # post-crash versions are recognisably different
                rid_req = f"{info['tag']}.v{rnd}.{i}"
                try:
                    m = fetch(sq.port, "GET", f"http://127.0.0.1:{org.port}{path}", req_id=rid_req, timeout=30)
                except OSError as e:
                    res.count("verify_connect_failed")
                    continue
                if m.error:
                    res.violation("client-bytes-invalid-http", f"{typ}: {m.error}; raw={m.raw[:200]!r}", wit)
                    continue
                if m.start is None:
                    res.count("verify_no_response")
                    continue
                rid = m.header("X-Verif-Rid")
                if rid is None:
                    errs += 1
                    res.count(f"squid_generated_{m.status}")
                    continue
                if org.seen(rid_req):
                    misses += 1
                    continue
                # ---- served from the cache
                rp = pre[path].get(rid)
                if rp is None and rnd == 1:
                    rp = completed_rids(path).get(rid)       # what round 0 has just stored (complete, post-crash): ordinary caching
                if rp is None:
                    with lock:
                        known = any(rid in d for d in issued.values())
                    res.violation(f"hit-not-a-complete-precrash-response:{typ}", f"{typ}: after the crash at cache write {wit.get('nwrite')} ({info['last']}) {path} was served from the cache with rid {rid}, "
                                  + ("which the origin never sent completely for that URL" if known else "which the origin never issued"), wit)
                    continue
                hits += 1
                if m.header("X-Verif-Hdr") != "h-" + rid or m.status != rp.status:
                    res.violation(f"hit-headers-differ:{typ}", f"{typ}: hit for {path} rid {rid}: status {m.status}, X-Verif-Hdr {m.header('X-Verif-Hdr')!r}", wit)
                if m.complete:
                    if m.body != rp.body:
                        d = next((k for k in range(min(len(m.body), len(rp.body))) if m.body[k] != rp.body[k]), min(len(m.body), len(rp.body)))
                        key = "hit-truncated-served-as-complete" if rp.body.startswith(m.body) else "hit-body-differs"
                        key += cause_of_foreign_bytes(key, m.body, rp, d, path, rid, typ, info, wit)
                        res.violation(f"{key}:{typ}", f"{typ}: after the crash at cache write {wit.get('nwrite')} ({info['last']}) the hit for {path} (rid {rid}) is a complete {m.framing} message with "
                                      f"{len(m.body)} body bytes; the origin's response had {len(rp.body)}; first difference at {d}", wit)
                else:
                    trunc += 1
                    res.count("hit_visibly_truncated")
                    res.grey("visibly-truncated-hit")
                    if not rp.body.startswith(m.body):
                        d = next((k for k in range(min(len(m.body), len(rp.body))) if m.body[k] != rp.body[k]), min(len(m.body), len(rp.body)))
                        key = "hit-truncated-not-prefix" + cause_of_foreign_bytes("hit-body-differs", m.body, rp, d, path, rid, typ, info, wit)
                        res.violation(f"{key}:{typ}", f"{typ}: after the crash at cache write {wit.get('nwrite')} ({info['last']}) the visibly truncated hit for {path} (rid {rid}) carries {len(m.body)} bytes "
                                      f"that are not a prefix of the origin's body (first difference at {d})", wit)
        tlog(info["tag"], "verified")
        res.count("hits_after_restart", hits)
        res.count(f"hits_after_restart:{typ}", hits)
        res.count("misses_after_restart", misses)
        time.sleep(0.2)
        health_events(sq, HealthFilter(res, sq), judge=True, witness=wit)
        if not sq.alive():
            res.violation(f"crash:squid-exited-after-restart:{typ}", f"{typ}: squid exited while serving after the post-crash restart: " + sq.tail_log(), wit)
        sq.stop()
        health_events(sq, HealthFilter(res, sq), judge=True, witness=wit)
        res.feature(typ, *feat, min(hits, 12), misses > 0, trunc > 0, errs > 0)
        return hits

    def corrupt_cache(sq):
        """liveness: flip bytes in the middle of every cache data file / the rock db body (a crash never does that)"""
        for root, _, files in os.walk(f"{sq.work}/cd"):
            for fn in files:
                if fn.startswith("swap.state"):
                    continue
                p = os.path.join(root, fn)
                sz = os.path.getsize(p)
                with open(p, "r+b") as f:
                    pos = 3000
                    while pos < sz:
                        f.seek(pos)
                        b = f.read(8)
                        if b.strip(b"\0"):
                            f.seek(pos)
                            f.write(bytes(x ^ 0x55 for x in b))
                        pos += 4096

    # ------------------------------------------------------------------ counting runs (one per type), then the cases
    totals = {}

    def count_run(typ):
        info = one_run(f"{a.seed}.count.{typ}", typ, 0, False, 0)
        if info["T"] < 50:
            # the scripted workload makes several hundred cache writes; a counting run that saw almost none did not run the
            # workload (seen once on the overloaded shared machine): harness retry, once
            res.count("harness:count_run_retry")
            res.note(f"{typ}: counting run saw only {info['T']} cache writes ({info['requests']} requests made); retried")
            shutil.rmtree(info["sq"].work, ignore_errors=True)
            info = one_run(f"{a.seed}.count.{typ}.r", typ, 0, False, 0)
        info["tag"] = f"{a.seed}.count.{typ}"
        totals[typ] = info["T"]
        res.count(f"T_cache_writes:{typ}", info["T"])
        res.count(f"writer_processes:{typ}", info["procs"])
        wit = {"seed": a.seed, "type": typ, "nwrite": 0}
        if info["T"] == 0:
            res.inconclusive.append(f"{typ}: the interposer counted no cache-file write")
        if typ == "rock" and os.path.exists(f"{info['sq'].work}/wk.dump"):
            shutil.copyfile(f"{info['sq'].work}/wk.dump", os.path.join(a.work, "rock.dump"))
            rock_count.update(prefix=info["prefix"], tag=info["tag"])
        h = restart_and_verify(info, wit, ("no-crash",))
        (None if os.environ.get("C16_KEEP") else shutil.rmtree(info["sq"].work, ignore_errors=True))
        return h

    # ------------------------------------------------------------------ replayed crash states (rock)
    # The counting run of the non-SMP rock instance recorded every write to the db file WITH its payload, in sequence. The db
    # is one file that squid only ever changes through these writes, so the exact on-disk state after a crash at write n
    # (with any prefix of write n applied) can be rebuilt offline: initial `squid -z` db + writes 1..n-1 + prefix. Each such
    # state costs one squid start instead of a whole workload run, which buys many more crash points -- in particular torn
    # writes that stop inside a slot's header / swap metadata.
    rock_count = {}

    def read_dump(path):
        import struct
        recs = []
        data = open(path, "rb").read()
        pos = 0
        hs = struct.calcsize("<QQdqQ96s")
        while pos + hs <= len(data):
            magic, n, wall, off, ln, pth = struct.unpack_from("<QQdqQ96s", data, pos)
            if magic != 0x574b494c4c445031:
                raise RuntimeError("write dump out of sync at byte %d" % pos)
            pos += hs
            recs.append((n, wall, off, pth.split(b"\0", 1)[0].decode("latin1"), data[pos:pos + ln]))
            pos += ln
        return recs

    def rock_states(seed, k):
        """[(n, prefix length or None = crash just before write n is applied... i.e. 0 bytes of it)]"""
        recs = [x for x in read_dump(os.path.join(a.work, "rock.dump")) if x[3].endswith("/rock")]
        r = random.Random(f"C16:{seed}:rockstates")
        # writes of an entry's FIRST slot (DbCellHeader.firstSlot == the slot being written): the slot that carries the swap
        # metadata; a third of the states tear such a write just behind its 40-byte header
        import struct
        inode = []
        for i, (_n, _w, off, _p, data) in enumerate(recs):
            if len(data) >= 40 and off >= 16384 and (off - 16384) % 4096 == 0:
                first_slot = struct.unpack_from("<QQQIIii", data, 0)[5]
                if first_slot == (off - 16384) // 4096:
                    inode.append(i)
        res.count("rock_replay:first_slot_writes_recorded", len(inode))
        k_inode = min(len(inode), k // 3)
        pick_inode = set(r.sample(inode, k_inode)) if k_inode else set()
        rest = [i for i in range(len(recs)) if i not in pick_inode]
        idx = sorted(set(r.sample(rest, min(k - k_inode, len(rest)))) | pick_inode)
        out = []
        for i in idx:
            ln = len(recs[i][4])
            if i in pick_inode and ln > 44:
                out.append((i, r.randrange(40, min(ln, 260)), "inode-head"))
                continue
            mode = r.choice(["none", "head", "head", "sector", "uniform"])
            if mode == "none" or ln < 2:
                pre = 0
            elif mode == "head":
                pre = r.randrange(1, min(ln, 320))
            elif mode == "sector":
                pre = 512 * r.randrange(0, max(1, ln // 512))
            else:
                pre = r.randrange(0, ln)
            out.append((i, pre, mode))
        return recs, out

    def replay_states(seed, k):
        if not os.path.exists(os.path.join(a.work, "rock.dump")) or "rock" not in templates:
            res.note("rock replay skipped: no write dump")
            return
        recs, states = rock_states(seed, k)
        res.count("rock_replay:db_writes_recorded", len(recs))
        if not recs:
            return
        image = bytearray(open(os.path.join(templates["rock"], "rock"), "rb").read())

        def apply(rec, upto=None):
            _n, _w, off, _p, data = rec
            if upto is not None:
                data = data[:upto]
            if off + len(data) > len(image):
                image.extend(b"\0" * (off + len(data) - len(image)))
            image[off:off + len(data)] = data

        todo = []
        nxt = 0
        for (i, pre, mode) in states:
            while nxt < i:
                apply(recs[nxt]); nxt += 1
            snap = bytearray(image)
            if pre:
                _n, _w, off, _p, data = recs[i]
                snap[off:off + pre] = data[:pre]
            todo.append((i, pre, mode, bytes(snap)))

        def one_state(st):
            i, pre, mode, snap = st
            n_, wall, off, _p, data = recs[i]
            smp, cd = TYPES["rock"]
            sq = SquidUnprivileged(a.work, conf=COMMON, smp=smp, cache_dirs=(cd,), name=None)
            shutil.copytree(templates["rock"], f"{sq.work}/cd")
            with open(f"{sq.work}/cd/rock", "wb") as f:
                f.write(snap)
            subprocess.run(["chown", "-R", "nobody:nogroup", f"{sq.work}/cd"], check=True)
            sq._inited = True
            tag = f"{seed}.rs{i}"
            info = {"sq": sq, "prefix": rock_count["prefix"], "typ": "rock", "requests": 0, "start_failed": False, "tag": tag, "torn_prefix": pre,
                    "last": f"replayed state: db writes 1..{i} applied, then {pre} of {len(data)} bytes of write {i + 1} (offset {off}, sequence number {n_})"}
            wit = {"seed": seed, "type": "rock", "replayed_state": i, "prefix": pre, "nwrite": n_}
            res.count("rock_replay:states")
            res.count("rock_replay:states_" + mode)
            restart_and_verify(info, wit, ("replayed", mode, min(9, 10 * i // max(1, len(recs)))))
            (None if os.environ.get("C16_KEEP") else shutil.rmtree(sq.work, ignore_errors=True))

        in_lanes(todo, one_state, n=4)

    def gen_case(seed, i, ncases):
        r = random.Random(f"C16:{seed}:{i}")
        typ = types[i % len(types)]
        j, m = i // len(types), max(1, (ncases - (i % len(types)) + len(types) - 1) // len(types))
        return {"n": i, "seed": seed, "type": typ, "frac": (j + r.random()) / m, "partial": r.random() < 0.35, "pseed": r.randrange(1 << 30)}

    def crash_case(c):
        typ = c["type"]
        T = totals.get(typ, 0)
        nwrite = c.get("nwrite") or max(1, min(T, 1 + int(c["frac"] * T)))
        wit = {"seed": c["seed"], "case": c["n"], "type": typ, "nwrite": nwrite, "partial": c["partial"], "pseed": c["pseed"], "T": T}
        res.case({"case": c["n"], "type": typ, "nwrite": nwrite, "of": T, "partial": c["partial"]} if c["n"] % 7 == 0 else None)
        if T == 0 and not c.get("nwrite"):
            return
        tag = f"{c['seed']}.{c['n']}"
        info = one_run(tag, typ, nwrite, c["partial"], c["pseed"])
        info["tag"] = tag
        if info["fired"]:
            res.count("crash_points_fired")
            res.count(f"crash_points_fired:{typ}")
            if c["partial"]:
                res.count("partial_write_crash_points_fired")
            if info["start_failed"]:
                res.count("crash_points_during_startup")
        else:
            res.count(f"crash_point_not_reached:{typ}")       # this run made fewer cache writes than the counting run
        phase = "startup" if info["start_failed"] else "workload" if info["requests"] < len(ops) else "drain-or-shutdown"
        kind = info["last"].split()[2] if len(info["last"].split()) > 2 else "?"
        fname = "swap.state" if "swap.state" in info["last"] else "data"
        restart_and_verify(info, wit, (info["fired"], c["partial"], phase, kind, fname, min(9, 10 * nwrite // max(1, T))))
        (None if os.environ.get("C16_KEEP") else shutil.rmtree(info["sq"].work, ignore_errors=True))

    if a.replay_data and "replayed_state" in a.replay_data:
        cases = []
        count_run("rock")
    elif a.replay_data and "type" in a.replay_data:
        rd = a.replay_data
        cases = [{"n": rd.get("case", 0), "seed": rd.get("seed", a.seed), "type": rd["type"], "nwrite": rd.get("nwrite"), "frac": 0, "partial": rd.get("partial", False), "pseed": rd.get("pseed", 1)}]
        if not cases[0]["nwrite"]:
            cases = []
            count_run(rd["type"])
    else:
        cases = [gen_case(a.seed, i, a.cases) for i in range(a.cases)]
    errors = []

    def lane(todo, fn):
        while True:
            with lock:
                if not todo:
                    return
                x = todo.pop(0)
            try:
                fn(x)
            except Exception:
                import traceback
                errors.append(str(x)[:120] + ": " + traceback.format_exc()[-1500:])

    def in_lanes(items, fn, n=2):
        todo = list(items)
        ths = [threading.Thread(target=lane, args=(todo, fn), daemon=True) for _ in range(n)]
        for t in ths:
            t.start()
        for t in ths:
            t.join()

    try:
        need = sorted({c["type"] for c in cases if not c.get("nwrite")}, key=ALL_TYPES.index)
        in_lanes(need, count_run)
        in_lanes(cases, crash_case)
        if not a.replay_data or "replayed_state" in a.replay_data:
            replay_states(a.seed, 240 if a.tier == "thorough" else 28)
    finally:
        org.stop()
    res.count("origin_requests", org.count())
    if errors:
        raise RuntimeError("run(s) failed:\n" + "\n".join(errors))
    if not a.replay_data:
        fired = res.counters.get("crash_points_fired", 0)
        if fired < max(1, len(cases) // 2):
            res.inconclusive.append(f"only {fired} of {len(cases)} crash points fired")
        if res.counters.get("hits_after_restart", 0) == 0:
            res.inconclusive.append("no cache hit was observed after any restart")


if __name__ == "__main__":
    base.main_wrapper("C16", run)
