#!/usr/bin/python3
"""C14 Conditional requests are answered according to their validators (DESIGN 5.1).

Per case a fresh URL with up to three successive representations ("versions": own ETag strong/weak/absent, own
Last-Modified present/absent, own body). The scripted origin evaluates conditional requests it receives with the
same RFC 9110 13.2.2 reference evaluator the oracle uses (or, in `ignore` mode, always sends 200) and stamps every
response (200 and 304) with an increasing X-Gen. Steps: optional plain GET (caches version 1), then 3-6 requests with
random If-None-Match / If-Modified-Since / If-Match validators that refer to the cached, the current, an older or an
unknown version; some steps force revalidation (request Cache-Control: max-age=0 / no-cache, or a `no-cache`
response policy), before some steps the origin switches to its next version; plain GETs probe later hits.

Oracle (C = version that would otherwise be sent: the origin's current version if the origin was contacted for this
request, else the version the cache holds):
 * 304 to the client  => the CLIENT's validators match C (If-None-Match weak comparison, else Last-Modified <= IMS);
 * 412 to the client  => the client sent If-Match and it fails against C (strong comparison);
 * 200 to the client  => complete body of one version, ETag/Last-Modified headers of that same version; on a pure hit
   the version is the cached one and a failing If-Match is a violation (must be 412); if the client's validators
   clearly do not match C the answer must be this 200 (a 304 is the violation above);
 * after the origin answered squid's revalidation of the cached version with 304, later pure hits carry that 304's
   X-Gen and the old body.
A 200 although the validators match is allowed (counted). On a miss squid relays the origin's verdict (both fine).
Grey: If-Modified-Since against a representation without Last-Modified (squid falls back to its timestamp)."""
import os, random, re, time
from lab import base
from lab.lab import Lab, run_cases, Resp, http_date
from lab.x_cachelab import path_of, RidBook, liveness_conf

T0 = 1700000000      # fixed base for Last-Modified values (2023-11), far in the past
LIVENESS = bool(os.environ.get("VERIF_LIVENESS_ORACLE"))   # validation only: reference uses strong comparison for If-None-Match


def gen_case(seed, n):
    r = random.Random(f"C14:{seed}:{n}")
    c = {"n": n, "seed": seed}
    vers = {}
    for i in (1, 2, 3):
        kind = r.choice(["strong", "strong", "weak", "none"])
        vers[i] = {"etag": None if kind == "none" else ('W/' if kind == "weak" else "") + '"e%d-%d"' % (n, i),
                   "lm": (T0 + i * 3600) if r.random() < 0.7 else None, "len": r.choice([60, 500, 20000])}
    c["vers"] = vers
    c["precache"] = r.random() < 0.8
    c["origin_mode"] = "honour" if r.random() < 0.85 else "ignore"
    c["policy"] = r.choice(["max-age=3600"] * 4 + ["no-cache", "max-age=0, must-revalidate"])
    steps = []
    cur = 1
    for _ in range(r.randrange(3, 7)):
        st = {"bump": False, "reval": None, "hdrs": []}
        if cur < 3 and r.random() < 0.25:
            st["bump"] = True
            cur += 1
        st["reval"] = r.choice([None, None, None, "max-age=0", "max-age=0", "no-cache"])
        kind = r.choice(["plain", "inm", "inm", "inm", "ims", "ims", "inm+ims", "ifmatch", "ifmatch", "ifmatch+inm"])

        def etag_item():
            k = r.random()
            if k < 0.1:
                return "*"
            if k < 0.25:
                return '"bogus%d"' % r.randrange(3)
            v = r.choice([cur, cur, cur, max(1, cur - 1), min(3, cur + 1), r.choice([1, 2, 3])])
            e = vers[v]["etag"] or '"e%d-%d"' % (n, v)
            opaque = e[2:] if e.startswith("W/") else e
            return ("W/" if r.random() < 0.35 else "") + opaque

        def etag_list():
            items = [etag_item() for _ in range(r.choice([1, 1, 2, 3]))]
            if "*" in items:
                items = ["*"]
            return r.choice([", ", ",", " , "]).join(items)

        def ims_value():
            k = r.random()
            if k < 0.1:
                return r.choice(["garbage", "0", "Thursday"])
            v = r.choice([cur, cur, max(1, cur - 1), min(3, cur + 1)])
            base_t = vers[v]["lm"] or (T0 + v * 3600)
            return http_date(base_t + r.choice([-100, -1, 0, 0, 1, 100]))

        if "inm" in kind:
            st["hdrs"].append(("If-None-Match", etag_list()))
        if "ims" in kind:
            st["hdrs"].append(("If-Modified-Since", ims_value()))
        if "ifmatch" in kind:
            st["hdrs"].append(("If-Match", etag_list()))
        r.shuffle(st["hdrs"])
        steps.append(st)
    steps.append({"bump": False, "reval": None, "hdrs": []})     # final plain probe
    c["steps"] = steps
    return c


ETAG_RE = re.compile(r'(W/)?("[^"]*")\Z')


def etag_parse(s):
    m = ETAG_RE.match(s.strip())
    return (bool(m.group(1)), m.group(2)) if m else None


def etag_match(rep_etag, field, weak_ok):
    """field: raw If-Match / If-None-Match value (list or *). rep_etag: representation's ETag string or None"""
    items = [x.strip() for x in field.split(",") if x.strip()]
    if "*" in items:
        return True          # a current representation exists in every situation we evaluate
    if rep_etag is None:
        return False
    rw, ro = etag_parse(rep_etag)
    for it in items:
        p = etag_parse(it)
        if not p:
            continue
        w, o = p
        if o == ro and (weak_ok or (not w and not rw)):
            return True
    return False


def parse_date(s):
    import email.utils
    try:
        t = email.utils.parsedate_to_datetime(s)
        if t is None or not s.endswith("GMT"):
            return None
        return int(t.timestamp())
    except Exception:
        return None


def ref_eval(hdrs, ver):
    """RFC 9110 13.2.2 for GET. hdrs: list of (name, value) conditionals. Returns (status, grey_reason or None)"""
    d = {}
    for k, v in hdrs:
        d.setdefault(k.lower(), []).append(v)
    if "if-match" in d:
        if not etag_match(ver["etag"], ", ".join(d["if-match"]), False):
            return 412, None
    if "if-none-match" in d:
        if etag_match(ver["etag"], ", ".join(d["if-none-match"]), not LIVENESS):
            return 304, None
        return 200, None
    if "if-modified-since" in d:
        t = parse_date(d["if-modified-since"][0])
        if t is None:
            return 200, None
        if ver["lm"] is None:
            return 200, "ims-without-last-modified"
        return (304 if ver["lm"] <= t else 200), None
    return 200, None


VER_RE = re.compile(rb"^\[V(\d+)\]")


def run(a, res):
    table = {}
    states = {}

    def body_of(c, i):
        pre = b"[V%d]" % i
        rnd = random.Random("c14body:%d:%d:%d" % (c["seed"], c["n"], i)).randbytes(c["vers"][i]["len"])
        return pre + rnd

    def handler(req):
        c = table.get(path_of(req))
        if c is None:
            return Resp(404, length=5)
        st = states[c["n"]]
        i = st["cur"]
        ver = c["vers"][i]
        st["gen"] += 1
        hs = [("Cache-Control", c["policy"]), ("X-Gen", str(st["gen"])), ("X-Ver", str(i))]
        if ver["etag"]:
            hs.append(("ETag", ver["etag"]))
        if ver["lm"]:
            hs.append(("Last-Modified", http_date(ver["lm"])))
        conds = [(k, v) for k, v in req.headers if k.lower() in ("if-match", "if-none-match", "if-modified-since")]
        status = 200
        if conds and c["origin_mode"] == "honour":
            status, _ = ref_eval(conds, ver)
        if status == 304:
            resp = Resp(304, hs, body=b"", framing="none")
        elif status == 412:
            resp = Resp(412, [("Cache-Control", "no-store"), ("X-Gen", str(st["gen"]))], length=12)
        else:
            resp = Resp(200, hs, body=body_of(c, i))
        st["log"][req.req_id] = {"status": status, "ver": i, "gen": st["gen"], "conds": conds}
        return resp

    lab = Lab(a, res, handler=handler, conf="cache_mem 32 MB\n" + liveness_conf())

    def one(c):
        wit = {"seed": c["seed"], "case": c["n"]}
        path = f"/c14/{c['seed']}/{c['n']}"
        st = states[c["n"]] = {"cur": 1, "gen": 0, "log": {}}
        table[path] = c
        vers = c["vers"]
        cached = None          # model: version whose body the cache holds
        cached_gen = None      # X-Gen the cached entry's headers should carry (None = unknown/ambiguous)
        mixed = False          # an origin 304 that described ANOTHER version than the cached one passed through squid: the
        #                        entry may now carry that version's validators (the defect reported under
        #                        validators-of-one-version-on-body-of-another); 304/412 verdicts are not judged until a 200 is stored
        seq = 0
        steps = ([{"bump": False, "reval": None, "hdrs": [], "pre": True}] if c["precache"] else []) + c["steps"]
        for stp in steps:
            seq += 1
            if stp["bump"]:
                st["cur"] += 1
            rid = f"{c['seed']}.{c['n']}.{seq}"
            hs = list(stp["hdrs"])
            if stp["reval"]:
                hs.append(("Cache-Control", stp["reval"]))
            m = lab.fetch("GET", path, hs, req_id=rid)
            if m.start is None or m.error or not m.complete:
                res.count("no_or_bad_response")
                if m.error:
                    res.violation("client-bytes-invalid-http", m.error, wit)
                return
            res.count("requests")
            ups = lab.at_origin(rid)
            olog = st["log"].get(rid)
            contacted = bool(ups) and olog is not None
            cur = vers[st["cur"]]
            kinds = tuple(sorted(k.lower() for k, _ in stp["hdrs"]))
            det = (f"step {seq}: client conditionals {stp['hdrs']} reval={stp['reval']}; origin contacted={contacted}"
                   f"{' (origin saw ' + str(olog['conds']) + ' and answered ' + str(olog['status']) + ' for version ' + str(olog['ver']) + ')' if contacted else ''}; "
                   f"cache model holds version {cached}; versions={vers}; policy={c['policy']}; ")
            if contacted:
                res.count("origin_contacted")
                C = olog["ver"]
            else:
                res.count("pure_hits")
                C = cached
            if C is None:
                res.count("answer_without_origin_and_without_cache_%s" % m.status)
                continue
            exp, grey = ref_eval(stp["hdrs"], vers[C])
            if kinds:
                res.count("conditional_requests")
                if not contacted:
                    res.count("conditional_pure_hits")
            feat = [kinds, stp["reval"], "contacted" if contacted else "hit", (olog or {}).get("status"), exp, grey,
                    vers[C]["etag"] is None, (vers[C]["etag"] or "").startswith("W/"), vers[C]["lm"] is None, m.status]
            # ---------------- judge
            if mixed and not contacted and m.status in (304, 412):
                res.count("verdicts_on_possibly_mixed_entry_not_judged")
            elif m.status == 304:
                res.count("client_304")
                if not kinds:
                    res.violation("304-to-unconditional-request", det + "client sent no validator but got 304", wit)
                elif grey:
                    res.grey(grey)
                elif exp != 304:
                    res.violation("304-although-validators-do-not-match" + (":after-origin-contact" if contacted else ":hit"),
                                  det + f"client got 304 but the reference evaluation against version {C} gives {exp}", wit)
            elif m.status == 412:
                res.count("client_412")
                if exp != 412:
                    res.violation("412-although-if-match-holds", det + f"client got 412 but the reference evaluation against version {C} gives {exp}", wit)
            elif m.status == 200:
                res.count("client_200")
                vm = VER_RE.match(m.body)
                if not vm:
                    res.violation("200-with-unknown-body", det + f"body {m.body[:30]!r}", wit)
                    continue
                bv = int(vm.group(1))
                if m.body != body_of(c, bv):
                    res.violation("200-body-not-a-complete-version", det + f"body claims version {bv} but differs ({len(m.body)} bytes)", wit)
                    continue
                # headers must describe the same version as the body
                et, lm = m.header("ETag"), m.header("Last-Modified")
                if et != vers[bv]["etag"] or (lm or None) != (http_date(vers[bv]["lm"]) if vers[bv]["lm"] else None):
                    res.violation("validators-of-one-version-on-body-of-another", det + f"200 carries body of version {bv} with ETag={et} Last-Modified={lm} "
                                  f"(X-Ver={m.header('X-Ver')}, X-Gen={m.header('X-Gen')})", wit)
                if contacted:
                    okv = {olog["ver"]} if olog["status"] == 200 else {cached, olog["ver"]}
                    if bv not in okv:
                        res.violation("200-with-unexpected-version", det + f"client got version {bv}", wit)
                elif mixed:
                    res.count("verdicts_on_possibly_mixed_entry_not_judged")
                else:
                    if bv != cached:
                        res.violation("hit-with-unexpected-version", det + f"client got version {bv}", wit)
                    if grey:
                        res.grey(grey)
                    elif exp == 412:
                        res.violation("if-match-failure-served-200-from-cache", det + "If-Match fails against the cached representation but squid sent 200", wit)
                    elif exp == 304:
                        res.count("full_response_although_validators_match")
                    if cached_gen is not None and bv == cached:
                        after304 = st.get("last304") == cached_gen
                        if m.header("X-Gen") == str(cached_gen):
                            if after304:
                                res.count("hits_with_304_updated_headers")
                        elif after304:
                            res.violation("hit-lacks-headers-updated-by-304", det + f"the origin's 304 carried X-Gen={cached_gen} but the later hit carries "
                                          f"X-Gen={m.header('X-Gen')} (body version {bv} unchanged)", wit)
                        else:
                            res.count("model_header_generation_mismatch")
                            res.note("hit carries another X-Gen than the last stored 200 (model mismatch, not judged)")
                if exp == 200 and not grey and kinds:
                    res.count("nonmatching_validators_got_full_response")
            else:
                res.count("client_status_%d" % m.status)
            res.feature(*feat)
            # ---------------- update the cache model
            if contacted:
                if olog["status"] == 200:
                    cached, cached_gen, mixed = olog["ver"], olog["gen"], False
                elif olog["status"] == 304:
                    own = cached is not None and olog["ver"] == cached
                    if own and stp["reval"] != "no-cache":
                        # squid revalidated the version it holds: entry headers are refreshed from this 304
                        cached_gen = olog["gen"]
                        st["last304"] = olog["gen"]
                        res.count("revalidations_304")
                    else:
                        cached_gen = None          # relay of a client-driven 304 / ambiguous: header generation not judged
                        if cached is not None and olog["ver"] != cached:
                            res.count("origin_304_for_other_version_than_cached")
                            mixed = True

    try:
        run_cases(a, res, gen_case, one, threads=8)
    finally:
        lab.finish()
    if not a.replay_data:
        cn = res.counters
        if cn.get("conditional_pure_hits", 0) < max(1, a.cases // 3):
            res.inconclusive.append("too few conditional requests answered from cache (%d)" % cn.get("conditional_pure_hits", 0))
        if cn.get("client_304", 0) < max(1, a.cases // 5) or cn.get("client_412", 0) < max(1, a.cases // 20):
            res.inconclusive.append("too few 304/412 answers observed")
        if cn.get("hits_with_304_updated_headers", 0) < max(1, a.cases // 30):
            res.inconclusive.append("too few hits after a 304 revalidation (%d)" % cn.get("hits_with_304_updated_headers", 0))


if __name__ == "__main__":
    base.main_wrapper("C14", run)
