#!/usr/bin/python3
"""C63 Forwarding loops and Max-Forwards are honoured (DESIGN 5.1).

Workload: three kinds of case
  loop  : the request carries a Via list that contains the element this Squid itself emits (learned from a first
          forwarded request) at a random position among random other elements / header lines; the URL is
          uncached, freshly cached, or cached-but-stale (primed before a clock jump, H1).
  other : Via lists naming only other hosts, sub-domains and super-domains of this Squid: must be forwarded.
  mf    : TRACE/OPTIONS/GET with Max-Forwards values.
Oracle (origin arrivals by req id, never log tags):
  loop  => the probe's req id never arrives at the origin (neither fetch nor revalidation) and the client is answered.
  other => forwarded.
  mf    => TRACE/OPTIONS with Max-Forwards 0 never at origin and answered; n>0, if forwarded, arrives as n-1.
Grey: spelling variants of Squid's own element; Max-Forwards on GET; non-1*DIGIT / >int64 values; OPTIONS *.
"""
import random, threading, time, re
from concurrent.futures import ThreadPoolExecutor
from lab import base, httpref
from lab.lab import Lab, Resp, Conn, request_bytes
from lab.origin import http_date as base_date

JUMP = 7200          # seconds the clock hook advances between priming and probing
STALE_LIFETIME = 600
FRESH_LIFETIME = 86400 * 7

OTHERS = ["1.0 fred", "1.1 p.example.net", "1.1 p.example.net:8080 (Apache/1.1)", "HTTP/1.1 proxy-a", "1.1 nowhere.example.com (squid/3.5.27)",
          "1.0 ricky, 1.1 ethel", "1.1 vegur", "2 edge-7.cdn.example", "1.1 a (comment with, comma)", "FSTR/2 gw1", "1.1 varnish (Varnish/6.0)"]
# elements that resemble, but do not name, this Squid ({H} = visible hostname, {C} = its comment)
NEAR = ["1.1 sub.{H} ({C})", "1.1 x{H} ({C})", "1.1 {H}.example ({C})", "1.1 {T} ({C})", "1.1 {H}x ({C})", "1.1 my-{H}", "1.1 {T}"]
OWN_VARIANTS = ["case", "nocomment", "othercomment", "ws", "httpname", "port", "tab"]


def gen_via(r, own_kind, n_other=None):
    """returns {"items": [...], "lines": [[idx...]...], "seps": [...], "own_pos": i or None, "own": kind}; own element placeholder is '{OWN}'"""
    k = r.choice([0, 1, 1, 2, 3, 5]) if n_other is None else n_other
    items = [r.choice(OTHERS) for _ in range(k)]
    pos = None
    if own_kind is not None:
        pos = r.randrange(len(items) + 1)
        items.insert(pos, "{OWN}")
    nlines = 1 if len(items) < 2 else r.choice([1, 1, 2, 3])
    cuts = sorted(r.sample(range(1, len(items)), min(nlines - 1, len(items) - 1))) if len(items) > 1 else []
    lines, prev = [], 0
    for c in cuts + [len(items)]:
        lines.append(list(range(prev, c)))
        prev = c
    return {"items": items, "lines": lines, "sep": r.choice([", ", ",", " , ", ",  "]), "own_pos": pos}


def gen_case(seed, n):
    r = random.Random(f"C63:{seed}:{n}")
    c = {"n": n, "seed": seed}
    c["kind"] = r.choice(["loop"] * 6 + ["other"] * 2 + ["mf"] * 4)
    c["version"] = "HTTP/1.0" if r.random() < 0.15 else "HTTP/1.1"
    c["state"] = "uncached"
    c["client_cc"] = None
    c["own"] = None
    c["body"] = 0
    if c["kind"] == "loop":
        c["state"] = r.choice(["uncached", "fresh", "stale", "stale"])
        c["own"] = "exact" if r.random() < 0.8 else r.choice(OWN_VARIANTS)
        c["own_proto"] = r.choice(["1.1", "1.1", "1.0"])
        c["via"] = gen_via(r, c["own"])
        if c["state"] == "uncached":
            c["method"] = r.choice(["GET", "GET", "HEAD", "POST", "PUT", "DELETE", "TRACE", "OPTIONS"])
            if c["method"] in ("POST", "PUT"):
                c["body"] = r.choice([0, 10, 3000])
        else:
            c["method"] = r.choice(["GET", "GET", "GET", "HEAD"])
        c["stale_how"] = r.choice(["max-age", "max-age+etag", "max-age+lm", "expires", "s-maxage"])
        if r.random() < 0.15:
            c["client_cc"] = r.choice(["no-cache", "max-age=0"])
        c["mf"] = r.choice(["1", "5"]) if c["method"] in ("TRACE", "OPTIONS") and r.random() < 0.5 else None
    elif c["kind"] == "other":
        c["method"] = r.choice(["GET", "GET", "HEAD", "POST", "TRACE", "OPTIONS"])
        if c["method"] == "POST":
            c["body"] = 10
        c["via"] = gen_via(r, None, n_other=r.choice([0, 1, 2]))
        # splice in 1..2 near-miss elements
        for _ in range(r.choice([1, 1, 2])):
            c["via"]["items"].insert(r.randrange(len(c["via"]["items"]) + 1), r.choice(NEAR))
        c["via"]["lines"] = [list(range(len(c["via"]["items"])))]
        c["mf"] = None
    else:
        c["method"] = r.choice(["TRACE", "TRACE", "OPTIONS", "OPTIONS", "GET"])
        c["mf"] = r.choice(["0"] * 8 + ["00", "1", "1", "2", "3", "10", "255", "65535", "2147483647", "2147483648", "4294967296",
                            "9223372036854775807", "007", "-1", "abc", "1x", "", "99999999999999999999", "0x0", "+0"])
        c["via"] = gen_via(r, None) if r.random() < 0.3 else None
        c["star"] = c["method"] == "OPTIONS" and r.random() < 0.12     # authority-only target => "OPTIONS *" upstream
    return c


def render_via(c, own_elem):
    """own_elem e.g. '1.1 verif.test (squid/8.0.0-VCS)' -> list of Via header values"""
    v = c.get("via")
    if not v:
        return []
    proto, host, comment = re.fullmatch(r"(\S+) (\S+) \((.*)\)", own_elem).groups()
    top = host.split(".", 1)[1] if "." in host else host
    kind = c.get("own")
    p = c.get("own_proto", "1.1")
    own = {None: "", "exact": f"{p} {host} ({comment})", "case": f"{p} {host.upper()} ({comment})", "nocomment": f"{p} {host}",
           "othercomment": f"{p} {host} (squid/3.5.27)", "ws": f"{p}  {host} ({comment})", "httpname": f"HTTP/{p} {host} ({comment})",
           "port": f"{p} {host}:3128 ({comment})", "tab": f"{p}\t{host} ({comment})"}[kind]
    items = [x.replace("{OWN}", own).replace("{H}", host).replace("{C}", comment).replace("{T}", top) for x in v["items"]]
    return [v["sep"].join(items[i] for i in line) for line in v["lines"] if line]


def run(a, res):
    table = {}

    def handler(req):
        path = req.target
        if "://" in path:
            path = "/" + path.split("://", 1)[1].partition("/")[2]
        c = table.get(path)
        hs = [("Content-Type", "text/plain")]
        if c is not None and c["kind"] == "loop" and c["state"] != "uncached":
            if c["state"] == "fresh":
                hs.append(("Cache-Control", f"max-age={FRESH_LIFETIME}"))
            else:
                how = c["stale_how"]
                if how == "expires":
                    hs.append(("Expires", base_date(time.time() + STALE_LIFETIME)))
                elif how == "s-maxage":
                    hs.append(("Cache-Control", f"s-maxage={STALE_LIFETIME}, max-age=5"))
                else:
                    hs.append(("Cache-Control", f"max-age={STALE_LIFETIME}"))
                if how.endswith("+etag"):
                    hs.append(("ETag", '"v%d"' % c["n"]))
                if how.endswith("+lm"):
                    hs.append(("Last-Modified", base_date(time.time() - 86400 * 30)))
        return Resp(200, hs, length=60)

    # most runs give this Squid a unique_hostname that differs from its visible name (clusters behind one public name):
    # Via carries, and loop detection must look for, the unique name
    conf = "cache_mem 32 MB\n"
    if a.seed % 3 != 0:
        conf += "unique_hostname node7.c63.verif.example\n"
        res.count("runs_with_unique_hostname")
    lab = Lab(a, res, handler=handler, conf=conf, clock=True)
    wit = lambda c: {"seed": c["seed"], "case": c["n"]}

    def xfer(method, url, headers, req_id, version="HTTP/1.1", body=None, timeout=20):
        hs = list(headers)
        if version == "HTTP/1.1":
            hs.append(("Connection", "close"))
        conn = lab.conn(timeout=timeout)
        conn.send(request_bytes(method, url, hs, body, version, req_id))
        m = conn.read_response(method, timeout)
        conn.close()
        return m

    # ---- learn the Via element this Squid emits
    m = xfer("GET", lab.url(f"/c63/{a.seed}/learn"), [], f"{a.seed}.learn")
    ups = lab.at_origin(f"{a.seed}.learn")
    if not ups or not ups[0].headers:
        raise RuntimeError("learning request was not forwarded")
    via = httpref.get_all(ups[0].headers, "Via")
    if not via:
        raise RuntimeError("squid emitted no Via header")
    own_elem = via[-1].split(",")[-1].strip()
    if not re.fullmatch(r"1\.1 \S+ \(squid[^)]*\)", own_elem):
        raise RuntimeError("unexpected own Via element %r" % own_elem)
    res.note("own Via element: " + own_elem)

    def path_of(c):
        return f"/c63/{c['seed']}/{c['n']}"

    def prime(c):
        table[path_of(c)] = c
        if c["kind"] != "loop" or c["state"] == "uncached":
            return
        rid = f"{c['seed']}.{c['n']}.prime"
        m = xfer("GET", lab.url(path_of(c)), [], rid)
        c["_prime_rid"] = m.header("X-Verif-Rid") if m.start is not None and not m.error else None
        c["_primed"] = bool(c["_prime_rid"]) and m.status == 200 and m.complete
        if not c["_primed"]:
            res.count("prime_failed")

    def probe(c):
        res.case({k: v for k, v in c.items() if not k.startswith("_")} if c["n"] % 29 == 0 else None)
        rid = f"{c['seed']}.{c['n']}.probe"
        url = lab.url(path_of(c))
        hs = [("Via", v) for v in render_via(c, own_elem)]
        if c.get("mf") is not None:
            hs.append(("Max-Forwards", c["mf"]))
        if c.get("client_cc"):
            hs.append(("Cache-Control", c["client_cc"]))
        if c.get("star"):
            url = f"http://127.0.0.1:{lab.org.port}"
        body = (b"b" * c["body"]) if c["method"] in ("POST", "PUT") else None
        m = xfer(c["method"], url, hs, rid, c["version"], body)
        ups = lab.at_origin(rid)
        answered = m.start is not None and not m.error
        if m.error:
            res.violation("client-bytes-invalid-http", f"{m.error}: {m.raw[:200]!r}", wit(c))
            return
        got_rid = m.header("X-Verif-Rid") if answered else None
        nlines = len(c["via"]["lines"]) if c.get("via") else 0

        if c["kind"] == "loop":
            v = c["via"]
            posclass = "only" if len(v["items"]) == 1 else ("first" if v["own_pos"] == 0 else ("last" if v["own_pos"] == len(v["items"]) - 1 else "mid"))
            state = c["state"]
            if state != "uncached" and not c.get("_primed"):
                res.count("loop_case_skipped_not_primed")
                return
            # effective path class: a cached entry that needs validation (stale, or client demands it)
            eff = {"uncached": "miss", "fresh": "fresh", "stale": "stale-revalidation"}[state]
            if state == "fresh" and c["client_cc"] == "max-age=0":
                eff = "stale-revalidation"
            feat = ("loop", state, c["method"], posclass, nlines, c["own"], c["own_proto"], c["version"], c["client_cc"], c["stale_how"] if state == "stale" else None)
            forwarded = bool(ups)
            if c["own"] != "exact":
                res.grey("own-via-spelling-variant:" + c["own"])
                res.count(f"variant_{c['own']}_{'forwarded' if forwarded else 'local'}")
                res.feature(*feat, forwarded)
                return
            res.count(f"loop_{state}_cases")
            if state == "stale":
                res.count(f"loop_stale[{c['stale_how']},cc={c['client_cc']}]_{'forwarded' if forwarded else 'local'}")
            if forwarded:
                cond = any(httpref.get(u.headers, "If-None-Match") or httpref.get(u.headers, "If-Modified-Since") for u in ups)
                res.count(f"loop_{state}_forwarded")
                res.violation("loop-request-forwarded:" + eff,
                              f"request with Via naming this Squid ({render_via(c, own_elem)}) reached the origin "
                              f"({'conditional ' if cond else ''}{ups[0].method} {ups[0].target}); cache state={state}"
                              f"{' how=' + c['stale_how'] if state == 'stale' else ''} client Cache-Control={c['client_cc']}; client got {m.status if answered else 'no response'}"
                              f"{' rid ' + got_rid if got_rid else ''}", wit(c))
                res.feature(*feat, "FORWARDED")
                return
            res.count(f"loop_{state}_local")
            if not answered:
                res.count("loop_no_response")
                res.feature(*feat, "noresp")
                return
            if got_rid is not None:
                if got_rid == c.get("_prime_rid"):
                    res.count("loop_served_from_cache")
                    res.feature(*feat, "hit")
                else:
                    res.violation("loop-unknown-rid", f"loop request not seen at origin, yet client got rid {got_rid} != primed {c.get('_prime_rid')}", wit(c))
            else:
                res.count(f"loop_error_status_{m.status}")
                res.feature(*feat, "error", m.status)
            if state == "stale":
                # confirm that the entry really was stale: a plain follow-up must contact the origin
                rid2 = f"{c['seed']}.{c['n']}.after"
                m2 = xfer("GET", url, [], rid2)
                res.count("stale_state_confirmed" if lab.at_origin(rid2) else "stale_state_not_achieved")
            return

        if c["kind"] == "other":
            feat = ("other", c["method"], len(c["via"]["items"]), c["version"])
            if ups:
                res.count("other_forwarded")
                res.feature(*feat, "fwd")
            else:
                res.count("other_not_forwarded")
                res.violation("non-loop-via-not-forwarded", f"Via {render_via(c, own_elem)} does not name this Squid ({own_elem}) but the {c['method']} was not forwarded; client got {m.status if answered else 'no response'}", wit(c))
            return

        # ---- Max-Forwards
        mf = c["mf"]
        valid = re.fullmatch(r"[0-9]+", mf) is not None and int(mf) <= 2 ** 63 - 1
        feat = ("mf", c["method"], mf if not valid else min(int(mf), 4) if int(mf) < 1000 else len(mf), bool(c.get("via")), c["version"], bool(c.get("star")))
        if c["method"] == "GET":
            res.grey("max-forwards-on-GET")
            res.count("mf_get_forwarded" if ups else "mf_get_local")
            res.feature(*feat, bool(ups))
            return
        if not valid:
            res.grey("max-forwards-not-a-representable-number")
            res.feature(*feat, bool(ups))
            return
        n = int(mf)
        if n == 0:
            res.count("mf0_cases")
            if ups:
                res.violation(f"max-forwards-0-forwarded:{c['method']}", f"{c['method']} with Max-Forwards: {mf} reached the origin as {ups[0].method} {ups[0].target}", wit(c))
                return
            if not answered:
                res.count("mf0_no_response")
                res.note(f"{c['method']} Max-Forwards: 0 got no response (case {c['n']})")
                res.feature(*feat, "noresp")
                return
            if got_rid:
                res.violation("max-forwards-0-unknown-rid", f"client got origin rid {got_rid} for a Max-Forwards: 0 request", wit(c))
                return
            res.count(f"mf0_answered_locally_{m.status}")
            res.feature(*feat, "local", m.status)
            return
        if c.get("star"):
            res.grey("options-asterisk-with-max-forwards")
        if not ups:
            res.count("mfN_not_forwarded")
            res.feature(*feat, "notfwd", m.status if answered else None)
            return
        res.count("mfN_forwarded")
        for u in ups:
            vals = httpref.get_all(u.headers, "Max-Forwards")
            ok = len(vals) == 1 and re.fullmatch(r"[0-9]+", vals[0].strip()) and int(vals[0]) == n - 1
            if not ok:
                res.violation("max-forwards-not-decremented", f"{c['method']} with Max-Forwards: {mf} arrived at the origin with Max-Forwards {vals!r} (expected {n - 1})", wit(c))
                return
        res.count("mfN_decremented")
        res.feature(*feat, "fwd-dec")

    # two phases around one clock jump => custom driver instead of lab.run_cases (same replay contract)
    if a.replay_data and "case" in a.replay_data:
        cases = [gen_case(a.replay_data.get("seed", a.seed), a.replay_data["case"])]
    else:
        cases = [gen_case(a.seed, n) for n in range(a.cases)]
    try:
        with ThreadPoolExecutor(8) as ex:
            list(ex.map(prime, cases))
            lab.sq.set_clock(JUMP)
            time.sleep(0.3)
            list(ex.map(probe, cases))
    finally:
        lab.finish()
    if not a.replay_data:
        cn = res.counters
        for st in ("uncached", "fresh", "stale"):
            if cn.get(f"loop_{st}_cases", 0) < 3:
                res.inconclusive.append(f"fewer than 3 judged loop cases in cache state {st}")
        if cn.get("loop_served_from_cache", 0) < 1:
            res.inconclusive.append("no loop request was ever answered from the cache (fresh state not exercised)")
        if cn.get("loop_stale_forwarded", 0) + cn.get("stale_state_confirmed", 0) < 1:
            res.inconclusive.append("stale state never confirmed (neither forwarded nor follow-up at origin)")
        if cn.get("other_forwarded", 0) < 1:
            res.inconclusive.append("no non-loop Via request was forwarded")
        if cn.get("mf0_cases", 0) < 2 or cn.get("mfN_forwarded", 0) < 2:
            res.inconclusive.append("too few Max-Forwards observations")


if __name__ == "__main__":
    base.main_wrapper("C63", run)
