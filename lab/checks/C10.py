#!/usr/bin/python3
"""C10 Cache hits reproduce one complete stored response (DESIGN 5.1).

Instances: memory only, ufs, aufs, diskd, rock (non-SMP) and SMP (2 workers, shared memory cache + rock), all with
small caches so that entries are evicted.  A case is one episode on one instance: a few URLs, 2-3 concurrent client
threads issuing plain GETs, `Cache-Control: no-cache` refreshes (replacement), PURGEs and slow readers, while the
origin serves a NEW version (new rid, new length, new status/ETag/marker) every time it is asked, some of them slowly
so that readers attach while the writer still receives.

Oracle (per client response that carries an origin rid): the rid was minted for the requested URL; status, the
version-specific end-to-end headers and the body equal THAT origin response; a complete-framed body that is a strict
prefix, or a body that continues with bytes of another version, is a violation; an incomplete (visibly truncated)
delivery must be a prefix.  Hits are recognised from the logs only (rid minted for another request and the origin
never saw this request)."""
import random, threading, time, socket, re
from concurrent.futures import ThreadPoolExecutor
from lab import base, httpref
from lab.squidproc import Squid, health_events
from lab.origin import Origin, Resp, make_body
from lab.client import Conn, request_bytes

COMMON = ("acl PURGE method PURGE\n"
          "maximum_object_size 1 MB\n"
          "cache_swap_low 80\ncache_swap_high 90\n")

# name -> (conf, cache_dirs, smp)
INSTANCES = {
    "mem":   ("cache_mem 2 MB\nmaximum_object_size_in_memory 512 KB\n", [], 0),
    "ufs":   ("cache_mem 1 MB\nmaximum_object_size_in_memory 64 KB\n", ["cache_dir ufs {W}/ufs 3 16 16"], 0),
    "aufs":  ("cache_mem 1 MB\nmaximum_object_size_in_memory 64 KB\n", ["cache_dir aufs {W}/aufs 3 16 16"], 0),
    "diskd": ("cache_mem 1 MB\nmaximum_object_size_in_memory 64 KB\n", ["cache_dir diskd {W}/diskd 3 16 16"], 0),
    "rock":  ("cache_mem 1 MB\nmaximum_object_size_in_memory 64 KB\n", ["cache_dir rock {W}/rock 3 slot-size=4096"], 0),
    "smp":   ("cache_mem 2 MB\nmaximum_object_size_in_memory 512 KB\n", ["cache_dir rock {W}/rock 3 slot-size=4096"], 2),
}
ORDER = ["mem", "ufs", "aufs", "diskd", "rock", "smp"]
STATUSES = [200, 200, 200, 200, 200, 203, 404, 410, 301]


def inst_variant(seed, name):
    """per-(seed, instance) configuration variation -- reproducible for --replay"""
    r = random.Random(f"C10:{seed}:inst:{name}")
    v = {"cf": name == "smp" or r.random() < 0.5}
    if name in ("ufs", "aufs", "diskd", "rock") and r.random() < 0.35:
        v["nomem"] = True      # every hit has to come from disk
    # a second cache_dir of the same type with a size window: entries of unknown length that outgrow max-size are given up
    # in mid swap-out, small ones are spread over both cache_dirs
    r2 = random.Random(f"C10:{seed}:dirs:{name}")
    if name in ("ufs", "aufs", "diskd") and r2.random() < 0.6:
        v["second_dir"] = "cache_dir %s {W}/%s2 3 16 16 %s" % (name, name, r2.choice(["max-size=20000", "max-size=70000", "min-size=8192", "min-size=1000 max-size=40000"]))
    return v


def pick_len(r):
    k = r.random()
    if k < 0.08:
        return r.choice([0, 1, 2, 17])
    if k < 0.40:      # around memory page / rock slot multiples
        return max(0, r.randrange(1, 24) * 4096 + r.randrange(-400, 60))
    if k < 0.55:      # around shared-memory page multiples
        return max(0, r.randrange(1, 8) * 32768 + r.randrange(-400, 60))
    if k < 0.80:
        return r.randrange(0, 20000)
    return r.randrange(20000, 300000)


def gen_case(seed, n):
    r = random.Random(f"C10:{seed}:{n}")
    c = {"n": n, "seed": seed, "inst": ORDER[n % len(ORDER)]}
    c["nurls"] = r.randrange(2, 7)
    c["oseed"] = r.randrange(1 << 30)
    c["slow_p"] = r.choice([0.15, 0.4, 0.7])
    threads = []
    for _ in range(r.choice([2, 3, 3])):
        ops = []
        for _ in range(r.randrange(8, 22)):
            k = r.random()
            kind = "get" if k < 0.42 else "reval" if k < 0.54 else "refresh" if k < 0.70 else "purge" if k < 0.78 else "slowget" if k < 0.90 else "fill"
            ops.append((kind, r.randrange(c["nurls"]), r.choice([0, 0, 0, 2, 10, 30, 80])))
        threads.append(ops)
    c["threads"] = threads
    return c


class SlowConn(Conn):
    """client with a tiny receive buffer that drains slowly: keeps squid's store_client attached for long"""
    def __init__(self, port, pause, timeout=40):
        self.sock = socket.socket(socket.AF_INET, socket.SOCK_STREAM)
        self.sock.setsockopt(socket.SOL_SOCKET, socket.SO_RCVBUF, 2048)
        self.sock.settimeout(timeout)
        self.sock.connect(("127.0.0.1", port))
        self.buf = b""; self.raw_in = b""; self.raw_out = b""
        self.eof = False; self.reset = False
        self.timeout = timeout
        self.interim = []
        self.pause = pause
        self.slow_budget = 60       # after that many slow reads drain at full speed

    def _fill(self, timeout):
        if self.slow_budget > 0:
            self.slow_budget -= 1
            time.sleep(self.pause)
        return Conn._fill(self, timeout)


def first_diff(x, y):
    n = min(len(x), len(y))
    if x[:n] == y[:n]:
        return n
    lo, hi = 0, n
    while hi - lo > 1:          # binary search on prefix equality
        mid = (lo + hi) // 2
        if x[:mid] == y[:mid]:
            lo = mid
        else:
            hi = mid
    return lo


def run(a, res):
    table = {}          # path -> url record {case, idx, nver, lock}
    versions = {}       # rid -> dict
    by_path = {}        # path -> [rid...]
    vlock = threading.Lock()

    def handler(req):
        path = "/" + req.target.split("://", 1)[-1].split("/", 1)[-1]
        u = table.get(path)
        if u is None:
            return Resp(404, length=3)
        with vlock:
            u["nver"] += 1
            k = u["nver"]
        c = u["case"]
        inm = httpref.get(req.headers, "If-None-Match")
        if inm is not None and not u.get("fill"):
            with vlock:
                cur = versions.get(by_path.get(path, [None])[-1]) if by_path.get(path) else None
            if cur is not None and cur["status"] == 200 and inm.strip() == cur["etag"] and k % 4 != 0:
                res.count("origin_answered_304")
                # same rid, same validators and mark: only an unrelated header changes (and grows) with every revalidation
                return Resp(304, [("Cache-Control", "max-age=3600"), ("ETag", cur["etag"]), ("X-Verif-Mark", cur["mark"]), ("X-Reval", "g%d-" % k + "x" * (k % 7) * 40)],
                            body=b"", framing="none", rid=cur["rid"])
        r = random.Random(f"C10v:{c['oseed']}:{u['idx']}:{k}")
        status = r.choice(STATUSES)
        n = pick_len(r)
        if u.get("fill"):       # ballast that pushes older entries out of the small caches
            status, n = 200, (u["fill"] if u["fill"] is not True else r.randrange(120000, 300000))
        framing = r.choice(["cl", "cl", "cl", "chunked", "chunked", "close"])
        if u.get("force"):      # splice phase: a multi-slot 200 object
            status, n, framing = 200, u["force"], "cl"
        resp = Resp(status, None, length=n, framing=framing, chunks=[r.choice([1, 100, 4096, 5000, 65536]) for _ in range(4)])
        resp.headers = [("Content-Type", "application/octet-stream"), ("Cache-Control", "max-age=3600"),
                        ("ETag", '"%s-%d"' % (resp.rid, n)), ("X-Verif-Mark", "%s.%d.%d" % (resp.rid, n, status))]
        if status == 301:
            resp.headers.append(("Location", "http://127.0.0.1:1/moved/" + resp.rid))
        slow = r.random() < c["slow_p"] and not u.get("fill") and not u.get("force")
        if slow:
            wire = resp.serialize()
            hl = wire.find(b"\r\n\r\n") + 4
            pts = {hl} if r.random() < 0.7 else set()
            for _ in range(r.randrange(1, 6)):
                pts.add(r.randrange(1, max(2, len(wire))))
            resp.splits = sorted(pts)
            resp.delay = r.choice([0.01, 0.03, 0.06])
        v = {"rid": resp.rid, "path": path, "status": status, "len": n, "framing": framing, "req_id": req.req_id,
             "etag": '"%s-%d"' % (resp.rid, n), "mark": "%s.%d.%d" % (resp.rid, n, status), "slow": slow, "req": req, "t_mint": base.tick()}
        with vlock:
            versions[v["rid"]] = v
            by_path.setdefault(path, []).append(v["rid"])
        return resp

    org = Origin(handler)
    lastop = {}         # path -> (tick, kind, status) of the operation that completed last
    stalled = [0]
    judged = [0]

    def judge(c, inst, kind, path, req_id, t_send, m):
        wit = {"seed": c["seed"], "case": c["n"]}
        if m.start is None and not m.error:
            res.count("no_response")
            res.feature(inst, kind, "noresp")
            if m.timed_out:
                stalled[0] += 1
            return
        if m.error:
            res.violation("client-bytes-invalid-http", f"[{inst}] squid sent bytes that do not parse strictly: {m.error}; raw={m.raw[:200]!r}", wit)
            return
        rid = m.header("X-Verif-Rid")
        if rid is None:
            res.count("squid_generated:%s:%s" % (kind, m.status))
            res.feature(inst, kind, "squidgen", m.status)
            return
        with vlock:
            v = versions.get(rid)
        if v is None:
            res.violation("unknown-rid", f"[{inst}] client received rid {rid} that the origin never issued", wit)
            return
        judged[0] += 1
        fresh = v["req_id"] == req_id
        contacted = len(org.seen(req_id)) > 0
        hit = (not fresh) and (not contacted)
        cls = "fresh" if fresh else ("hit" if hit else "other-while-forwarded")
        tdone = getattr(v["req"], "t_resp_done", None)
        inflight = hit and (tdone is None or tdone > t_send)
        res.count(cls)
        if kind.startswith("splice-re"):
            res.count(f"{kind}:{cls}:{inst}")
        if hit:
            res.count("hits:" + inst)
        if inflight:
            res.count("hits_attached_while_writer_receiving")
            res.count("hits_inflight:" + inst)
        pre = "hit" if hit else "relay"
        if v["path"] != path:
            res.violation(pre + ":response-of-another-url", f"[{inst}] request for {path} answered with rid {rid} minted for {v['path']}", wit)
            return
        if m.status != v["status"]:
            res.violation(pre + ":status-differs", f"[{inst}] rid {rid}: origin status {v['status']}, client got {m.status}", wit)
            return
        for hn, want in (("ETag", v["etag"]), ("X-Verif-Mark", v["mark"])):
            got = m.header_all(hn)
            if got != [want]:
                res.violation(pre + ":end-to-end-header-differs", f"[{inst}] rid {rid}: {hn} is {got!r}, origin sent {want!r}", wit)
                return
        expected = make_body(rid, v["len"])
        feat = (inst, kind, cls, inflight, v["status"], v["framing"], m.framing, min(v["len"], 140000) // 8192)
        if m.complete:
            if m.body != expected:
                d = first_diff(m.body, expected)
                what = "differs"
                if len(m.body) < len(expected) and expected.startswith(m.body):
                    what = "truncated-served-as-complete"
                else:
                    # do the bytes from the first difference on belong to another version?
                    tail = m.body[d:d + 24]
                    with vlock:
                        others = [versions[x] for xs in by_path.values() for x in xs if x != rid]
                    for o in others[-400:]:
                        ob = make_body(o["rid"], o["len"])
                        if len(tail) >= 8 and tail in ob:
                            what = "mixes-two-versions"
                            break
                res.violation(f"{pre}:body-{what}", f"[{inst}] rid {rid} ({v['framing']} at origin, {v['len']} bytes): client got a COMPLETE {m.framing} message with {len(m.body)} body bytes; first difference at offset {d}", wit)
                return
            res.count("complete_identical")
            res.feature(*feat, "complete")
        else:
            if m.timed_out:
                stalled[0] += 1
                res.count("stalled")
                res.feature(*feat, "stalled")
                return
            if not expected.startswith(m.body):
                res.violation(pre + ":incomplete-not-prefix", f"[{inst}] rid {rid}: visibly truncated delivery of {len(m.body)} bytes is not a prefix of the origin body (first difference at {first_diff(m.body, expected)})", wit)
                return
            res.count("incomplete_prefix")
            res.count("incomplete_prefix:" + inst)
            res.feature(*feat, "incomplete")

    def client_thread(c, sq, inst, tno, ops):
        for i, (kind, ui, pause) in enumerate(ops):
            if pause:
                time.sleep(pause / 1000.0)
            path = f"/c10/{c['seed']}/{c['n']}/{inst}/u{ui}"
            if kind == "fill":
                path = f"/c10/{c['seed']}/{c['n']}/{inst}/f{tno}x{i}"
                table[path] = {"case": c, "idx": 1000 * tno + i, "nver": 0, "fill": True}
            url = f"http://127.0.0.1:{org.port}{path}"
            req_id = f"{c['seed']}.{c['n']}.{tno}.{i}"
            method = "PURGE" if kind == "purge" else "GET"
            hs = [("Connection", "close")]
            if kind == "refresh":
                hs.append(("Cache-Control", "no-cache"))
            if kind == "reval":
                # forces a revalidation; the origin answers 304 with CHANGED headers for the current version, so squid rewrites
                # the stored headers (StoreMap update / header splice on slot-based stores) while keeping the body
                hs.append(("Cache-Control", "max-age=0"))
            try:
                conn = SlowConn(sq.port, 0.004) if kind == "slowget" else Conn(sq.port, timeout=40)
            except OSError:
                res.count("connect_failed")
                if not sq.alive():
                    return
                continue
            t_send = base.tick()
            conn.send(request_bytes(method, url, hs, None, req_id=req_id))
            m = conn.read_response(method, timeout=40)
            conn.close()
            res.count("requests")
            judge(c, inst, kind, path, req_id, t_send, m)
            if kind != "fill":
                with vlock:
                    lastop[path] = (base.tick(), kind, m.status)

    def one(c, sq):
        inst = c["inst"]
        for ui in range(c["nurls"]):
            table[f"/c10/{c['seed']}/{c['n']}/{inst}/u{ui}"] = {"case": c, "idx": ui, "nver": 0}
        ths = [threading.Thread(target=client_thread, args=(c, sq, inst, t, ops), daemon=True) for t, ops in enumerate(c["threads"])]
        for t in ths:
            t.start()
        for t in ths:
            t.join()
        res.case({"case": c["n"], "inst": inst, "urls": c["nurls"], "threads": [len(o) for o in c["threads"]]} if c["n"] % 29 == 0 else None)

    def sweep(cases, sq, inst):
        """quiescent point: every URL of the instance once more (hits long after the writers finished; eviction evidence)"""
        for c in cases:
            for ui in range(c["nurls"]):
                if not sq.alive():
                    return
                path = f"/c10/{c['seed']}/{c['n']}/{inst}/u{ui}"
                req_id = f"{c['seed']}.{c['n']}.sweep.{ui}"
                try:
                    conn = Conn(sq.port, timeout=40)
                except OSError:
                    res.count("connect_failed")
                    continue
                t_send = base.tick()
                conn.send(request_bytes("GET", f"http://127.0.0.1:{org.port}{path}", [("Connection", "close")], None, req_id=req_id))
                m = conn.read_response("GET", timeout=40)
                conn.close()
                res.count("requests")
                judge(c, inst, "sweep", path, req_id, t_send, m)
                lo = lastop.get(path)
                if lo is not None and len(org.seen(req_id)) > 0:
                    res.count("sweep_miss_after_%s:%s" % ("purge" if lo[1] == "purge" else "store", inst))

    def splice_phase(seed, sq, inst):
        """slot-based stores (rock, shared memory): multi-slot objects whose stored headers are rewritten after header-changing
        304s (the new header slots are spliced onto the old body slots and the stale prefix is freed), then fresh objects that
        take whatever slots were freed, then -- after enough ballast to push the memory copies out -- the objects again."""
        r = random.Random(f"C10:{seed}:splice:{inst}")
        c = {"seed": seed, "n": -1, "oseed": r.randrange(1 << 30), "slow_p": 0}
        seq = [0]

        def get(path, kind, hs=()):
            seq[0] += 1
            req_id = f"{seed}.sp.{inst}.{seq[0]}"
            try:
                conn = Conn(sq.port, timeout=40)
            except OSError:
                res.count("connect_failed")
                return
            t_send = base.tick()
            conn.send(request_bytes("GET", f"http://127.0.0.1:{org.port}{path}", [("Connection", "close")] + list(hs), None, req_id=req_id))
            m = conn.read_response("GET", timeout=40)
            conn.close()
            res.count("requests")
            judge(c, inst, kind, path, req_id, t_send, m)

        paths = []
        for j in range(16):
            path = f"/c10/{seed}/sp/{inst}/s{j}"
            n = r.choice([9000, 13000, 20000, 33000, 40000, 70000, 100000, 140000]) + r.randrange(0, 3000)
            table[path] = {"case": c, "idx": 5000 + j, "nver": 0, "force": n}
            paths.append(path)
            get(path, "splice-store")
        nf = 0
        for rnd in range(2):
            for path in paths:
                if not sq.alive():
                    return
                get(path, "splice-reval", [("Cache-Control", "max-age=0")])
                for _ in range(2):
                    nf += 1
                    fp = f"/c10/{seed}/sp/{inst}/f{nf}"
                    table[fp] = {"case": c, "idx": 6000 + nf, "nver": 0, "fill": r.randrange(5000, 60000)}
                    get(fp, "splice-fill")
        for path in paths[::2]:
            get(path, "splice-read")
        for _ in range(26):     # ballast small enough to be memory-cached itself (about 1.2 MB): pushes the local memory copies out
            nf += 1
            fp = f"/c10/{seed}/sp/{inst}/f{nf}"
            table[fp] = {"case": c, "idx": 6000 + nf, "nver": 0, "fill": r.randrange(30000, 60000)}
            get(fp, "splice-fill")
        for path in paths:
            get(path, "splice-read")
        res.count("splice_phases")

    def run_instance(name, cases):
        conf, cds, smp = INSTANCES[name]
        var = inst_variant(cases[0]["seed"], name)
        if var.get("nomem"):
            conf = re.sub(r"cache_mem \d+ MB", "cache_mem 0 MB", conf)
        if var["cf"]:
            conf += "collapsed_forwarding on\n"
        if var.get("second_dir"):
            cds = list(cds) + [var["second_dir"]]
        sq = Squid(a.work, conf=COMMON + conf, cache_dirs=cds, smp=smp)
        wit = {"seed": cases[0]["seed"], "case": cases[0]["n"]}
        try:
            sq.start(timeout=150)
            with ThreadPoolExecutor(2) as ex:
                list(ex.map(lambda c: one(c, sq), cases))
            time.sleep(0.3)
            if name in ("rock", "smp") and not (a.replay_data and "case" in a.replay_data):
                splice_phase(cases[0]["seed"], sq, name)
            sweep(cases, sq, name)
            health_events(sq, res, judge=True, witness=wit)
            if not sq.alive():
                res.violation("crash:squid-exited", f"[{name}] squid exited during the workload: " + sq.tail_log(), wit)
            for l in sq.access_lines():
                f = l.split()
                if len(f) > 3 and ("HIT" in f[3] or "SWAPFAIL" in f[3]):
                    res.count("tag:%s:%s" % (name, f[3].split("/")[0]))
        finally:
            sq.stop()
        health_events(sq, res, judge=True, witness=wit)
        res.note(f"instance {name}: variant {var}")

    if a.replay_data and "case" in a.replay_data:
        cases = [gen_case(a.replay_data.get("seed", a.seed), a.replay_data["case"])]
    else:
        cases = [gen_case(a.seed, n) for n in range(a.cases)]
    groups = {}
    for c in cases:
        groups.setdefault(c["inst"], []).append(c)
    try:
        with ThreadPoolExecutor(2) as ex:
            list(ex.map(lambda kv: run_instance(*kv), [(k, groups[k]) for k in ORDER if k in groups]))
    finally:
        org.stop()
    res.count("origin_requests", org.count())
    res.count("versions", len(versions))
    if not a.replay_data:
        missing = [k for k in groups if res.counters.get("hits:" + k, 0) == 0]
        if missing:
            res.inconclusive.append("no cache hit observed on instance(s) " + ",".join(missing))
        if stalled[0] > max(3, judged[0] // 20):
            res.inconclusive.append(f"{stalled[0]} transactions stalled")


if __name__ == "__main__":
    base.main_wrapper("C10", run)
