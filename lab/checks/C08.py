#!/usr/bin/python3
"""C08 No descriptor leaks or crashes across abort histories (DESIGN 5.1, fault_enumeration).

A case is one HISTORY: 50..400 transactions (GET cacheable / uncacheable, POST, CONNECT tunnels, malformed requests) driven
concurrently (8 worker threads, each interleaving a batch of transactions step by step) through one long-lived squid, with
 * client faults: stop after a PRNG prefix of the request (head or body), stop after reading a PRNG number of response
   bytes, ending by close / RST / half-close / staying open (stall) / idle keep-alive;
 * origin faults: close or RST at a PRNG offset of the response, never answering, stopping mid-body while keeping the
   connection open, slow split writes, and per-connection faults before reading (close, RST, read k bytes then close/RST,
   read everything and never answer).
Stalled sockets on both sides stay OPEN while the verdict is taken. After the traffic stops the clock hook H1 is advanced
by two days so that every comm / request / pconn / tunnel timeout fires, then /proc/<pid>/fd and mgr:filedescriptors are
sampled until stable for 3 reads.
Oracle: (i) squid alive, no ASan report / assertion / FATAL; (ii) descriptor count == idle baseline captured (same way)
before the history. Idle persistent connections cannot survive a two-day jump, so no allowance is needed.
"""
import os, random, threading, time, socket, struct, select, re
from lab import base, httpref
from lab.lab import Lab, Resp, request_bytes
from lab.origin import make_body

DAY2 = 2 * 86400
CONFIGS = {
    "mem": dict(conf="cache_mem 32 MB\nmaximum_object_size_in_memory 1 MB\n", cache_dirs=()),
    "ufs": dict(conf="cache_mem 4 MB\nmaximum_object_size_in_memory 16 KB\n", cache_dirs=("cache_dir ufs {W}/ufs 64 16 16",)),
    "aufs": dict(conf="cache_mem 4 MB\nmaximum_object_size_in_memory 16 KB\n", cache_dirs=("cache_dir aufs {W}/aufs 64 16 16",)),
    "diskd": dict(conf="cache_mem 4 MB\nmaximum_object_size_in_memory 16 KB\n", cache_dirs=("cache_dir diskd {W}/diskd 64 16 16",)),
}
COMMON = "acl nocache urlpath_regex ^/nc/\ncache deny nocache\nclient_request_buffer_max_size 1 MB\n"

ORIGIN_BEHAVIOURS = ["ok"] * 6 + ["abort_close", "abort_rst", "never_answer", "stall_mid_body", "slow", "chunked", "close_framed"]
ENDS = ["close"] * 4 + ["rst", "rst", "half", "stall", "idle"]


def gen_case(seed, n, tier="quick"):
    """a history; transactions are generated from the same PRNG (the thorough tier adds 400-transaction histories)"""
    r = random.Random(f"C08:{seed}:{n}")
    h = {"n": n, "seed": seed}
    h["ntx"] = r.choice([50, 80, 120, 200] + ([400, 400] if tier == "thorough" else [])) if n % 4 else 50
    h["caching"] = r.choice(["on", "on", "off"])
    h["accept_fault_rate"] = r.choice([0.0, 0.05, 0.15])
    h["txs"] = [gen_tx(r, h, k) for k in range(h["ntx"])]
    h["accept_seed"] = r.randrange(1 << 30)
    # the origin reads a request that arrived on a REUSED persistent connection and closes without a byte (the idle-pconn
    # race: squid must retry safe requests on another connection, and fail the others cleanly)
    r1 = random.Random(f"C08:reuse:{seed}:{n}")
    rate = r1.choice([0.0, 0.15, 0.4])
    for t in h["txs"]:
        t["reuse_close"] = r1.random() < rate
    return h


def gen_tx(r, h, k):
    t = {"k": k}
    t["kind"] = r.choice(["GET"] * 5 + ["POST"] * 2 + ["CONNECT"] * 2 + ["BAD"])
    cacheable = h["caching"] == "on" and t["kind"] == "GET" and r.random() < 0.7
    # few distinct cacheable URLs => hits, collapsing, aborted-entry sharing
    t["path"] = (f"/c/{h['seed']}/{h['n']}/{r.randrange(8)}" if cacheable else f"/nc/{h['seed']}/{h['n']}/{k}")
    t["origin"] = r.choice(ORIGIN_BEHAVIOURS)
    t["rlen"] = r.choice([0, 10, 3000, 70000, 300000])
    t["ofrac"] = r.random()
    t["body"] = r.choice([0, 100, 20000, 200000]) if t["kind"] == "POST" else 0
    t["chunked_req"] = t["kind"] == "POST" and r.random() < 0.3
    t["req_cut"] = r.random() if r.random() < 0.25 else None          # fraction of the request bytes actually sent
    t["rsp_read"] = r.choice([1, 20, 300, 5000, 100000]) if r.random() < 0.3 else None
    t["end"] = r.choice(ENDS)
    t["bad"] = r.choice([b"GET / HTTP/1.1\r\n\x00\xff\r\n\r\n", b"\x16\x03\x01\x02\x00\x01\x00", b"POST http://x/ HTTP/1.1\r\nContent-Length: -1\r\n\r\n",
                         b"GET http://127.0.0.1:1/ HTTP/1.1\r\nHost: 127.0.0.1:1\r\n\r\n", b"CONNECT 127.0.0.1:1 HTTP/1.1\r\n\r\n", b"GET " + b"A" * 70000])
    return t


class History:
    def __init__(self):
        self.stalled = []            # client sockets deliberately left open until the verdict is taken
        self.release = threading.Event()
        self.lock = threading.Lock()


def run(a, res):
    tier_cfgs = ["mem", "ufs"] if a.tier != "thorough" else ["mem", "ufs", "aufs", "diskd"]
    if a.replay_data and "case" in a.replay_data:
        hs = [gen_case(a.replay_data.get("seed", a.seed), a.replay_data["case"], a.tier)]
    else:
        hs = [gen_case(a.seed, n, a.tier) for n in range(a.cases)]
    for i, cfg in enumerate(tier_cfgs):
        sub = [h for h in hs if h["n"] % len(tier_cfgs) == i]
        if sub:
            run_config(a, res, cfg, sub)
    if not a.replay_data:
        cn = res.counters
        if cn.get("verdicts_taken", 0) < 1:
            res.inconclusive.append("no history reached a descriptor verdict")
        if cn.get("tx_total", 0) and cn.get("tx_got_response_bytes", 0) < cn.get("tx_total", 0) // 10:
            res.inconclusive.append("hardly any transaction got response bytes")
        if cn.get("peak_fd_over_baseline_max", 0) < 10:
            res.inconclusive.append("descriptor count never rose noticeably above the baseline during a history")


def run_config(a, res, cfg, histories):
    table = {}
    state = {"hist": None, "accept_rng": None, "rate": 0.0}
    alock = threading.Lock()

    def handler(req):
        path = req.target
        if "://" in path:
            path = "/" + path.split("://", 1)[1].partition("/")[2]
        t = table.get(path)
        hist = state["hist"]
        if t is None:
            return Resp(200, [("Cache-Control", "no-store")], length=20)
        b = t["origin"]
        if t.get("reuse_close") and getattr(req, "seq_on_conn", 0) >= 1:
            res.count("origin_closed_reused_pconn_without_reply")
            return None
        hs = [("Cache-Control", "max-age=600")] if path.startswith("/c/") else []
        res.count("origin_behaviour:" + b)
        if b == "never_answer":
            if hist:
                hist.release.wait(180)
            return None
        framing = "chunked" if b == "chunked" else ("close" if b == "close_framed" else "cl")
        resp = Resp(200, hs, length=t["rlen"], framing=framing)
        if b == "chunked":
            resp.chunks = [1, 100, 4096, 65536]
        wire_len = len(resp.serialize())
        if b in ("abort_close", "abort_rst"):
            resp.abort_at = max(1, int(wire_len * t["ofrac"]))
            resp.abort_kind = "rst" if b == "abort_rst" else "close"
        elif b == "stall_mid_body":
            # promise more body than is sent, then keep the connection open until the verdict has been taken
            resp.declared_length = t["rlen"] + 1000
            resp.on_sent = (lambda rq: hist.release.wait(180)) if hist else None
            resp.close_after = True
        elif b == "slow":
            resp.splits = sorted({int(wire_len * x / 5) for x in range(1, 5)})
            resp.delay = 0.05
        return resp

    c = CONFIGS[cfg]
    lab = Lab(a, res, handler=handler, conf=COMMON + c["conf"], cache_dirs=c["cache_dirs"], clock=True)
    sq = lab.sq
    clock = [0]
    idle0 = [None]      # idle descriptor count after the warm-up

    def on_accept(rec):
        with alock:
            rng, rate = state["accept_rng"], state["rate"]
            if rng is None or rng.random() >= rate:
                return None
            act = rng.choice([("close",), ("rst",), ("read_close", 10), ("read_rst", 40), ("read_close", 10 ** 9)])
        res.count("origin_accept_fault:" + act[0] + (":never_answer" if act[-1] == 10 ** 9 else ""))
        return act
    lab.org.on_accept = on_accept

    def mgr_fd_count():
        try:
            txt = sq.mgr("filedescriptors", timeout=10)
        except OSError:
            return -1, ""
        rows = [l for l in txt.splitlines() if re.match(r"\s*\d+\s+\S+", l)]
        return len(rows), txt

    def stable_fds(max_wait=40.0, need=3, interval=0.4):
        """sample /proc/<pid>/fd until `need` consecutive equal reads; returns (count, stable?)"""
        last, same, t0 = None, 0, time.time()
        while time.time() - t0 < max_wait:
            n = sq.fd_count()
            if n == last:
                same += 1
                if same >= need:
                    return n, True
            else:
                last, same = n, 1
            time.sleep(interval)
        return last, False

    def fd_listing():
        out = []
        try:
            for f in sorted(os.listdir(f"/proc/{sq.proc.pid}/fd"), key=int):
                try:
                    out.append(f"{f}->{os.readlink(f'/proc/{sq.proc.pid}/fd/{f}')}")
                except OSError:
                    pass
        except OSError:
            pass
        return out

    def jump():
        clock[0] += DAY2
        sq.set_clock(clock[0])
        time.sleep(1.2)      # at least one full event-loop timeout check with the new time

    # ------------------------------------------------------------------ client side: step-wise transactions
    def tx_steps(t, hist, stats):
        port = sq.port
        url = f"http://127.0.0.1:{lab.org.port}{t['path']}"
        rid = f"{hist.h['seed']}.{hist.h['n']}.{t['k']}"
        close_hdr = [] if t["end"] == "idle" else [("Connection", "close")]
        inner = b""
        if t["kind"] == "GET":
            wire = request_bytes("GET", url, close_hdr, None, "HTTP/1.1", rid)
        elif t["kind"] == "POST":
            wire = request_bytes("POST", url, close_hdr, make_body(rid, t["body"]), "HTTP/1.1", rid, chunked=[4096, 1, 60000] if t["chunked_req"] else None)
        elif t["kind"] == "CONNECT":
            wire = f"CONNECT 127.0.0.1:{lab.org.port} HTTP/1.1\r\nHost: 127.0.0.1:{lab.org.port}\r\n\r\n".encode()
            inner = request_bytes("GET", t["path"], [("Connection", "close")], None, "HTTP/1.1", rid, host=f"127.0.0.1:{lab.org.port}")
        else:
            wire = t["bad"]
        try:
            s = socket.create_connection(("127.0.0.1", port), timeout=3)
        except OSError:
            stats["connect_failed"] += 1
            return
        s.settimeout(0.03)
        got = [0]

        def send(data):
            pos, tries = 0, 0
            while pos < len(data):
                try:
                    pos += s.send(data[pos:pos + 65536])
                    tries = 0
                except (socket.timeout, BlockingIOError):
                    tries += 1
                    if tries > 100:
                        return False
                    yield
                except OSError:
                    return False
                if pos and pos % (3 * 65536) == 0:
                    yield
            return True

        def recv_until(pred, wait):
            deadline = time.time() + wait
            buf = b""
            while True:
                try:
                    b = s.recv(65536)
                except (socket.timeout, BlockingIOError):
                    if time.time() > deadline:
                        return buf, "timeout"
                    yield
                    continue
                except OSError:
                    return buf, "reset"
                if not b:
                    return buf, "eof"
                got[0] += len(b)
                if len(buf) < 65536:
                    buf += b
                if pred(buf, got[0]):
                    return buf, "enough"

        to_send = wire if t["req_cut"] is None else wire[:max(1, int(len(wire) * t["req_cut"]))]
        ok = yield from send(to_send)
        yield
        how = "cut" if t["req_cut"] is not None else "full"
        if ok and t["req_cut"] is None:
            want = t["rsp_read"]
            if t["kind"] == "CONNECT":
                buf, why = yield from recv_until(lambda b, n: b"\r\n\r\n" in b, 4.0)
                if b" 200 " in buf.split(b"\r\n", 1)[0]:
                    stats["tunnels"] += 1
                    got[0] = 0
                    ok = yield from send(inner)
                    buf, why = yield from recv_until(lambda b, n: want is not None and n >= want, 3.0)
            else:
                buf, why = yield from recv_until(lambda b, n: want is not None and n >= want, 3.0)
            how = why
        elif ok and t["end"] in ("close", "half"):
            # request prefix only: give squid a moment, optionally read whatever comes
            buf, why = yield from recv_until(lambda b, n: True, 0.3)
        if got[0]:
            stats["got_response_bytes"] += 1
        end = t["end"]
        try:
            if end == "rst":
                s.setsockopt(socket.SOL_SOCKET, socket.SO_LINGER, struct.pack("ii", 1, 0))
                s.close()
            elif end == "half":
                s.shutdown(socket.SHUT_WR)
                buf, why = yield from recv_until(lambda b, n: False, 0.5)
                s.close()
            elif end in ("stall", "idle"):
                with hist.lock:
                    hist.stalled.append(s)
            else:
                s.close()
        except OSError:
            pass
        res.feature(cfg, t["kind"], t["origin"] if t["kind"] != "BAD" else None, t["req_cut"] is not None, t["rsp_read"] is not None, end, how,
                    min(t["rlen"], 70000), min(t["body"], 20000), hist.h["caching"])
        stats["by_end:" + end] += 1
        stats["by_outcome:" + how] += 1

    def worker(txs, hist, stats, width=14):
        pending = list(txs)
        active = []
        while pending or active:
            while pending and len(active) < width:
                active.append(tx_steps(pending.pop(0), hist, stats))
            nxt = []
            for g in active:
                try:
                    next(g)
                    nxt.append(g)
                except StopIteration:
                    pass
            active = nxt
            time.sleep(0.002)

    def run_history(h):
        import collections
        wit = {"seed": h["seed"], "case": h["n"]}
        res.case({k: v for k, v in h.items() if k != "txs"} | {"config": cfg, "tx_sample": [{k: (v if not isinstance(v, bytes) else v[:20].decode("latin1")) for k, v in t.items()} for t in h["txs"][:2]]})
        hist = History()
        hist.h = h
        T = [time.time()]
        base_fd, st = stable_fds()
        for _ in range(2):
            if st and base_fd == idle0[0]:
                break
            # leftovers of the previous history's release (or of the warm-up) still hold timeouts: expire them
            jump()
            base_fd, st = stable_fds()
        base_mgr, _ = mgr_fd_count()
        if not st:
            res.inconclusive.append(f"baseline not stable before history {h['n']}")
            return True
        for t in h["txs"]:
            table[t["path"]] = t
        with alock:
            state["hist"], state["accept_rng"], state["rate"] = hist, random.Random(h["accept_seed"]), h["accept_fault_rate"]
        stats = collections.Counter()
        peak = [base_fd]
        stop_peak = threading.Event()

        def watch():
            while not stop_peak.is_set():
                peak[0] = max(peak[0], sq.fd_count())
                time.sleep(0.1)
        wt = threading.Thread(target=watch, daemon=True)
        wt.start()
        chunks = [h["txs"][i::8] for i in range(8)]
        ths = [threading.Thread(target=worker, args=(ch, hist, stats), daemon=True) for ch in chunks if ch]
        for th in ths:
            th.start()
        for th in ths:
            th.join(180)
        hung = any(th.is_alive() for th in ths)
        T.append(time.time())
        stop_peak.set()
        wt.join(2)
        with alock:
            state["rate"] = 0.0
        res.count("tx_total", len(h["txs"]))
        for k, v in stats.items():
            res.count("tx_" + k, v)
        res.count("client_sockets_left_open_during_verdict", len(hist.stalled))
        res.counters["peak_fd_over_baseline_max"] = max(res.counters.get("peak_fd_over_baseline_max", 0), peak[0] - base_fd)
        if hung:
            res.inconclusive.append(f"client workers of history {h['n']} did not finish")
        # ---- traffic has stopped: let every timeout fire
        if not sq.alive():
            return False
        # squid may lag behind the clients (ASan, ~110 transactions in flight): let it drain its backlog first, so that
        # timeouts are not (re)armed relative to the post-jump time
        before_jump, _ = stable_fds(max_wait=15)
        jumps = 0
        final_fd, st = before_jump, False
        while jumps < 4 and sq.alive():
            jump()
            jumps += 1
            final_fd, st = stable_fds(max_wait=15)
            if st and final_fd == base_fd:
                break
            # timeouts armed by work that squid finished after the jump expire with the next jump; a leaked
            # descriptor survives every jump
            time.sleep(1.0)
        res.count("clock_jumps", jumps)
        final_mgr, mgr_txt = mgr_fd_count()
        T.append(time.time())
        if os.environ.get("C08_TIMING"):
            res.note(f"timing history {h['n']} ntx={h['ntx']}: traffic {T[1] - T[0]:.1f}s settle {T[2] - T[1]:.1f}s")
        alive = sq.alive()
        res.count("verdicts_taken")
        res.count("fds_open_when_traffic_stopped_over_baseline", max(0, before_jump - base_fd))
        if alive and final_fd != base_fd:
            listing = fd_listing()
            res.violation("descriptor-leak" if final_fd > base_fd else "descriptor-count-below-baseline",
                          f"config {cfg}, history {h['n']} ({h['ntx']} transactions, caching {h['caching']}): /proc fd count {final_fd} after {jumps} two-day clock jumps vs idle baseline {base_fd} "
                          f"(mgr:filedescriptors rows {final_mgr} vs {base_mgr}; {before_jump} open when traffic stopped).\nfd table: {listing[-40:]}\nmgr:filedescriptors:\n{mgr_txt[-2500:]}", wit)
        elif alive and base_mgr >= 0 and final_mgr >= 0 and final_mgr != base_mgr:
            res.violation("descriptor-table-mismatch", f"config {cfg}, history {h['n']}: /proc fd count back at baseline {base_fd} but mgr:filedescriptors lists {final_mgr} rows vs {base_mgr} before\n{mgr_txt[-2500:]}", wit)
        # ---- release everything that was deliberately kept open
        hist.release.set()
        for s in hist.stalled:
            try:
                s.close()
            except OSError:
                pass
        with alock:
            state["hist"] = None
        time.sleep(0.3)
        return lab.check_health(wit) and alive

    try:
        # warm-up: touch every lazily initialised path, then take the first baseline after a jump
        warm = gen_case(a.seed, 10 ** 6)
        warm["txs"] = [dict(t, end="close", origin="ok", req_cut=None, rsp_read=None) for t in warm["txs"][:24]]
        hw = History()
        hw.h = warm
        for t in warm["txs"]:
            table[t["path"]] = t
        import collections
        st0 = collections.Counter()
        worker(warm["txs"], hw, st0, width=4)
        stable_fds(max_wait=10)
        jump()
        stable_fds(max_wait=10)
        jump()
        idle0[0], _ = stable_fds()
        for h in histories:
            if not run_history(h):
                break
    finally:
        lab.finish()


if __name__ == "__main__":
    base.main_wrapper("C08", run)
