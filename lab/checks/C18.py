#!/usr/bin/python3
"""C18 Collapsed forwarding: one upstream fetch, identical copies (DESIGN 5.1).

Per case: one burst of 2..20 identical GETs for a fresh, clearly cacheable URL, sent at PRNG offsets spread around
the (slow) origin's header and body timing. Oracle: W = [origin received the first request for the URL, origin
finished sending that response] (wall clock of the origin stub); requests the client SENT strictly inside W (20 ms
guard band at both edges) must not cause any further origin fetch of the URL; every client gets a complete body
identical to one origin response for the URL, or an error / a visibly truncated message."""
import os, random, threading, time, glob, re
from lab import base, httpref
from lab.squidproc import Squid, health_events
from lab.origin import Origin, Resp, make_body
from lab.client import Conn, request_bytes

GUARD = 0.020
MEMCONF = "cache_mem 64 MB\nmaximum_object_size_in_memory 2 MB\nmaximum_object_size 8 MB\n"
LOGFMT = "logformat vf %ts.%03tu %tS %tr %{X-Verif-Req}>h %Ss/%03>Hs %<st kid${process_number}\n"
# name -> (smp workers, cache_dirs, store kind used in violation keys)
CONFIGS = {
    "mem": (0, (), "mem"),
    "ufs": (0, ("cache_dir ufs {W}/ufs 64 16 16",), "ufs"),
    "aufs": (0, ("cache_dir aufs {W}/aufs 64 16 16",), "aufs"),
    "rock": (0, ("cache_dir rock {W}/rock 64 slot-size=4096",), "rock"),
    "smp2-mem": (2, (), "smp-mem"),
    "smp3-mem": (3, (), "smp-mem"),
    "smp2-rock": (2, ("cache_dir rock {W}/rock 64 slot-size=4096",), "smp-rock"),
    "smp3-rock": (3, ("cache_dir rock {W}/rock 64",), "smp-rock"),
}
ORDER = ["mem", "ufs", "aufs", "rock", "smp2-mem", "smp2-rock", "smp3-mem", "smp3-rock"]
SIZES = [1, 100, 4000, 4096, 4097, 16384, 32768, 32769, 65536, 70000, 150000, 300000]


class HealthFilter:
    """Result proxy for the process monitors: a kid that could not register with the coordinator within squid's fixed
    start-up deadline (seen only when the shared machine is overloaded; the master restarts the kid) is a harness event."""

    def __init__(self, res, sq=None):
        self._res = res
        self._sq = sq

    def __getattr__(self, n):
        return getattr(self._res, n)

    def violation(self, key, detail, witness=None, extra=None):
        if "registration timed out" in str(detail) and "AddressSanitizer" not in str(detail):
            self._res.count("harness:kid-registration-timeout-at-startup")
            return
        if "failed to open db file" in str(detail) and self._sq is not None and "communication channel establishment timeout" in self._sq.log_text():
            # same class: the worker gave up waiting (fixed 6 s) for the disker of an overloaded machine during start-up
            self._res.count("harness:disker-channel-timeout-at-startup")
            return
        self._res.violation(key, detail, witness, extra)


def configs_for(seed, tier):
    """thorough: all eight; quick: the four non-SMP stores + one SMP shared-memory and one SMP rock instance (2 or 3 workers by seed)"""
    if tier == "thorough":
        return ORDER
    return ["mem", "ufs", "aufs", "rock"] + (["smp2-mem", "smp3-rock"] if seed % 2 else ["smp3-mem", "smp2-rock"])


def gen_case(seed, n, tier="quick"):
    r = random.Random(f"C18:{seed}:{n}")
    c = {"n": n, "seed": seed}
    cfgs = configs_for(seed, tier)
    c["cfg"] = cfgs[n % len(cfgs)]
    c["k"] = r.choice([2, 3, 5, 8, 12, 20, r.randint(2, 20)])
    c["len"] = r.choice(SIZES + [r.randrange(1, 120000)])
    c["framing"] = r.choice(["cl", "cl", "chunked"])
    c["cc"] = r.choice(["max-age=3600", "public, max-age=3600", "max-age=600, s-maxage=3600"])
    c["validator"] = r.choice([None, "etag", "lm"])
    c["d0"] = r.choice([0.06, 0.15, 0.3])                    # origin thinks before the first byte
    c["head_split"] = r.random() < 0.4                       # header block itself arrives in two writes
    c["nsplits"] = r.choice([1, 2, 4, 6])                    # writes inside the body
    c["delay"] = r.choice([0.03, 0.06, 0.12])
    c["split_seed"] = r.randrange(1 << 30)
    nwrites = c["nsplits"] + (1 if c["head_split"] else 0)
    total = c["d0"] + nwrites * c["delay"]
    offs = [0.0]
    for _ in range(c["k"] - 1):
        mode = r.random()
        if mode < 0.15:
            offs.append(0.0)                                       # races the leader
        elif mode < 0.45:
            offs.append(r.uniform(0.0, c["d0"]))                   # before the origin's first byte
        elif mode < 0.8:
            offs.append(r.uniform(c["d0"], total))                 # while headers/body trickle in
        elif mode < 0.9:
            offs.append(total + r.uniform(-0.03, 0.03))            # around the end of the fetch
        else:
            offs.append(total + r.uniform(0.03, 0.4))              # after W (outside the property; classified only)
    c["offsets"] = [round(x, 4) for x in offs]
    # a response that is stale on arrival (storable, with a validator, but max-age=0 / no-cache): requests that really
    # collapsed onto the fetch (sent before the origin's first byte) still share its response; requests that arrive after
    # the headers find a stale entry and may revalidate (HTTP requires it), so they are not judged in these cases
    r1 = random.Random(f"C18:stale:{seed}:{n}")
    c["stale_on_arrival"] = r1.random() < 0.15
    if c["stale_on_arrival"]:
        c["cc"] = r1.choice(["max-age=0", "no-cache", "max-age=0, must-revalidate"])
        c["validator"] = r1.choice(["etag", "lm"])
    return c


def run(a, res):
    table = {}          # path -> case
    issued = {}         # path -> {rid: Resp}
    lock = threading.Lock()
    liveness = os.environ.get("C18_LIVENESS", "")

    def path_of(target):
        t = target.split("://", 1)[-1] if "://" in target else target
        return t if t.startswith("/") else "/" + t.split("/", 1)[-1]

    def handler(req):
        p = path_of(req.target)
        c = table.get(p)
        if c is None:
            return Resp(404, length=3)
        hs = [("Content-Type", "application/octet-stream"), ("Cache-Control", c["cc"])]
        if c["validator"] == "etag":
            hs.append(("ETag", '"v%d"' % c["n"]))
        elif c["validator"] == "lm":
            hs.append(("Last-Modified", "Mon, 01 Jan 2024 00:00:00 GMT"))
        resp = Resp(200, hs, length=c["len"], framing=c["framing"], delay_before=c["d0"], delay=c["delay"],
                    chunks=[4096, 1000, 70000])
        wire = resp.serialize()
        hl = wire.find(b"\r\n\r\n") + 4
        r = random.Random(c["split_seed"])
        pts = set()
        if c["head_split"]:
            pts.add(r.randrange(1, hl))
        pts.add(hl)   # headers first, body later: opens the "after headers, during body" window
        for _ in range(max(0, c["nsplits"] - 1)):
            if len(wire) > hl + 1:
                pts.add(r.randrange(hl, len(wire)))
        resp.splits = sorted(pts)
        with lock:
            issued.setdefault(p, {})[resp.rid] = resp
        return resp

    org = Origin(handler, backlog=512)
    wit = lambda c: {"seed": c["seed"], "case": c["n"], "tier": a.tier}
    totals = {"judged_inside": 0}

    def first_diff(x, y):
        for i in range(min(len(x), len(y))):
            if x[i] != y[i]:
                return i
        return min(len(x), len(y))

    def one_burst(sq, c, kind):
        path = f"/c18/{c['seed']}/{c['n']}"
        table[path] = c
        url = f"http://127.0.0.1:{org.port}{path}"
        k = c["k"]
        out = [None] * k
        t0 = time.time() + 0.15

        def client(i):
            rec = {"i": i, "req_id": f"{c['seed']}.{c['n']}.{i}"}
            out[i] = rec
            try:
                dt = t0 + c["offsets"][i] - time.time() - 0.01
                if dt > 0:
                    time.sleep(dt)
                conn = Conn(sq.port, timeout=40)
            except OSError as e:
                rec["connect_error"] = str(e)
                return
            data = request_bytes("GET", url, [("Connection", "close")], req_id=rec["req_id"])
            dt = t0 + c["offsets"][i] - time.time()
            if dt > 0:
                time.sleep(dt)
            rec["t_before"] = time.time()
            conn.send(data)
            rec["t_after"] = time.time()
            rec["m"] = conn.read_response("GET", timeout=40)
            rec["t_done"] = time.time()
            conn.close()

        ths = [threading.Thread(target=client, args=(i,), daemon=True) for i in range(k)]
        for t in ths:
            t.start()
        for t in ths:
            t.join(90)
        return out

    def judge_burst(c, kind, out, started):
        """started: req_id -> (squid's own record of when it began handling the request (%tS), worker)"""
        path = f"/c18/{c['seed']}/{c['n']}"
        k = c["k"]
        oreqs = sorted(org.by_target(path), key=lambda q: q.wall_recv)
        if not oreqs:
            res.count("burst_never_reached_origin")
            res.inconclusive.append(f"case {c['n']}: no origin request")
            return
        first = oreqs[0]
        res.count("bursts")
        res.count("origin_fetches", len(oreqs))
        w_lo = first.wall_recv
        w_hi = getattr(first, "wall_resp_done", None)
        hi_judge = getattr(first, "wall_resp_start", w_hi) if (c.get("stale_on_arrival") and w_hi is not None) else w_hi
        if c.get("stale_on_arrival"):
            res.count("bursts_with_stale_on_arrival_response")
        n_inside = n_inside_refetch = n_late = n_late_refetch = n_edge = n_edge_refetch = n_lagged = n_lagged_refetch = 0
        workers = set()
        # racing leaders (SMP only can have them): further fetches on behalf of requests that were sent before / together
        # with the one that opened W, i.e. that did not arrive "while a fetch was in progress" in any observable sense
        sent_at = {rec["req_id"]: rec["t_before"] for rec in out if rec and "t_before" in rec}
        # (client send time against the origin's receive time, or -- more exact on a loaded machine -- squid's own start stamps
        # of the two requests against each other)
        st_first = started.get(first.req_id)
        def raced(q):
            if sent_at.get(q.req_id, w_lo + 1e9) <= w_lo + GUARD:
                return True
            st_q = started.get(q.req_id)
            return bool(st_q and st_first and st_q[0] <= st_first[0] + GUARD)
        racing = [q for q in oreqs[1:] if raced(q)] if kind.startswith("smp") else []
        if racing:
            res.count(f"bursts_with_racing_leaders:{kind}")
            res.grey("racing-leaders-themselves")
        with lock:
            mine = dict(issued.get(path, {}))
        bodies = {"complete": 0, "truncated": 0, "error": 0, "none": 0}
        rids_seen = set()
        for rec in out:
            if rec is None or "m" not in rec:
                res.count("client_connect_failed")
                continue
            m = rec["m"]
            fetched = [q for q in oreqs if q.req_id == rec["req_id"]]
            is_first = first.req_id == rec["req_id"]
            # ---- window classification (the first request opens W; it is not judged against itself)
            if not is_first and w_hi is not None:
                st = started.get(rec["req_id"])
                if rec["t_before"] > w_lo + GUARD and rec["t_after"] < hi_judge - GUARD and (st is None or st[0] >= hi_judge - GUARD):
                    # sent inside W, but squid itself says it began handling the request only after the origin had finished
                    # sending (busy machine), or squid logged nothing for it: arrival inside the fetch is not established
                    n_lagged += 1
                    if fetched:
                        n_lagged_refetch += 1
                elif rec["t_before"] > w_lo + GUARD and rec["t_after"] < hi_judge - GUARD:
                    n_inside += 1
                    workers.add(st[1])
                    if fetched:
                        n_inside_refetch += 1
                        phase = "before-origin-headers" if rec["t_after"] < getattr(first, "wall_resp_start", w_hi) else "during-origin-body"
                        early = [q for q in oreqs[1:] if q.wall_recv < getattr(first, "wall_resp_start", w_lo)] if kind.startswith("smp") else []
                        if racing:
                            phase = "after-racing-leaders"      # several workers had begun fetching the URL at the same instant
                            res.count(f"refetch_after_racing_leaders:{kind}")
                        elif len(early) >= 2:
                            # the same SMP breakdown seen from the origin: three or more fetches of the URL were in flight before the
                            # first response had sent a byte (the simultaneous start itself could not be established from the stamps)
                            phase = "multi-leader-cascade"
                            res.count(f"refetch_in_multi_leader_cascade:{kind}")
                        res.violation(f"extra-fetch-inside-window:{kind}:{phase}",
                                      f"cfg={c['cfg']} burst of {k}: request {rec['req_id']} was sent {rec['t_before'] - w_lo:.3f}s after the origin received the first request "
                                      f"({first.req_id}) and {w_hi - rec['t_after']:.3f}s before the origin finished sending its response (W={w_hi - w_lo:.3f}s, "
                                      f"origin first byte at +{getattr(first, 'wall_resp_start', w_lo) - w_lo:.3f}s), yet squid fetched the URL again for it "
                                      f"(origin saw it at +{fetched[0].wall_recv - w_lo:.3f}s); squid logged the start of this request at +{st[0] - w_lo:.3f}s on {st[1]}. len={c['len']} framing={c['framing']} origin fetches for URL={len(oreqs)}, racing leaders={[q.req_id for q in racing]}", wit(c))
                elif rec["t_before"] >= w_hi + GUARD:
                    n_late += 1
                    if fetched:
                        n_late_refetch += 1
                else:
                    n_edge += 1
                    if fetched:
                        n_edge_refetch += 1
            # ---- body oracle (applies to every client of the burst)
            if m.error:
                res.violation("client-bytes-invalid-http", f"cfg={c['cfg']}: {m.error}; raw={m.raw[:200]!r}", wit(c))
                continue
            if m.start is None:
                bodies["none"] += 1
                if m.timed_out:
                    res.count("client_timeout")
                    # bounded progress: the (last) fetch of this URL finished long ago, yet this client, whose request squid
                    # took, got not a single byte for >= 30 more seconds on an open connection: neither the response nor an error
                    dones = [getattr(q, "wall_resp_done", None) for q in oreqs]
                    if dones and all(d is not None for d in dones) and rec.get("t_done", 0) - max(dones) >= 30.0 and rec["req_id"] in started:
                        res.violation(f"collapsed-client-never-answered:{kind}", f"cfg={c['cfg']}: request {rec['req_id']} (handled by {started[rec['req_id']][1]}) received nothing for "
                                      f"{rec['t_done'] - max(dones):.0f} s after the origin had finished answering {len(oreqs)} fetch(es) of {path}; connection still open", wit(c))
                continue
            rid = m.header("X-Verif-Rid")
            if rid is None:
                bodies["error"] += 1
                res.count(f"squid_generated_{m.status}")
                continue
            resp = mine.get(rid)
            if resp is None:
                res.violation("foreign-rid", f"cfg={c['cfg']}: client of {path} got rid {rid}, never issued for that URL", wit(c))
                continue
            rids_seen.add(rid)
            if m.complete:
                bodies["complete"] += 1
                if m.body != resp.body:
                    pre = resp.body.startswith(m.body)
                    key = "truncated-body-served-as-complete" if pre else "body-differs"
                    res.violation(f"{key}:{kind}", f"cfg={c['cfg']}: {rec['req_id']} got a complete {m.framing} 200 with {len(m.body)} body bytes; origin response {rid} has {len(resp.body)} "
                                  f"(first diff at {first_diff(m.body, resp.body)}); fetched-for-itself={bool(fetched)}", wit(c))
                elif m.status != 200:
                    res.violation("status-changed", f"cfg={c['cfg']}: origin 200, client {m.status}", wit(c))
                if not fetched and not is_first:
                    res.count("served_without_own_fetch")
            else:
                bodies["truncated"] += 1
                res.count("visibly_truncated")
                if not resp.body.startswith(m.body):
                    res.violation(f"truncated-not-prefix:{kind}", f"cfg={c['cfg']}: incomplete message whose {len(m.body)} bytes are not a prefix of {rid}", wit(c))
        res.count("inside_window", n_inside)
        res.count(f"inside_window:{c['cfg']}", n_inside)
        res.count("inside_window_refetch", n_inside_refetch)
        res.count("after_window", n_late)
        res.count(f"after_window_refetch:{kind}", n_late_refetch)
        res.count("sent_inside_but_squid_started_late_unjudged", n_lagged)
        res.count(f"sent_inside_but_squid_started_late_refetch:{kind}", n_lagged_refetch)
        if n_lagged:
            res.grey("sent-inside-W-but-squid-began-handling-after-W")
        if len(workers) > 1:
            res.count("bursts_with_inside_requests_on_several_workers")
        res.count("edge_unjudged", n_edge)
        res.count(f"edge_unjudged_refetch:{kind}", n_edge_refetch)
        with lock:
            totals["judged_inside"] += n_inside
        if n_edge:
            res.grey("request-within-guard-band-of-W")
        if w_hi is None:
            res.count("first_fetch_not_completed_by_origin")
        res.feature(kind, min(k, 9), c["len"] // 16384 if c["len"] > 4096 else (c["len"] > 100), c["framing"], c["nsplits"], c["head_split"],
                    min(n_inside, 3), len(workers) > 1, n_inside_refetch > 0, bool(racing), n_late_refetch > 0, len(rids_seen), bodies["truncated"] > 0, bodies["error"] > 0)

    def read_logs(sq):
        started, kids = {}, set()
        for f in glob.glob(f"{sq.work}/access-*.log"):
            try:
                for l in open(f, "rb").read().decode("latin1").splitlines():
                    p = l.split()
                    if len(p) >= 7 and p[3] != "-":
                        try:
                            started[p[3]] = (float(p[1]), p[6])
                        except ValueError:
                            continue
                        kids.add(p[6])
            except OSError:
                pass
        return started, kids

    if a.replay_data and "case" in a.replay_data:
        cases = [gen_case(a.replay_data.get("seed", a.seed), a.replay_data["case"], a.replay_data.get("tier", a.tier))]
    else:
        cases = [gen_case(a.seed, n, a.tier) for n in range(a.cases)]
    def run_config(cfg):
        mine = [c for c in cases if c["cfg"] == cfg]
        if not mine:
            return
        smp, dirs, kind = CONFIGS[cfg]
        conf = MEMCONF + ("collapsed_forwarding off\n" if liveness == "cf_off" else "collapsed_forwarding on\n") + LOGFMT + \
            "access_log stdio:{W}/access-${process_number}.log vf\n"
        sq = Squid(a.work, conf=conf, smp=smp, cache_dirs=dirs, access_log="", debug=os.environ.get("C18_DEBUG", "ALL,1"))
        outs = {}
        try:
            sq.start()
            sem = threading.Semaphore(3)      # few concurrent bursts: keeps squid's reaction time small

            def guarded(c):
                with sem:
                    res.case({"case": c["n"], "cfg": c["cfg"], "k": c["k"], "len": c["len"], "offsets": c["offsets"][:6]} if c["n"] % 29 == 0 else None)
                    outs[c["n"]] = one_burst(sq, c, kind)

            ths = [threading.Thread(target=guarded, args=(c,), daemon=True) for c in mine]
            for t in ths:
                t.start()
            for t in ths:
                t.join(300)
            time.sleep(0.3)
            health_events(sq, HealthFilter(res, sq), judge=True, witness={"seed": a.seed, "cfg": cfg})
            if not sq.alive():
                res.violation("crash:squid-exited", f"cfg={cfg}: squid exited during the workload: " + sq.tail_log(), {"seed": a.seed, "cfg": cfg})
        finally:
            sq.stop()
        health_events(sq, HealthFilter(res, sq), judge=True, witness={"seed": a.seed, "cfg": cfg})
        started, kids = read_logs(sq)       # after the stop: every access.log line is flushed
        if smp:
            res.count(f"workers_that_served:{cfg}", len(kids))
        for c in mine:
            if c["n"] in outs:
                judge_burst(c, kind, outs[c["n"]], started)

    errors = []
    todo = [cfg for cfg in ORDER if any(c["cfg"] == cfg for c in cases)]
    todo_lock = threading.Lock()

    def lane():
        while True:
            with todo_lock:
                if not todo:
                    return
                cfg = todo.pop(0)
            try:
                run_config(cfg)
            except Exception:
                import traceback
                errors.append(cfg + ": " + traceback.format_exc()[-1500:])

    try:
        lanes = [threading.Thread(target=lane, daemon=True) for _ in range(2)]    # two squid instances at a time
        for t in lanes:
            t.start()
        for t in lanes:
            t.join()
    finally:
        org.stop()
    if errors:
        raise RuntimeError("instance(s) failed:\n" + "\n".join(errors))
    res.count("origin_requests", org.count())
    if not a.replay_data and totals["judged_inside"] < max(3, len(cases)):
        res.inconclusive.append(f"only {totals['judged_inside']} requests fell strictly inside a fetch window")


if __name__ == "__main__":
    base.main_wrapper("C18", run)
