#!/usr/bin/python3
"""C06 CONNECT tunnels relay both directions unchanged (DESIGN 5.1).

Every case has its own raw TCP target stub (own listening port = unambiguous identity). Client sends CONNECT (optionally
with early tunnel bytes in the same segment, optionally without waiting for the 200), then both sides exchange PRNG binary
payloads with PRNG segmentation, pauses and slow readers. Close orders:
  client_first  : the target never closes before it has seen the end of the stream; the client sends all of C and ends
                  (FIN + drain, or plain close when it cannot have unread inbound data)
  server_first  : mirror image
  simultaneous  : both FIN after sending and drain (no completeness obligation: each side "closed")
Oracle: the client's bytes after the strictly parsed 200 head are a prefix of S (nothing inserted, nothing changed);
the target's bytes are a prefix of what the client sent after the CONNECT head; the side that did not close first receives
the closer's COMPLETE stream and then the end of the connection. A stall is re-run once; only a reproduced stall counts."""
import os, random, socket, threading, time, select
from lab import base, httpref
from lab.lab import Lab, run_cases
from lab.x_relay import start_lab

LIVENESS = os.environ.get("VERIF_LIVENESS", "")
SIZES = [0, 1, 2, 100, 1000, 4095, 4096, 4097, 16383, 16384, 16385, 32768, 65535, 65536, 65537, 100000, 262144]
IO_TIMEOUT = 25.0


def gen_case(seed, n, tier="quick"):
    r = random.Random(f"C06:{seed}:{n}")
    c = {"n": n, "seed": seed}
    big = [1048577, 2 * 1024 * 1024] if tier == "thorough" else [1048577]
    pick = lambda: r.choice(SIZES + SIZES + big + [r.randrange(0, 70000)])
    c["clen"] = pick()
    c["slen"] = pick()
    c["order"] = r.choice(["client_first", "server_first", "client_first", "server_first", "simultaneous"])
    c["end_kind"] = r.choice(["fin", "fin", "close"])
    # quiet: the closing side ends only after it has RECEIVED the peer's whole payload (peer is silent afterwards), so
    # squid's close of the other side cannot be turned into a TCP reset by still-arriving data. busy: it ends right after
    # its last byte while the peer may still be sending (TCP may then legitimately destroy data: prefix-only oracle)
    c["quiet"] = r.random() < 0.7
    c["early"] = r.choice([0, 0, 1, 7, 100, 5000, 10 ** 9])       # tunnel bytes sent in the same write as the CONNECT head
    c["wait200"] = r.random() < 0.6                                # wait for the 200 before sending the rest
    c["server_speaks_first"] = r.random() < 0.5
    c["c_nseg"] = r.choice([1, 1, 2, 5, 20])
    c["s_nseg"] = r.choice([1, 1, 2, 5, 20])
    c["c_delay"] = r.choice([0, 0, 0.001, 0.01])
    c["s_delay"] = r.choice([0, 0, 0.001, 0.01])
    c["c_read_delay"] = r.choice([0, 0, 0, 0.2])                  # slow reader: fill squid's buffers first
    c["s_read_delay"] = r.choice([0, 0, 0, 0.2])
    c["seg_seed"] = r.randrange(1 << 30)
    c["head_split"] = r.random() < 0.2
    c["http10"] = r.random() < 0.15
    return c


def payload(tag, c, n):
    return random.Random(f"C06:{tag}:{c['seed']}:{c['n']}").randbytes(n)


def cuts(r, total, nseg):
    if total <= 1 or nseg <= 1:
        return [total]
    pts = sorted({r.randrange(1, total) for _ in range(nseg - 1)})
    return pts + [total]


class Side:
    """one endpoint of the tunnel: concurrent sender thread + receive loop, everything recorded"""
    def __init__(self, sock, name):
        self.sock = sock
        self.name = name
        self.sent = bytearray()
        self.rcvd = bytearray()
        self.end = None          # 'eof' | 'reset' | 'timeout' | 'error'
        self.send_err = None
        self.sender = None
        self.self_closed = False
        self.expect_total = None          # length of the peer's whole payload
        self.got_all = threading.Event()  # set once expect_total bytes are in

    def note_progress(self):
        if self.expect_total is not None and len(self.rcvd) >= self.expect_total:
            self.got_all.set()

    def start_sender(self, data, segs, delay, then=None):
        def run():
            pos = 0
            try:
                for cut in segs:
                    while pos < cut:
                        k = self.sock.send(data[pos:min(cut, pos + 262144)])     # exact accounting of what the kernel accepted
                        self.sent += data[pos:pos + k]
                        pos += k
                    if delay:
                        time.sleep(delay)
            except (OSError, ValueError) as e:
                self.send_err = repr(e)
            if then:
                then()
        self.sender = threading.Thread(target=run, daemon=True)
        self.sender.start()

    def recv_until_end(self, want=None, timeout=IO_TIMEOUT):
        """read until the peer ends the stream (or `want` total bytes are in). Returns True if ended/satisfied."""
        deadline = time.time() + timeout
        while True:
            self.note_progress()
            if want is not None and len(self.rcvd) >= want:
                return True
            left = deadline - time.time()
            if left <= 0:
                self.end = "timeout"
                return False
            try:
                r, _, _ = select.select([self.sock], [], [], min(left, 1.0))
            except (OSError, ValueError):
                self.end = "closed-self" if self.self_closed else "error"
                return True
            if not r:
                continue
            try:
                b = self.sock.recv(262144)
            except ConnectionResetError:
                self.end = "reset"
                return True
            except (OSError, ValueError):
                self.end = "closed-self" if self.self_closed else "error"
                return True
            if not b:
                self.end = "eof"
                return True
            self.rcvd += b
            deadline = time.time() + timeout     # progress resets the watchdog

    def fin(self):
        try:
            self.sock.shutdown(socket.SHUT_WR)
        except OSError:
            pass

    def close(self):
        try:
            self.sock.close()
        except OSError:
            pass


def first_diff(x, y):
    for i in range(min(len(x), len(y))):
        if x[i] != y[i]:
            return i
    return min(len(x), len(y))


def run(a, res):
    tier = a.tier
    lab = start_lab(a, res, handler=None, conf="", debug=os.environ.get("VERIF_SQUID_DEBUG", "ALL,1"))
    wit = lambda c: {"seed": c["seed"], "case": c["n"]}

    def attempt(c):
        """returns (outcome, detail). outcome: ok | refused | stall | violation"""
        r = random.Random(c["seg_seed"])
        C = payload("c", c, c["clen"])
        S = payload("s", c, c["slen"])
        ls = socket.socket(socket.AF_INET, socket.SOCK_STREAM)
        ls.bind(("127.0.0.1", 0))
        ls.listen(4)
        port = ls.getsockname()[1]
        ls.settimeout(IO_TIMEOUT)
        srv = {"side": None, "accepted": 0, "err": None}
        order = c["order"]
        quiet = c["quiet"] and order != "simultaneous"
        # plain close() is only sound when the closer cannot have unread inbound data (otherwise its kernel sends RST,
        # and an RST may legitimately destroy data in flight): only in quiet mode
        c_end = c["end_kind"] if quiet else "fin"
        s_end = c["end_kind"] if quiet else "fin"
        stalled = []

        def server():
            try:
                s, _ = ls.accept()
            except OSError as e:
                srv["err"] = repr(e)
                return
            srv["accepted"] += 1
            s.settimeout(IO_TIMEOUT)
            s.setsockopt(socket.IPPROTO_TCP, socket.TCP_NODELAY, 1)
            side = Side(s, "server")
            side.expect_total = len(C)
            srv["side"] = side
            if not c["server_speaks_first"] and C:
                side.recv_until_end(want=1)
            def s_then():
                # end our direction as soon as S is out (server_first / simultaneous); client_first: never end first
                if order != "client_first":
                    if quiet and not side.got_all.wait(IO_TIMEOUT):
                        stalled.append(f"target sent all of S but received only {len(side.rcvd)}/{len(C)} client bytes within the watchdog")
                        return
                    if s_end == "close":
                        side.self_closed = True
                        side.close()
                    else:
                        side.fin()

            side.start_sender(S, cuts(random.Random(c["seg_seed"] + 1), len(S), c["s_nseg"]), c["s_delay"], then=s_then)
            if c["s_read_delay"]:
                time.sleep(c["s_read_delay"])
            side.recv_until_end()           # always reading while sending: no harness-made deadlock
            side.sender.join(IO_TIMEOUT)
            side.close()
            srv["finished"] = True

        st = threading.Thread(target=server, daemon=True)
        st.start()
        try:
            sock = socket.create_connection(("127.0.0.1", lab.sq.port), timeout=IO_TIMEOUT)
        except OSError:
            ls.close()
            res.count("connect_failed")
            return "refused", "cannot connect to squid"
        sock.setsockopt(socket.IPPROTO_TCP, socket.TCP_NODELAY, 1)
        ver = "HTTP/1.0" if c["http10"] else "HTTP/1.1"
        head = f"CONNECT 127.0.0.1:{port} {ver}\r\nHost: 127.0.0.1:{port}\r\nX-Verif-Req: {c['seed']}.{c['n']}\r\n\r\n".encode()
        early = C[:min(c["early"], len(C))]
        cl = Side(sock, "client")
        first = head + early
        try:
            if c["head_split"]:
                k = r.randrange(1, len(head))
                sock.sendall(first[:k])
                time.sleep(0.01)
                sock.sendall(first[k:])
            else:
                sock.sendall(first)
        except OSError as e:
            ls.close()
            return "refused", "send failed " + repr(e)
        cl.sent += early
        rest = C[len(early):]
        started = [False]

        got200 = threading.Event()

        def c_then():
            # never end before the 200 was seen: the statement starts "after Squid answers a CONNECT with 200"
            got200.wait(IO_TIMEOUT)
            if order != "server_first" and got200.is_set():
                if quiet and not cl.got_all.wait(IO_TIMEOUT):
                    stalled.append(f"client sent all of C but received only {len(cl.rcvd)}/{len(S)} target bytes within the watchdog")
                    return
                if c_end == "close":
                    cl.self_closed = True
                    cl.close()
                else:
                    cl.fin()

        def start_rest():
            if not started[0]:
                started[0] = True
                cl.start_sender(rest, cuts(random.Random(c["seg_seed"] + 2), len(rest), c["c_nseg"]), c["c_delay"], then=c_then)

        if not c["wait200"]:
            start_rest()
        # ---- read the response head strictly
        deadline = time.time() + IO_TIMEOUT
        hd = None
        while True:
            try:
                hd = httpref.parse_head(bytes(cl.rcvd), True)
                break
            except httpref.Incomplete:
                pass
            except httpref.Strict as e:
                start_rest(); ls.close(); cl.close()
                res.violation("connect-response-invalid", f"response to CONNECT does not parse strictly: {e}; raw={bytes(cl.rcvd[:200])!r}", wit(c))
                return "violation", None
            if cl.end or time.time() > deadline:
                break
            rr, _, _ = select.select([sock], [], [], 1.0)
            if rr:
                try:
                    b = sock.recv(262144)
                except OSError:
                    cl.end = "reset"
                    break
                if not b:
                    cl.end = "eof"
                    break
                cl.rcvd += b
        if hd is None:
            ls.close(); cl.close()
            if cl.end:
                res.count("closed_before_connect_response")
                return "refused", "closed before response"
            return "stall", "no response to CONNECT within the watchdog"
        status = hd[0][0]
        head_len = hd[2]
        if status != 200:
            ls.close(); cl.close()
            res.count(f"connect_status_{status}")
            return "refused", f"status {status}"
        del cl.rcvd[:head_len]          # everything after the head is tunnel payload
        cl.expect_total = len(S)
        cl.note_progress()
        got200.set()
        start_rest()
        if c["c_read_delay"]:
            time.sleep(c["c_read_delay"])
        cl.recv_until_end()
        cl.sender.join(IO_TIMEOUT)
        cl.close()
        st.join(timeout=IO_TIMEOUT + 5)
        ls.close()
        sv = srv["side"]
        if sv is None:
            res.count("target_never_accepted")
            return "stall", "squid said 200 but never connected to the target"
        if st.is_alive():
            return "stall", f"target side did not finish (server end={sv.end}, got {len(sv.rcvd)}/{len(C)}; client end={cl.end}, got {len(cl.rcvd)}/{len(S)})"

        # ------------------------------------------------------------------ oracle
        csent = bytes(cl.sent)
        ssent = bytes(sv.sent)
        crcvd = bytes(cl.rcvd)
        srcvd = bytes(sv.rcvd)
        if LIVENESS == "flip" and ssent:
            ssent = ssent[:-1] + bytes([ssent[-1] ^ 1])
        if LIVENESS == "early" and early:
            csent = csent[1:]
        bad = False
        if not ssent.startswith(crcvd):
            k = first_diff(crcvd, ssent)
            res.violation("client-stream-differs", f"after the 200 head the client received {len(crcvd)} bytes that are not a prefix of the {len(ssent)} bytes the target sent "
                                                   f"(first diff at {k}: got {crcvd[k:k + 24]!r}, sent {ssent[k:k + 24]!r}); order={order}", wit(c))
            bad = True
        if not csent.startswith(srcvd):
            k = first_diff(srcvd, csent)
            res.violation("server-stream-differs", f"the target received {len(srcvd)} bytes that are not a prefix of the {len(csent)} bytes the client sent after the CONNECT head "
                                                   f"(first diff at {k}: got {srcvd[k:k + 24]!r}, sent {csent[k:k + 24]!r}); early={len(early)} wait200={c['wait200']}", wit(c))
            bad = True
        if stalled and not bad:
            return "stall", "; ".join(stalled) + f"; order={order}"
        if "timeout" in (cl.end, sv.end):
            return ("violation" if bad else "stall"), f"stream did not end: client end={cl.end} got {len(crcvd)}/{len(S)}; server end={sv.end} got {len(srcvd)}/{len(C)}; order={order}"
        if bad:
            return "violation", None
        res.count("bytes_client_to_server", len(srcvd))
        res.count("bytes_server_to_client", len(crcvd))
        if early:
            res.count("cases_with_early_bytes")
        if order != "simultaneous" and not quiet:
            lost = (len(srcvd) < len(csent)) if order == "client_first" else (len(crcvd) < len(ssent))
            res.count("busy_close_" + ("tail_lost" if lost else "complete"))
            if lost:
                # the peer was still sending when the closer ended: squid closes the peer's connection with unread/arriving
                # data, TCP turns that into a reset and may drop squid's queued bytes. Not settled by the statement's text.
                res.grey("tail-lost-while-peer-still-sending")
        elif order == "client_first":
            if cl.send_err is None and len(csent) == len(C) and len(srcvd) < len(C):
                res.violation("client-tail-lost-on-client-close", f"client received all of S, sent all {len(C)} bytes, then ended ({c_end}); target saw the end ({sv.end}) after only {len(srcvd)} bytes; "
                                                                  f"S={len(S)} delivered {len(crcvd)}; target port {port}", wit(c))
                return "violation", None
            res.count("complete_client_to_server")
        elif order == "server_first":
            if sv.send_err is None and len(ssent) == len(S) and len(crcvd) < len(S):
                res.violation("server-tail-lost-on-server-close", f"target received all of C, sent all {len(S)} bytes, then ended ({s_end}); client saw the end ({cl.end}) after only {len(crcvd)} bytes; "
                                                                  f"C={len(C)} delivered {len(srcvd)}; target port {port}", wit(c))
                return "violation", None
            res.count("complete_server_to_client")
        else:
            full_c = len(srcvd) == len(C)
            full_s = len(crcvd) == len(S)
            res.count("simultaneous_" + ("both_complete" if full_c and full_s else "one_complete" if full_c or full_s else "both_truncated"))
            if not (full_c or full_s):
                res.grey("simultaneous-close-both-directions-truncated")
        return "ok", (cl.end, sv.end)

    # ---- long one-way flows against a squid with a short read_timeout: while bytes keep moving in ONE direction (gaps far
    # below the timeout) the tunnel must stay up, although the other direction is silent for longer than the timeout
    READ_TIMEOUT = 3
    lab2 = start_lab(a, res, handler=None, conf=f"read_timeout {READ_TIMEOUT} seconds\n")

    def longflow(c, direction):
        """returns (outcome, detail): ok | skip | violation-candidate"""
        data = payload("lf", c, 60 * 400)
        ls = socket.socket(socket.AF_INET, socket.SOCK_STREAM)
        ls.bind(("127.0.0.1", 0)); ls.listen(2); ls.settimeout(IO_TIMEOUT)
        port = ls.getsockname()[1]
        st = {"srv": None}

        def acc():
            try:
                st["srv"], _ = ls.accept()
            except OSError:
                pass
        th = threading.Thread(target=acc, daemon=True); th.start()
        try:
            sock = socket.create_connection(("127.0.0.1", lab2.sq.port), timeout=IO_TIMEOUT)
            sock.sendall(f"CONNECT 127.0.0.1:{port} HTTP/1.1\r\nHost: 127.0.0.1:{port}\r\nX-Verif-Req: {c['seed']}.{c['n']}.lf\r\n\r\n".encode())
            buf = b""
            while b"\r\n\r\n" not in buf:
                b = sock.recv(4096)
                if not b:
                    break
                buf += b
        except OSError as e:
            ls.close()
            return "skip", "connect: " + repr(e)
        th.join(IO_TIMEOUT)
        srv = st["srv"]
        ls.close()
        if srv is None or not buf.startswith(b"HTTP/1.1 200"):
            sock.close()
            return "skip", "no tunnel"
        tx, rx = (sock, srv) if direction == "c2s" else (srv, sock)
        got = bytearray()
        rx_end = []

        def reader():
            rx.settimeout(IO_TIMEOUT)
            try:
                while True:
                    b = rx.recv(65536)
                    if not b:
                        rx_end.append("eof"); return
                    got.extend(b)
            except ConnectionResetError:
                rx_end.append("reset")
            except OSError as e:
                rx_end.append("error:" + repr(e))
        rt = threading.Thread(target=reader, daemon=True); rt.start()
        sent = 0
        max_gap = 0.0
        err = None
        last = time.time()
        for i in range(60):                       # 60 x 400 bytes, one piece every 0.12 s: about 7 s > 2 x read_timeout
            try:
                tx.sendall(data[i * 400:(i + 1) * 400])
            except OSError as e:
                err = repr(e)
                break
            now = time.time()
            max_gap = max(max_gap, now - last)
            last = now
            sent += 400
            time.sleep(0.12)
        max_gap = max(max_gap, time.time() - last)
        try:
            tx.shutdown(socket.SHUT_WR)
        except OSError:
            pass
        rt.join(IO_TIMEOUT)
        for x in (sock, srv):
            try:
                x.close()
            except OSError:
                pass
        if max_gap > READ_TIMEOUT / 2.0:
            return "skip", f"sender stalled for {max_gap:.1f}s (machine load): not judged"
        if bytes(got) != data[:len(got)]:
            return "violation", f"{direction}: receiver got {len(got)} bytes that are not a prefix of the stream"
        if err is not None or len(got) < len(data):
            return "violation", (f"{direction}: one-way flow of {len(data)} bytes in 400-byte pieces every 0.12 s (largest gap {max_gap:.2f}s, read_timeout {READ_TIMEOUT}s, other direction silent): "
                                 f"sender error={err} after {sent} bytes, receiver got {len(got)} bytes then {rx_end}; neither endpoint had closed")
        return "ok", None

    def one_longflow(c):
        direction = "c2s" if (c["n"] // 100) % 2 == 0 else "s2c"
        outcome, detail = longflow(c, direction)
        if outcome == "violation":
            res.count("longflow_first_attempt_failed")
            outcome, detail = longflow(c, direction)
            if outcome == "violation":
                res.violation("tunnel-closed-while-one-way-flow-continues:" + direction, detail + "; reproduced on re-run", wit(c))
                return
        res.count("longflow_" + outcome)
        if outcome == "skip":
            res.note("longflow not judged: " + str(detail))
        else:
            res.feature("longflow", direction, outcome)

    def one(c):
        if c["n"] % 100 == 7 and not os.environ.get("C06_NO_LONGFLOW"):
            one_longflow(c)
        outcome, detail = attempt(c)
        if outcome == "stall":
            res.count("stall_first_attempt")
            outcome, detail2 = attempt(c)
            if outcome == "stall":
                res.violation("hang:tunnel-stalled", f"{detail2}; reproduced on re-run; clen={c['clen']} slen={c['slen']} order={c['order']} early={c['early']}", wit(c))
                return
            detail = detail2
        if outcome == "refused":
            res.count("not_tunnelled")
            res.feature("refused", str(detail)[:20], nontrivial=False)
            return
        if outcome == "ok":
            res.count("tunnels_judged")
            res.feature(c["order"], c["quiet"], c["end_kind"], min(c["clen"], 300000) // 32768, min(c["slen"], 300000) // 32768, min(c["early"], 101), c["wait200"],
                        c["server_speaks_first"], detail)

    def gen(seed, n):
        return gen_case(seed, n, tier)

    try:
        run_cases(a, res, gen, one, threads=8)
    finally:
        lab.finish()
        lab2.finish()
    if not a.replay_data:
        if res.counters.get("tunnels_judged", 0) < max(1, a.cases // 2):
            res.inconclusive.append("fewer than half of the CONNECT cases produced a judged tunnel")
        if a.cases >= 40 and not res.counters.get("cases_with_early_bytes"):
            res.inconclusive.append("no case with early client bytes")


if __name__ == "__main__":
    base.main_wrapper("C06", run)
