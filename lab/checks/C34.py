#!/usr/bin/python3
"""C34 Each transaction yields exactly one well-delimited log record (DESIGN 5.1) -- end-to-end part.

Six stdio access logs with custom logformats, one per quoting modifier (" [ # / default '), all logging the same
transactions.  Clients send hostile header values, URLs, methods and Basic user names, in single / keep-alive / pipelined /
aborted / partial / bare-connect transactions.  After shutdown (flush) every log file is judged:
  * line count == number of finished client transactions (each line begins with the REC sentinel);
  * every req id occurs in at most one record, ids of transactions whose headers Squid parsed occur exactly once, no
    record carries an id no client sent;
  * every record parses, under its quoting's grammar, into exactly the configured fields between fixed sentinels;
  * unquoting the X-Verif-H1/H2 header fields gives the bytes the client sent (outer SP/HTAB trimmed), for the four
    reversible quotings; %un / %rm likewise when the transaction was authenticated / parsed; all reversible quotings of
    one transaction decode to identical bytes for every field.
"""
import base64, os, random, re, threading, time
from lab import base, httpref
from lab.lab import Lab, run_cases, Resp, Conn, request_bytes

AUTH_HELPER = """#!/usr/bin/python3
import sys, urllib.parse
for line in sys.stdin:
    p = line.rstrip("\\n").split(" ")
    pw = urllib.parse.unquote(p[1]) if len(p) > 1 else ""
    sys.stdout.write("OK\\n" if pw == "ok" else "ERR\\n")
    sys.stdout.flush()
"""

FIELDS = ["h1", "h2", "ru", "un", "rm"]
WS = b" \t\x0b\x0c\r"     # what Squid's field-value trimming (xisspace) removes at either end

LOGFORMATS = """
logformat vq REC %{X-Verif-Req}>h h1=|"%"{X-Verif-H1}>h"| h2=|"%"{X-Verif-H2}>h"| ru=|"%"ru"| un=|"%"un"| rm=|"%"rm"| st=%>Hs END
logformat vm REC %{X-Verif-Req}>h h1=|[%[{X-Verif-H1}>h]| h2=|[%[{X-Verif-H2}>h]| ru=|[%[ru]| un=|[%[un]| rm=|[%[rm]| all=|[%[>h]| st=%>Hs END
logformat vu REC %{X-Verif-Req}>h h1= %#{X-Verif-H1}>h h2= %#{X-Verif-H2}>h ru= %#ru un= %#un rm= %#rm st=%>Hs END
logformat vs REC %{X-Verif-Req}>h h1= %/{X-Verif-H1}>h h2= %/{X-Verif-H2}>h ru= %/ru un= %/un rm= %/rm st=%>Hs END
logformat vd REC %{X-Verif-Req}>h h1= %{X-Verif-H1}>h h2= %{X-Verif-H2}>h ru= %ru cru= %>ru rm= %rm st=%>Hs END
logformat vr REC %{X-Verif-Req}>h h1=|%'{X-Verif-H1}>h| un=|%'un| dun=|%un| ru=%'ru st=%>Hs END
access_log stdio:{W}/log_q.log vq
access_log stdio:{W}/log_m.log vm
access_log stdio:{W}/log_u.log vu
access_log stdio:{W}/log_s.log vs
access_log stdio:{W}/log_d.log vd
access_log stdio:{W}/log_r.log vr
access_log stdio:{W}/log_b.log squid
log_mime_hdrs on
"""

Q = r'((?:[^"\\\r\n]|\\.)*)'
M = r'([^\[\]\r\n]*)'
U = r'([^ \r\n]*)'
S = r'("(?:[^"\\\r\n]|\\.)*"|(?:[^ "\\\r\n]|\\.)*)'
ID = r'(\S+)'
GRAMMAR = {
    "q": re.compile(rf'REC {ID} h1=\|"{Q}"\| h2=\|"{Q}"\| ru=\|"{Q}"\| un=\|"{Q}"\| rm=\|"{Q}"\| st=(\d+) END'.encode()),
    "m": re.compile(rf'REC {ID} h1=\|\[{M}\]\| h2=\|\[{M}\]\| ru=\|\[{M}\]\| un=\|\[{M}\]\| rm=\|\[{M}\]\| all=\|\[{M}\]\| st=(\d+) END'.encode()),
    "u": re.compile(rf'REC {ID} h1= {U} h2= {U} ru= {U} un= {U} rm= {U} st=(\d+) END'.encode()),
    "s": re.compile(rf'REC {ID} h1= {S} h2= {S} ru= {S} un= {S} rm= {S} st=(\d+) END'.encode()),
    "d": re.compile(rf'REC {ID} h1= {U} h2= {U} ru= {U} cru= {U} rm= {U} st=(\d+) END'.encode()),
}


class BadQuote(Exception):
    pass


def unq_q(b):
    out = bytearray()
    i = 0
    while i < len(b):
        c = b[i]
        if c == 0x5c:
            if i + 1 >= len(b):
                raise BadQuote("dangling backslash")
            n = b[i + 1]
            out.append({0x72: 13, 0x6e: 10, 0x74: 9}.get(n, n))
            i += 2
        else:
            if c in (9, 10, 13, 0x22):
                raise BadQuote("raw %r inside quoted-string" % chr(c))
            out.append(c)
            i += 1
    return bytes(out)


def _hex2(b, i):
    h = b[i + 1:i + 3]
    if len(h) != 2 or not re.fullmatch(rb"[0-9A-Fa-f]{2}", h):
        raise BadQuote("percent not followed by two hex digits")
    return int(h, 16)


def unq_m(b):
    out = bytearray()
    i = 0
    while i < len(b):
        c = b[i]
        if c == 0x25:
            out.append(_hex2(b, i))
            i += 3
        elif c == 0x5c:
            if i + 1 >= len(b) or b[i + 1] not in (0x5c, 0x72, 0x6e):
                raise BadQuote("unknown backslash escape in mime blob")
            out.append({0x5c: 0x5c, 0x72: 13, 0x6e: 10}[b[i + 1]])
            i += 2
        else:
            if c < 0x20 or c >= 0x7f or c in b"[]":
                raise BadQuote("raw byte %#x inside mime blob" % c)
            out.append(c)
            i += 1
    return bytes(out)


def unq_u(b):
    out = bytearray()
    i = 0
    while i < len(b):
        c = b[i]
        if c == 0x25:
            out.append(_hex2(b, i))
            i += 3
        else:
            if c <= 0x20 or c >= 0x7f:
                raise BadQuote("raw byte %#x inside URL-encoded field" % c)
            out.append(c)
            i += 1
    return bytes(out)


def unq_s(b):
    quoted = b[:1] == b'"'
    if quoted:
        if len(b) < 2 or b[-1:] != b'"':
            raise BadQuote("unterminated shell quote")
        b = b[1:-1]
    out = bytearray()
    i = 0
    while i < len(b):
        c = b[i]
        if c == 0x5c:
            if i + 1 >= len(b):
                raise BadQuote("dangling backslash")
            n = b[i + 1]
            out.append({0x72: 13, 0x6e: 10}.get(n, n))
            i += 2
        else:
            if c in (10, 13, 0x22) or (c == 0x20 and not quoted):
                raise BadQuote("raw %r in shell word" % chr(c))
            out.append(c)
            i += 1
    return bytes(out)


def pct_lenient(b):
    return re.sub(rb"%([0-9A-Fa-f]{2})", lambda m: bytes([int(m.group(1), 16)]), b)


UNQ = {"q": unq_q, "m": unq_m, "u": unq_u, "s": unq_s}

SPICE = [b'"', b"\\", b"[", b"]", b"%", b"|", b"#", b"'", b" ", b"\t", b"\\n", b"\\r", b"\\t", b"%0a", b"%0d%0a", b"%5D", b" END", b'"| h2=|"x', b"]| h2=|[x",
         b" h2= x", b"REC fake", b"\x7f", b"\x80", b"\xff", b"\x01", b"\x1b[31m", b"\x0b", b"\x0c", b"-", b"\\\"", b"\\\\", b";", b"<", b">", b"{", b"}", b"^", b"~", b"`", b"\xc3\xa9"]


def hostile(r, maxlen=60, allow_ctl=True):
    n = r.choice([0, 1, 2, 5, 12, 30, maxlen])
    out = bytearray()
    for _ in range(n):
        k = r.random()
        if k < 0.45:
            s = r.choice(SPICE)
            if not allow_ctl and any(c < 0x20 or c == 0x7f for c in s):
                s = b"_"
            out += s
        elif k < 0.8:
            out += bytes([r.choice(b"abcXYZ019.,:=/_")])
        else:
            c = r.randrange(1, 256)
            if c in (10, 13) or (not allow_ctl and (c < 0x20 or c == 0x7f)):
                c = 0x2e
            out.append(c)
    return bytes(out)


def gen_case(seed, n):
    r = random.Random(f"C34:{seed}:{n}")
    c = {"n": n, "seed": seed, "rs": r.randrange(1 << 30)}
    c["shape"] = r.choice(["single"] * 8 + ["keepalive"] * 3 + ["pipeline"] * 2 + ["bare", "partial", "abort", "abort", "lfinject", "lfinject", "garbage", "connect", "crvalue", "long"])
    return c


def b64(b):
    return base64.b64encode(b).decode()


def run(a, res):
    def handler(req):
        if "/slow/" in req.target:
            time.sleep(0.4)
        return Resp(200, length=20)

    helper = os.path.join(a.work, "auth34.py")
    open(helper, "w").write(AUTH_HELPER)
    os.chmod(helper, 0o755)
    conf = f"""
cache deny all
auth_param basic program {helper}
auth_param basic children 4
auth_param basic realm verif
auth_param basic casesensitive on
acl authed proxy_auth REQUIRED
acl p_auth urlpath_regex ^/auth/
acl p_deny urlpath_regex ^/deny/
acl CONNECT method CONNECT
http_access deny p_deny
http_access deny p_auth !authed
"""
    lab = Lab(a, res, handler=handler, conf=conf + LOGFORMATS, access_log="", start=False)
    for q in "qmusdrb":
        try:
            os.unlink(f"{lab.sq.work}/log_{q}.log")
        except OSError:
            pass
    lab.sq.start()
    sent = {}          # req id -> dict(h1, h2, user, method, status, certain)
    slock = threading.Lock()
    # expected record counts. n: records of requests Squid answered/aborted (exact); t: 'error:transaction-end-before-headers'
    # records of connections that ended before a request head was complete (exact); either: one record of either class;
    # n_slack / t_slack: records that may or may not exist (grey situations explained at the call sites)
    totals = {"n": 0, "t": 1, "either": 0, "n_slack": 0, "t_slack": 0}      # t=1: the start-up readiness probe of squidproc
    oport = lab.org.port

    def add_expected(**kw):
        with slock:
            for k, v in kw.items():
                totals[k] += v

    def build(c, r, k, kind=None, h1=None):
        """one request: returns (req id, bytes, record dict)"""
        rid = f"{c['seed']}.{c['n']}.{k}"
        kind = kind or r.choice(["plain", "plain", "plain", "auth_ok", "auth_bad", "deny"])
        p = {"plain": "x", "auth_ok": "auth", "auth_bad": "auth", "deny": "deny"}[kind]
        ptail = "".join(r.choice(["a", "b", "%22", "%0a", "%0d%0a", "%7C", "|", "[", "]", "'", "\"", "%20END", "%5C", "\\", "<", "^", "{", "%", "%25", "\x80", "\xe9"]) for _ in range(r.randrange(0, 8)))
        url = f"http://127.0.0.1:{oport}/{p}/{c['n']}/{k}/{ptail}"
        method = r.choice(["GET", "GET", "GET", "POST", "HEAD", "PUT", "OPTIONS", "V'E&R|I~F", "X" * r.choice([1, 40, 300]), "a#b$c%d", "DELETE"])
        if method == "OPTIONS":
            method = "GET"
        v1 = hostile(r) if h1 is None else h1
        v2 = hostile(r, maxlen=r.choice([60, 400, 1500, 5000]))
        if random.Random(f"C34:big:{rid}").random() < 0.02:
            # a header block whose quoted form is larger than the log module's buffer (64 KB): built-in formats with
            # log_mime_hdrs write such a record in more than one piece
            v2 = b"%" * random.Random(f"C34:bigl:{rid}").choice([23000, 30000, 40000])
            res.count("big_header_requests")
        rec = {"h1": v1.strip(WS), "h2": v2.strip(WS), "method": method.encode(), "kind": kind, "user": None}
        hs = [("X-Verif-Req", rid), ("X-Verif-H1", None), ("X-Verif-H2", None)]
        if kind in ("auth_ok", "auth_bad"):
            user = hostile(r, maxlen=20).replace(b":", b";")
            if not user:
                user = b"u"
            rec["user"] = user
            hs.append(("Proxy-Authorization", "Basic " + b64(user + b":" + (b"ok" if kind == "auth_ok" else b"bad"))))
        r.shuffle(hs)
        body = b""
        if method in ("POST", "PUT"):
            hs.append(("Content-Length", "3"))
            body = b"abc"
        head = f"{method} {url} HTTP/1.1\r\nHost: 127.0.0.1:{oport}\r\n".encode("latin1")
        for k_, v_ in hs:
            if k_ == "X-Verif-H1":
                head += b"X-Verif-H1: " + v1 + b"\r\n"
            elif k_ == "X-Verif-H2":
                head += b"X-Verif-H2:" + r.choice([b"", b" ", b"\t ", b"  "]) + v2 + r.choice([b"", b" ", b"\t"]) + b"\r\n"
            else:
                head += f"{k_}: {v_}\r\n".encode()
        return rid, head, body, rec, method

    def register(rid, rec, m):
        rec["status"] = m.status if (m is not None and m.start is not None) else None
        with slock:
            sent[rid] = rec

    def one(c):
        r = random.Random(c["rs"])
        shape = c["shape"]
        try:
            conn = lab.conn(timeout=20)
        except OSError:
            res.count("connect_failed")
            add_expected(t_slack=1)
            return
        try:
            if shape == "bare":
                time.sleep(0.02)
                conn.close()
                add_expected(t=1)
                res.feature("bare")
                return
            if shape == "partial":
                rid, head, body, rec, method = build(c, r, 0)
                cut = r.randrange(1, len(head))
                conn.send(head[:cut])
                time.sleep(0.1)
                conn.close()
                add_expected(either=1)
                rec["partial"] = True
                rec["status"] = None
                with slock:
                    sent[rid] = rec
                res.feature("partial", cut < 20)
                return
            if shape == "garbage":
                gi = r.randrange(5)
                g = [b"\x16\x03\x01\x02\x00\x01\x00\x01\xfc\x03\x03" + hostile(r).replace(b" ", b"_") + b"\r\n\r\n", b"GET\r\n\r\n", b"REC fake - END\r\n\r\n", hostile(r) + b" / HTTP/1.1\r\n\r\n",
                     b"GET http://127.0.0.1:%d/x/ HTTP/1.1 REC fake\r\nHost: x\r\n\r\n" % oport][gi]
                conn.send(g)
                m = conn.read_response("GET", timeout=10)
                conn.close()
                # Squid may read the bytes as an HTTP/0.9 request line followed by left-over bytes that it logs as a second,
                # never-completed transaction (grey: HTTP/0.9): one or two records
                add_expected(n=1, t_slack=1 if gi >= 3 else 0)
                res.feature("garbage", gi, m.status)
                return
            if shape == "lfinject":
                # a raw LF inside a "value" is two header lines; the second has no colon (or is a forged header)
                rid, head, body, rec, method = build(c, r, 0, kind="plain", h1=b"a" + r.choice([b"\n", b"\r\n"]) + r.choice([b"REC fake - END", b"REC " + f"{c['seed']}.{c['n']}.9".encode() + b" h1=|\"x\"| END", b"REC fake: END"]))
                conn.send(head + b"Connection: close\r\n\r\n" + body)
                m = conn.read_response(method, timeout=15)
                conn.close()
                # after rejecting the head Squid cannot delimit the message: body bytes left in its buffer are logged as a
                # second, never-completed transaction (grey) -- exact count only for body-less requests
                add_expected(n=1, t_slack=1 if body else 0)
                rec["lf"] = True
                rec["h1"] = None
                register(rid, rec, m)
                res.feature("lfinject", m.status)
                return
            if shape == "crvalue":
                rid, head, body, rec, method = build(c, r, 0, kind="plain", h1=b"a" + r.choice([b"\r", b"\rb", b"\r\r", b" \r b"]) + b"c")
                conn.send(head + b"Connection: close\r\n\r\n" + body)
                m = conn.read_response(method, timeout=15)
                conn.close()
                add_expected(n=1)
                rec["cr"] = True
                register(rid, rec, m)
                res.feature("crvalue", m.status)
                return
            if shape == "connect":
                rid = f"{c['seed']}.{c['n']}.0"
                conn.send(f"CONNECT 127.0.0.1:{oport} HTTP/1.1\r\nHost: 127.0.0.1:{oport}\r\nX-Verif-Req: {rid}\r\nX-Verif-H1: ".encode() + (h := hostile(r)) + b"\r\n\r\n")
                m = conn.read_response("CONNECT", timeout=10)
                conn.close()
                add_expected(n=1)
                register(rid, {"h1": h.strip(WS), "h2": b"", "method": b"CONNECT", "kind": "connect", "user": None}, m)
                res.feature("connect", m.status)
                return
            if shape == "abort":
                rid = f"{c['seed']}.{c['n']}.0"
                h = hostile(r)
                conn.send(f"GET http://127.0.0.1:{oport}/slow/{c['n']} HTTP/1.1\r\nHost: x\r\nX-Verif-Req: {rid}\r\nX-Verif-H1: ".encode() + h + b"\r\n\r\n")
                time.sleep(r.choice([0.05, 0.2]))
                hard = r.random() < 0.5
                if hard:
                    conn.rst()          # a reset may discard the request bytes before Squid reads them
                    add_expected(either=1)
                else:
                    conn.close()
                    add_expected(n=1)
                rec = {"h1": h.strip(WS), "h2": b"", "method": b"GET", "kind": "abort", "user": None, "status": None, "aborted": not hard}
                with slock:
                    sent[rid] = rec
                res.feature("abort")
                return
            n = {"single": 1, "long": 1, "keepalive": r.randrange(2, 5), "pipeline": r.randrange(2, 4)}[shape]
            reqs = [build(c, r, k, kind="plain" if shape == "pipeline" else None) for k in range(n)]
            if shape == "long":
                reqs = [build(c, r, 0, h1=hostile(r, maxlen=r.choice([1000, 3000, 7000])))]
            if shape == "pipeline":
                wire = b""
                for i, (rid, head, body, rec, method) in enumerate(reqs):
                    wire += head + (b"Connection: close\r\n" if i == n - 1 else b"") + b"\r\n" + body
                conn.send(wire)
                got = 0
                for rid, head, body, rec, method in reqs:
                    m = conn.read_response(method, timeout=15)
                    register(rid, rec, m)
                    if m.start is None or m.error:
                        break
                    got += 1
                conn.close()
                if got == n:
                    add_expected(n=n)
                else:
                    # squid ended the connection early: the unanswered requests may or may not have been started
                    for rid, head, body, rec, method in reqs[got:]:
                        rec["uncertain"] = True
                        with slock:
                            sent.setdefault(rid, rec)
                    add_expected(n=got, n_slack=n - got, t_slack=1)     # + left-over bytes logged as a never-completed transaction
                    res.count("pipeline_cut_short")
                res.feature("pipeline", n, got)
                return
            got = 0
            for i, (rid, head, body, rec, method) in enumerate(reqs):
                last = i == n - 1
                conn.send(head + (b"Connection: close\r\n" if last else b"") + b"\r\n" + body)
                m = conn.read_response(method, timeout=15)
                register(rid, rec, m)
                if m.start is None or m.error:
                    rec["uncertain"] = m.start is None and i > 0
                    add_expected(n_slack=1)
                    break
                # head rejected => Squid cannot delimit the message; an unread body is logged as a second, never-completed transaction
                add_expected(n=1, t_slack=1 if (body and m.status in (400, 411, 413, 414, 417, 431, 501, 505)) else 0)
                got += 1
                res.feature(shape, rec["kind"], m.status, method in ("GET", "POST", "HEAD", "PUT", "DELETE"))
                res.count(f"status:{rec['kind']}:{m.status}")
                if conn.eof:
                    break
            conn.close()
        finally:
            conn.close()

    try:
        run_cases(a, res, gen_case, one, threads=8)
        time.sleep(0.5)
    finally:
        lab.finish()

    # ------------------------------------------------------------------ offline judgement
    wit0 = {"seed": a.seed}
    files = {}
    for q in "qmusdr":
        try:
            files[q] = open(f"{lab.sq.work}/log_{q}.log", "rb").read()
        except OSError:
            res.harness_failure.append(f"log_{q}.log missing")
            return
    # ---- the built-in 'squid' format with log_mime_hdrs (a record is written in two pieces): same transactions, so the same
    # number of lines as any custom-format log, every line a whole record
    try:
        bdata = open(f"{lab.sq.work}/log_b.log", "rb").read()
    except OSError:
        res.harness_failure.append("log_b.log missing")
        return
    blines = bdata.split(b"\n")[:-1] if bdata else []
    res.count("records_b", len(blines))
    if bdata and not bdata.endswith(b"\n"):
        res.violation("log-not-newline-terminated:b", f"log_b does not end in a newline: ...{bdata[-120:]!r}", wit0)
    nd = files["d"].count(b"\n")
    if len(blines) != nd:
        res.violation("record-count-mismatch:b", f"the built-in format log (log_mime_hdrs on) has {len(blines)} lines, the custom-format logs of the same transactions have {nd}", wit0)
    bre = re.compile(rb"^\d+\.\d{3} +\d+ \S+ \S+/\d{3} \d+ \S+ \S+ .* \[.*\] \[.*\]$", re.S)
    for ln in blines:
        if b"\r" in ln:
            res.violation("raw-CR-in-record:b", f"record contains a raw CR: {ln[:300]!r}", wit0)
        elif not bre.match(ln):
            res.violation("line-is-not-a-whole-record:b", f"log_b line is not one whole built-in-format record (timestamp ... [request headers] [reply headers]): {ln[:200]!r} ... {ln[-80:]!r} ({len(ln)} bytes)", wit0)
            break
    parsed = {}      # q -> {id: groups}
    for q, data in files.items():
        if data and not data.endswith(b"\n"):
            res.violation(f"log-not-newline-terminated:{q}", f"log_{q} does not end in a newline: ...{data[-120:]!r}", wit0)
        lines = data.split(b"\n")[:-1] if data else []
        res.count(f"records_{q}", len(lines))
        nl = len(lines)
        T = totals
        n_t = sum(1 for ln in lines if b"error:transaction-end-before-headers" in ln)
        n_n = nl - n_t
        res.count(f"records_before_headers_{q}", n_t)
        if not a.replay_data:
            if not (T["n"] <= n_n <= T["n"] + T["either"] + T["n_slack"]):
                res.violation(f"record-count-mismatch:{q}", f"log_{q} has {n_n} records of answered/aborted requests after shutdown; clients performed {T['n']} (+ at most {T['either'] + T['n_slack']} uncertain) such transactions", wit0)
            if not (T["t"] <= n_t <= T["t"] + T["either"] + T["t_slack"]):
                res.violation(f"record-count-mismatch:{q}", f"log_{q} has {n_t} 'transaction-end-before-headers' records; clients made {T['t']} (+ at most {T['either'] + T['t_slack']} uncertain) connections that ended before a complete request head (incl. 1 start-up probe)", wit0)
            lo = T["n"] + T["t"] + T["either"]
            if not (lo <= nl <= lo + T["n_slack"] + T["t_slack"]):
                res.violation(f"record-count-mismatch:{q}", f"log_{q} has {nl} lines after shutdown; clients performed between {lo} and {lo + T['n_slack'] + T['t_slack']} transactions (incl. 1 start-up probe)", wit0)
        seen = {}
        anon = 0
        for ln in lines:
            if b"\r" in ln:
                res.violation(f"raw-CR-in-record:{q}", f"record contains a raw CR: {ln[:300]!r}", wit0)
            m0 = re.match(rb"REC (\S+) ", ln)
            if not m0 or not ln.endswith(b" END"):
                res.violation(f"line-without-sentinels:{q}", f"log_{q} line does not start with 'REC <id> ' and end with ' END': {ln[:300]!r}", wit0)
                continue
            rid = m0.group(1).decode("latin1")
            case_w = {"seed": a.seed, "case": int(rid.split(".")[1])} if re.fullmatch(r"\d+\.\d+\.\d+", rid) else wit0
            if rid == "-":
                anon += 1
            else:
                if rid not in sent:
                    res.violation(f"record-with-unknown-id:{q}", f"log_{q} has a record for req id {rid!r} that no client sent: {ln[:300]!r}", case_w)
                    continue
                if rid in seen:
                    res.violation(f"duplicate-record:{q}", f"req id {rid} has more than one record in log_{q} (shape kind={sent[rid].get('kind')}, aborted={sent[rid].get('aborted')})", case_w)
                    continue
            if q == "r":
                seen[rid] = ()
                continue
            g = GRAMMAR[q].fullmatch(ln)
            if not g:
                if rid != "-":
                    seen[rid] = None
                res.violation(f"record-does-not-parse:{q}", f"log_{q} record does not parse into the configured fields under the {q!r} quoting grammar: {ln[:600]!r}; sent={ {k: v for k, v in sent.get(rid, {}).items() if k in ('h1', 'h2', 'user', 'method')} }", case_w)
                continue
            if rid != "-":
                seen[rid] = g.groups()
        res.count(f"anonymous_records_{q}", anon)
        parsed[q] = seen
        # ids that must be there
        for rid, rec in sent.items():
            if rec.get("uncertain") or rec.get("partial") or rec.get("lf"):
                continue
            if rec.get("status") in (200, 403, 407) or rec.get("aborted"):
                if rid not in seen:
                    res.violation(f"missing-record:{q}", f"req id {rid} (kind={rec.get('kind')}, status={rec.get('status')}, aborted={rec.get('aborted')}) has no record in log_{q}", {"seed": a.seed, "case": int(rid.split(".")[1])})

    # field values
    names = {"q": ["h1", "h2", "ru", "un", "rm"], "m": ["h1", "h2", "ru", "un", "rm", "all"], "u": ["h1", "h2", "ru", "un", "rm"], "s": ["h1", "h2", "ru", "un", "rm"], "d": ["h1", "h2", "ru", "cru", "rm"]}
    judged = 0
    for rid, rec in sent.items():
        case_w = {"seed": a.seed, "case": int(rid.split(".")[1])}
        dec = {}
        for q in "qmus":
            g = parsed.get(q, {}).get(rid)
            if not g:
                continue
            vals = dict(zip(names[q], g[1:]))
            for f in FIELDS:
                if q == "s" and b"\t" in vals[f] and not vals[f].startswith(b'"'):
                    res.grey("shell-word-with-raw-TAB")     # documented: only SP triggers the surrounding quotes
                try:
                    dec[(q, f)] = UNQ[q](vals[f])
                except BadQuote as e:
                    res.violation(f"field-not-unquotable:{q}:{f if f[0] != 'h' else 'h'}", f"log_{q} field {f} of req {rid} is not valid under its quoting: {e}; field={vals[f][:300]!r}", case_w)
        if not dec:
            continue
        judged += 1
        for f in FIELDS:
            got = {q: dec[(q, f)] for q in "qmus" if (q, f) in dec}
            if len(set(got.values())) > 1:
                res.violation(f"quotings-disagree:{f if f[0] != 'h' else 'h'}", f"req {rid}: field {f} decodes differently under different reversible quotings: { {k: v[:200] for k, v in got.items()} }", case_w)
                continue
            if not got:
                continue
            val = next(iter(got.values()))
            exp = None
            if f in ("h1", "h2"):
                exp = rec.get(f)
                if exp is not None and b"\r" in exp:
                    # Squid's relaxed header parser stores a bare CR inside a field value as SP
                    res.count("bare_CR_values_judged")
                    exp = exp.replace(b"\r", b" ").strip(WS)
            elif f == "un" and rec.get("kind") == "auth_ok" and rec.get("status") == 200:
                exp = rec["user"]
            elif f == "rm" and rec.get("status") in (200, 403, 407):
                exp = rec["method"]
            if exp is None:
                continue
            if exp == b"":
                exp = b"-"
            res.count("fields_compared")
            if val != exp:
                res.violation(f"unquoted-differs:{f if f[0] != 'h' else 'h'}", f"req {rid}: field {f} unquotes to {val[:300]!r} but the client sent {exp[:300]!r} (lens {len(val)}/{len(exp)})", case_w)
        # default ("pass-through URL") encoding of headers: not claimed reversible; compare modulo percent-decoding
        g = parsed.get("d", {}).get(rid)
        if g:
            vals = dict(zip(names["d"], g[1:]))
            for f in ("h1", "h2"):
                exp = rec.get(f)
                if exp is None:
                    continue
                exp = exp.replace(b"\r", b" ").strip(WS)
                if pct_lenient(vals[f]) != pct_lenient(exp if exp else b"-"):
                    res.grey("default-encoding-not-reversible")
    res.count("records_field_judged", judged)
    for k, v in totals.items():
        res.count("expected_" + k, v)
    res.count("ids_sent", len(sent))
    if not a.replay_data and judged < max(1, a.cases // 3):
        res.inconclusive.append("too few records with ids to judge field quoting")


if __name__ == "__main__":
    base.main_wrapper("C34", run)
