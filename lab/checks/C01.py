#!/usr/bin/python3
"""C01 Response bodies are relayed byte-exactly with correct framing (DESIGN 5.1)."""
import random, threading, time
from concurrent.futures import ThreadPoolExecutor
from lab import base, httpref
from lab.squidproc import Squid, health_events
from lab.origin import Origin, Resp, make_body
from lab.client import Conn, request_bytes

SIZES = [0, 1, 2, 100, 4095, 4096, 4097, 32767, 32768, 32769, 65535, 65536, 65537, 8192, 16384, 131072, 262143, 1048577]


def gen_case(seed, n, tier):
    r = random.Random(f"C01:{seed}:{n}")
    c = {"n": n}
    c["status"] = r.choice([200, 200, 200, 200, 203, 301, 404, 410, 500, 503, 204])
    big = [4 * 1024 * 1024 + 1] if tier == "thorough" else []
    c["len"] = 0 if c["status"] == 204 else r.choice(SIZES + big + [r.randrange(0, 70000), r.randrange(0, 3000)])
    c["framing"] = "none" if c["status"] == 204 else r.choice(["cl", "chunked", "close"])
    c["cache"] = r.random() < 0.5
    c["method"] = "HEAD" if r.random() < 0.08 else "GET"
    c["client_version"] = "HTTP/1.0" if r.random() < 0.2 else "HTTP/1.1"
    c["nsplits"] = r.choice([0, 0, 1, 3, 8])
    c["delay"] = r.choice([0, 0, 0.001, 0.005, 0.02])
    c["chunks"] = [r.choice([1, 2, 7, 100, 4096, 5000, 65536]) for _ in range(r.randrange(1, 6))]
    c["chunk_ext"] = r.choice([None, None, [";x=1"], [';q="a b"', ""]])
    c["abort"] = r.random() < 0.2 and c["status"] != 204
    c["abort_frac"] = r.random()
    c["abort_kind"] = r.choice(["close", "rst"])
    c["split_seed"] = r.randrange(1 << 30)
    c["refetch"] = c["cache"] and not c["abort"] and c["status"] in (200, 203, 301, 404, 410) and r.random() < 0.7
    c["maxage"] = r.random() < 0.8
    # interim responses before the final one (separate stream: earlier cases keep their shape)
    r1 = random.Random(f"C01:1xx:{seed}:{n}")
    c["interim"] = r1.choice(["103", "100", "102", "103,103", "103,100"]) if r1.random() < 0.15 else ""
    return c


def run(a, res):
    tier = a.tier
    table = {}       # path -> case
    rids = {}        # rid -> Resp
    lock = threading.Lock()

    def handler(req):
        path = req.target.split("://", 1)[-1]
        path = "/" + path.split("/", 1)[1] if "/" in path else "/"
        c = table.get(path)
        if c is None:
            return Resp(404, length=5)
        r = random.Random(c["split_seed"])
        hdrs = [("Content-Type", "application/octet-stream")]
        if c["maxage"]:
            hdrs.append(("Cache-Control", "max-age=3600"))
        resp = Resp(c["status"], hdrs, length=c["len"], framing=c["framing"], chunks=c["chunks"], chunk_ext=c["chunk_ext"], delay=c["delay"])
        wire = resp.serialize(head_only=(req.method == "HEAD"))
        head_len = wire.find(b"\r\n\r\n") + 4
        if c["nsplits"] or (c["framing"] == "chunked" and c["len"] >= 16 and c["split_seed"] % 3 == 0):
            pts = set()
            for _ in range(c["nsplits"]):
                # favour interesting places: inside status line, header block, CRLF pairs, chunk-size lines
                k = r.random()
                if k < 0.3:
                    pts.add(r.randrange(1, max(2, head_len)))
                elif k < 0.5 and b"\r\n" in wire:
                    idxs = [i for i in range(len(wire) - 1) if wire[i:i + 2] == b"\r\n"][:200]
                    pts.add(r.choice(idxs) + 1)
                else:
                    pts.add(r.randrange(1, max(2, len(wire))))
            if c["framing"] == "chunked" and r.random() < 0.6:
                # a read boundary INSIDE a multi-digit chunk-size token (between two hex digits)
                import re as _re
                toks = [m for m in _re.finditer(rb"\r\n([0-9a-fA-F]{2,8})(?=[;\r])", wire[head_len - 2:head_len + 300000])]
                for m in r.sample(toks, min(len(toks), 2)):
                    pts.add(head_len - 2 + m.start(1) + r.randrange(1, len(m.group(1))))
                    resp.delay = max(resp.delay, 0.003)  # make sure squid reads the two halves separately
            resp.splits = sorted(pts)
        if c["abort"] and req.method != "HEAD":
            resp.abort_at = max(1, int(len(wire) * c["abort_frac"]))
            if resp.abort_at >= len(wire):
                resp.abort_at = len(wire) - 1
            resp.abort_kind = c["abort_kind"]
        if c.get("interim"):
            texts = {"100": b"HTTP/1.1 100 Continue\r\n\r\n", "102": b"HTTP/1.1 102 Processing\r\n\r\n",
                     "103": b"HTTP/1.1 103 Early Hints\r\nLink: </c01.css>; rel=preload\r\n\r\n"}
            resp.interim = [texts[k] for k in c["interim"].split(",")]
            res.count("origin_sent_interim", len(resp.interim))
        resp.case = c
        resp.wire_len = len(wire)
        resp.head_len = head_len
        with lock:
            rids[resp.rid] = resp
        return resp

    org = Origin(handler)
    # one seed in three runs with the strict message parser
    strict = (a.seed % 3 == 2)
    if strict:
        res.count("runs_with_relaxed_header_parser_off")
    sq = Squid(a.work, conf="cache_mem 64 MB\nmaximum_object_size_in_memory 8 MB\nacl nocache urlpath_regex ^/nc/\ncache deny nocache\n" + ("relaxed_header_parser off\n" if strict else ""))
    sq.start()
    stalled = [0]

    def judge(c, m, which):
        """m: client-side Message. which: 'first' or 'refetch'"""
        wit = {"seed": a.seed, "case": c["n"]}
        feat = [c["status"], c["framing"], c["method"], c["client_version"], c["abort"] and c["abort_kind"], min(c["len"], 70000) // 4096, which]
        if m.start is None and not m.error:
            # no response head at all: legitimate only if the origin failed before finishing
            res.count("no_response")
            if not c["abort"]:
                res.note("no response although origin completed: case %d" % c["n"])
            res.feature(*feat, "noresp")
            return
        if m.error:
            res.violation("client-bytes-invalid-http", f"squid sent bytes that do not parse strictly: {m.error}; raw={m.raw[:300]!r}", wit)
            return
        rid = m.header("X-Verif-Rid")
        if rid is None:
            res.count("squid_generated_response")
            res.feature(*feat, "squidgen", m.status)
            if not c["abort"] and c["framing"] != "close":
                res.note(f"squid-generated {m.status} for a healthy origin response, case {c['n']}")
            return
        with lock:
            resp = rids.get(rid)
        if resp is None:
            res.violation("unknown-rid", f"client received rid {rid} that the origin never issued", wit)
            return
        oc = resp.case
        expected = b"" if c["method"] == "HEAD" else resp.body
        if m.status != resp.status:
            res.violation("status-changed", f"origin sent {resp.status}, client got {m.status}", wit)
        aborted = resp.abort_at is not None
        hit = which == "refetch"
        if m.complete:
            res.count("complete")
            if aborted:
                sent_body = resp.serialize()[resp.head_len:resp.abort_at] if resp.abort_at > resp.head_len else b""
                if oc["framing"] == "close":
                    # a close-delimited response ended by the origin IS complete at whatever was sent (plain close);
                    # with RST squid may or may not notice: accept the sent prefix only
                    if m.body != sent_body and not (resp.abort_kind == "rst" and sent_body.startswith(m.body)):
                        res.violation("close-delimited-body-differs", f"origin sent {len(sent_body)} body bytes then closed; client got complete message with {len(m.body)} bytes that differ", wit)
                    res.feature(*feat, "complete-close-abort")
                    return
                if resp.abort_at >= resp.wire_len:
                    pass
                elif m.framing == "close":
                    # close-delimited delivery (HTTP/1.0 client): truncation cannot be signalled other than by the
                    # close itself; the statement speaks of declared length / last-chunk. Not judged beyond prefix-ness.
                    if not expected.startswith(m.body):
                        res.violation("incomplete-not-prefix", f"close-delimited delivery of aborted response is not a prefix of the origin body", wit)
                    res.grey("truncated-close-delimited-delivery")
                    return
                else:
                    res.violation("truncated-served-as-complete", f"origin aborted after {resp.abort_at}/{resp.wire_len} bytes ({oc['framing']}), client got a COMPLETE {m.framing} message of {len(m.body)} body bytes (expected {len(expected)})", wit)
                    return
            if m.body != expected:
                k = "hit-body-differs" if hit else "body-differs"
                res.violation(k, f"complete {m.framing} message: body {len(m.body)} bytes != origin body {len(expected)} bytes (first diff at {first_diff(m.body, expected)})", wit)
                return
            res.feature(*feat, "complete", m.framing)
        else:
            res.count("incomplete")
            if m.timed_out:
                stalled[0] += 1
                res.count("stalled_open")
                res.feature(*feat, "stalled")
                return
            # visibly incomplete: must be a prefix and the connection must have ended
            if not expected.startswith(m.body):
                res.violation("incomplete-not-prefix", f"incomplete message carries {len(m.body)} bytes that are not a prefix of the origin body (first diff at {first_diff(m.body, expected)})", wit)
                return
            if not aborted and oc["framing"] != "close":
                res.note(f"healthy origin response relayed incompletely (case {c['n']})")
                res.count("healthy_but_incomplete")
            res.feature(*feat, "incomplete", m.framing)

    def first_diff(x, y):
        for i in range(min(len(x), len(y))):
            if x[i] != y[i]:
                return i
        return min(len(x), len(y))

    def one(c):
        path = ("/c/" if c["cache"] else "/nc/") + f"{a.seed}/{c['n']}"
        table[path] = c
        url = f"http://127.0.0.1:{org.port}{path}"
        res.case({"case": c["n"], "status": c["status"], "len": c["len"], "framing": c["framing"], "abort": c["abort"], "splits": c["nsplits"]} if c["n"] % 37 == 0 else None)
        for which in (["first", "refetch"] if c["refetch"] else ["first"]):
            try:
                conn = Conn(sq.port, timeout=30)
            except OSError as e:
                res.count("connect_failed")
                return
            conn.send(request_bytes(c["method"], url, [("Connection", "close")] if c["client_version"] == "HTTP/1.1" else [], None, c["client_version"], req_id=f"{a.seed}.{c['n']}.{which}"))
            m = conn.read_response(c["method"], timeout=30)
            conn.close()
            res.count("interim_seen_by_client", len(conn.interim))
            judge(c, m, which)
            if which == "refetch" and m.start is not None and not m.error:
                rid = m.header("X-Verif-Rid")
                # hit iff this rid was minted for the first request
                if rid and len(org.seen(f"{a.seed}.{c['n']}.refetch")) == 0:
                    res.count("hits")

    if a.replay_data:
        cases = [gen_case(a.replay_data.get("seed", a.seed), a.replay_data["case"], tier)]
    else:
        cases = [gen_case(a.seed, n, tier) for n in range(a.cases)]
    try:
        with ThreadPoolExecutor(8) as ex:
            list(ex.map(one, cases))
        time.sleep(0.2)
        ok = health_events(sq, res, judge=True, witness={"seed": a.seed, "case": -1})
        if not sq.alive():
            res.violation("crash:squid-exited", "squid exited during the workload: " + sq.tail_log(), {"seed": a.seed})
    finally:
        sq.stop()
        org.stop()
    health_events(sq, res, judge=True, witness={"seed": a.seed, "case": -1})
    res.count("origin_requests", org.count())
    if stalled[0] > len(cases) // 10:
        res.inconclusive.append(f"{stalled[0]} transactions stalled")


if __name__ == "__main__":
    base.main_wrapper("C01", run)
