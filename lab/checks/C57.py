#!/usr/bin/python3
"""C57 Rock rebuild indexes only intact entries from any disk image (DESIGN 5.2, e2e part).

A rock db is created with real traffic (single- and multi-slot entries, a few overwritten and PURGEd URLs that leave
stale slot chains behind), squid is stopped and the db file becomes the template.  A case = the template with 1-3
PRNG mutations applied by python, which knows the on-disk layout (16 KiB db header, then slots of slot-size bytes,
each starting with the 40-byte DbCellHeader {key[2], entrySize, payloadSize, version, firstSlot, nextSlot}):
chain links (self loops, cycles, cross links into other entries, dangling/out-of-range, cuts), firstSlot changes,
duplicated slots (into free slots or over other entries), zeroed/garbage slots and headers, size lies (entrySize,
payloadSize), version and key changes, swapped slots, truncation of the file inside the slot area, garbage db header.
A fresh squid (sometimes with -S, sometimes queried while it is still rebuilding) is started on the image.

Oracle: squid is up, the rebuild finishes (a hang is re-run once before it counts), no ASan/assert/FATAL, squid
survives a sweep over all URLs; and every URL none of whose slots (of any of its stored versions) was touched by the
mutations is either a miss or a hit that is byte-identical (status, complete body) to ONE response the origin sent
for that URL.  Hits on touched entries are not judged on content (rock has no checksums) except for one thing the
statement does say: a touched entry served with a piece of the body of another entry that is itself served intact
from the same image means two readable entries share a slot."""
import random, threading, time, re, os, struct, signal, subprocess
from concurrent.futures import ThreadPoolExecutor
from lab import base, httpref
from lab.squidproc import Squid, health_events, chown_nobody
from lab.origin import Origin, Resp, make_body
from lab.client import fetch

HDR = 16384
CELL = struct.Struct("<QQQIIii")      # key0 key1 entrySize payloadSize version firstSlot nextSlot
DBMB = 8
CONF = ("acl PURGE method PURGE\ncache_mem 1 MB\nmaximum_object_size 1 MB\n"
        "cache_store_log stdio:{W}/store.log\n")
NURLS = 44

MUTATIONS = ["next_self", "next_cycle", "next_cross", "next_dangling", "next_cut", "first_change", "dup_to_free",
             "dup_over", "zero_slot", "zero_header", "zero_payload", "garbage_header", "garbage_slot", "entry_size",
             "payload_size", "version", "key_cross", "key_random", "swap_slots", "truncate", "db_header", "meta_flip", "meta_size", "meta_flags"]


def pick_len(r):
    k = r.random()
    if k < 0.10:
        return r.choice([0, 1, 17, 300])
    if k < 0.28:
        return r.choice([9000, 9000, 12168, 20000])   # a few exact sizes: several entries then have identical slot layouts
    if k < 0.45:
        return r.randrange(0, 3700)                  # single slot
    if k < 0.80:
        return max(0, r.randrange(1, 9) * 4056 + r.randrange(-300, 300))
    return r.randrange(20000, 70000)


def gen_case(seed, n):
    r = random.Random(f"C57:{seed}:{n}")
    c = {"n": n, "seed": seed}
    # fault enumeration: the first mutation of case n is entry n of a seed-shuffled list of all (kind, variant) pairs,
    # so ~len(ALL_VARIANTS) consecutive cases execute every pair once; further mutations are free PRNG choices
    perm = list(ALL_VARIANTS)
    random.Random(f"C57:{seed}:perm").shuffle(perm)
    k0, v0 = perm[n % len(perm)]
    c["muts"] = [(k0, v0, r.randrange(1 << 30))]
    for _ in range(r.choice([0, 0, 1, 2])):
        c["muts"].append((r.choice(MUTATIONS), None, r.randrange(1 << 30)))
    c["doublecheck"] = r.random() < 0.3              # squid -S
    c["early"] = r.random() < 0.3                    # query while the rebuild may still be running
    return c


class Image:
    """python view of a rock db file"""
    def __init__(self, data, slot_size):
        self.data = bytearray(data)
        self.ss = slot_size
        self.nslots = (len(data) - HDR) // slot_size

    def off(self, i):
        return HDR + i * self.ss

    def cell(self, i):
        return CELL.unpack_from(self.data, self.off(i))

    def set_cell(self, i, **kw):
        names = ["key0", "key1", "entrySize", "payloadSize", "version", "firstSlot", "nextSlot"]
        vals = dict(zip(names, self.cell(i)))
        vals.update(kw)
        for k in ("key0", "key1", "entrySize"):
            vals[k] &= (1 << 64) - 1
        for k in ("payloadSize", "version"):
            vals[k] &= (1 << 32) - 1
        for k in ("firstSlot", "nextSlot"):
            v = vals[k] & 0xFFFFFFFF
            vals[k] = v - (1 << 32) if v >= (1 << 31) else v
        CELL.pack_into(self.data, self.off(i), *[vals[k] for k in names])

    def empty(self, i):
        c = self.cell(i)
        return c[3] == 0 and c[5] == 0 and c[6] == 0

    def layout(self, port):
        """groups of slots by (key, version) -> {url, slots, inode}; returns (entries: url -> set(slots), chains list, free list)"""
        groups = {}
        free = []
        for i in range(self.nslots):
            if self.empty(i):
                free.append(i)
                continue
            c = self.cell(i)
            groups.setdefault((c[0], c[1], c[4]), []).append(i)
        chains = []
        key_url = {}
        pat = re.compile(rb"http://127\.0\.0\.1:%d(/c57/[0-9A-Za-z/._-]+)\x00" % port)
        for (k0, k1, ver), slots in sorted(groups.items()):
            inode = [s for s in slots if self.cell(s)[5] == s]
            url = None
            if inode:
                o = self.off(inode[0]) + CELL.size
                m = pat.search(bytes(self.data[o:o + 1024]))
                if m:
                    url = m.group(1).decode()
                    key_url[(k0, k1)] = url
            # order the chain by walking nextSlot from the inode
            order = []
            if inode:
                s = inode[0]
                seen = set()
                while s >= 0 and s not in seen and s in slots:
                    order.append(s)
                    seen.add(s)
                    s = self.cell(s)[6]
            chains.append({"key": (k0, k1), "version": ver, "slots": slots, "inode": inode[0] if inode else None, "order": order, "url": url})
        entries = {}
        for ch in chains:
            if ch["url"] is None:
                ch["url"] = key_url.get(ch["key"])
            if ch["url"]:
                entries.setdefault(ch["url"], set()).update(ch["slots"])
        return entries, chains, free


# number of value variants per mutation kind: the first mutation of the cases walks through all (kind, variant) pairs
VARIANTS = {"next_self": 1, "next_cycle": 1, "next_cross": 2, "next_dangling": 7, "next_cut": 1, "first_change": 11,
            "dup_to_free": 3, "dup_over": 2, "zero_slot": 1, "zero_header": 1, "zero_payload": 3, "garbage_header": 1,
            "garbage_slot": 1, "entry_size": 9, "payload_size": 9, "version": 5, "key_cross": 2, "key_random": 1,
            "swap_slots": 1, "truncate": 6, "db_header": 4, "meta_flip": 1, "meta_size": 16, "meta_flags": 4}
assert sorted(VARIANTS) == sorted(MUTATIONS)
ALL_VARIANTS = [(k, v) for k in MUTATIONS for v in range(VARIANTS[k])]


def mutate(img, kind, variant, mseed, chains, free):
    """apply one mutation (variant None: PRNG choice of the value); returns the set of touched slot indices"""
    r = random.Random(mseed)

    def pick(options):
        assert variant is None or len(options) == VARIANTS[kind] or kind == "meta_size", (kind, len(options))
        return r.choice(options) if variant is None else options[variant % len(options)]

    full = [c for c in chains if c["inode"] is not None and c["order"]]
    multi = [c for c in full if len(c["order"]) >= 2]
    used = [s for c in chains for s in c["slots"]]
    if not full or not used:
        return set()
    n = img.nslots
    ch = r.choice(full)
    s = r.choice(ch["slots"])
    single = [c for c in full if len(c["slots"]) == 1]
    if single and kind in ("entry_size", "payload_size", "version", "zero_payload", "first_change", "meta_size", "meta_flip") and mseed % 2 == 0:
        # half of the header-field lies hit an entry whose ONLY slot this is (nothing else of the entry gets loaded)
        ch = single[(mseed // 2) % len(single)]
        s = ch["slots"][0]
    other = r.choice([c for c in full if c is not ch] or full)
    t = r.choice(other["slots"])
    weird = [n, n + 1, -2, -100, 2 ** 31 - 1, -2 ** 31, r.choice(free) if free else n]
    if kind == "next_self":
        img.set_cell(s, nextSlot=s)
        return {s}
    if kind == "next_cycle":
        ch = r.choice(multi or full)
        i = r.randrange(len(ch["order"]))
        s = ch["order"][i]
        img.set_cell(s, nextSlot=ch["order"][r.randrange(0, i + 1)])
        return {s}
    if kind == "next_cross":
        if pick([False, True]):
            # splice the tail of another entry whose remaining payload sizes are exactly those of our own tail: the
            # thief's slot sizes still add up to its entry size, only slot ownership (finalized/claimed) can tell
            pairs = []
            for a_ in multi:
                for b_ in multi:
                    if a_ is b_ or len(a_["order"]) != len(b_["order"]) or set(a_["order"]) != set(a_["slots"]) or set(b_["order"]) != set(b_["slots"]):
                        continue
                    if [img.cell(x)[3] for x in a_["order"]] == [img.cell(x)[3] for x in b_["order"]] and img.cell(a_["order"][0])[2] == img.cell(b_["order"][0])[2]:
                        pairs.append((a_, b_))
            if pairs:
                a_, b_ = r.choice(pairs)
                i = r.randrange(0, len(a_["order"]) - 1)
                img.set_cell(a_["order"][i], nextSlot=b_["order"][i + 1])
                return {a_["order"][i]}
        img.set_cell(s, nextSlot=t)
        return {s}
    if kind == "next_dangling":
        img.set_cell(s, nextSlot=pick(weird))
        return {s}
    if kind == "next_cut":
        ch = r.choice(multi or full)
        s = r.choice(ch["order"][:-1] or ch["order"])
        img.set_cell(s, nextSlot=-1)
        return {s}
    if kind == "first_change":
        img.set_cell(s, firstSlot=pick([s, t, other["inode"], 0] + weird))
        return {s}
    if kind == "dup_to_free":
        if not free:
            return set()
        f = r.choice(free)
        img.data[img.off(f):img.off(f) + img.ss] = img.data[img.off(s):img.off(s) + img.ss]
        how = pick(["as-is", "own-inode", "linked"])
        if how == "own-inode":
            img.set_cell(f, firstSlot=f)
        elif how == "linked":
            img.set_cell(f, nextSlot=r.choice(ch["slots"]))
        return {f}
    if kind == "dup_over":
        img.data[img.off(t):img.off(t) + img.ss] = img.data[img.off(s):img.off(s) + img.ss]
        if pick([False, True]):
            img.set_cell(t, firstSlot=t)
        return {t}
    if kind == "zero_slot":
        img.data[img.off(s):img.off(s) + img.ss] = bytes(img.ss)
        return {s}
    if kind == "zero_header":
        img.data[img.off(s):img.off(s) + CELL.size] = bytes(CELL.size)
        return {s}
    if kind == "zero_payload":
        k = pick([16, 200, img.ss - CELL.size])
        img.data[img.off(s) + CELL.size:img.off(s) + CELL.size + k] = bytes(k)
        return {s}
    if kind == "garbage_header":
        a = r.randrange(CELL.size)
        b = r.randrange(a, CELL.size) + 1
        img.data[img.off(s) + a:img.off(s) + b] = r.randbytes(b - a)
        return {s}
    if kind == "garbage_slot":
        victim = r.choice(used + free[:20])
        img.data[img.off(victim):img.off(victim) + img.ss] = r.randbytes(img.ss)
        return {victim}
    if kind == "entry_size":
        if r.random() < 0.75:
            s = ch["inode"]         # the rebuild reads entrySize from inode slots only
        cur = img.cell(s)[2]
        img.set_cell(s, entrySize=pick([0, 1, cur + 1, max(0, cur - 1), cur + img.ss, 2 ** 63, 2 ** 64 - 1, 2 ** 64 - 2, r.getrandbits(40)]))
        return {s}
    if kind == "payload_size":
        cur = img.cell(s)[3]
        img.set_cell(s, payloadSize=pick([0, 1, cur + 1, max(0, cur - 1), img.ss - CELL.size, img.ss - CELL.size + 1, img.ss, 2 ** 32 - 1, 2 ** 31]))
        return {s}
    if kind == "version":
        cur = img.cell(s)[4]
        img.set_cell(s, version=pick([0, cur + 1, cur - 1, img.cell(t)[4], 2 ** 32 - 1]))
        return {s}
    if kind == "key_cross":
        ks = other["key"]
        victims = ch["slots"] if pick([True, False]) else [s]
        for v in victims:
            img.set_cell(v, key0=ks[0], key1=ks[1])
        return set(victims)
    if kind == "key_random":
        img.set_cell(s, key0=r.getrandbits(64), key1=r.getrandbits(64))
        return {s}
    if kind == "swap_slots":
        a, b = img.off(s), img.off(t)
        x = bytes(img.data[a:a + img.ss])
        img.data[a:a + img.ss] = img.data[b:b + img.ss]
        img.data[b:b + img.ss] = x
        return {s, t}
    if kind == "truncate":
        cut_slot = r.choice(used)
        cut = img.off(cut_slot) + pick([0, 1, CELL.size - 1, CELL.size, CELL.size + 50, img.ss - 1])
        del img.data[cut:]
        return set(range(cut_slot, n))
    if kind == "db_header":
        a = r.randrange(HDR)
        b = min(HDR, a + pick([1, 8, 64, HDR]))
        if b - a == HDR:
            a, b = 0, HDR
        img.data[a:b] = r.randbytes(b - a)
        return set()
    if kind == "meta_flip":
        s = ch["inode"]
        o = img.off(s) + CELL.size + r.randrange(0, 160)
        img.data[o] ^= 1 << r.randrange(8)
        return {s}
    if kind in ("meta_size", "meta_flags"):
        # swap meta prefix of the inode payload: magic 0x03, int32 length, TLVs {type u8, int32 len, value};
        # STORE_META_STD_LFS (9, 44 bytes) = 4 x time_t, uint64 swap_file_sz, uint16 refcount, uint16 flags
        s = ch["inode"]
        base_o = img.off(s) + CELL.size
        k = bytes(img.data[base_o:base_o + 600]).find(b"\x09" + struct.pack("<i", 44))
        if k < 0:
            return set()
        v = base_o + k + 5
        if kind == "meta_size":
            cur = struct.unpack_from("<Q", img.data, v + 32)[0]
            vals = [0, 1, 2 ** 64 - 1, 2 ** 64 - 2, 2 ** 63, (cur + 1) & (2 ** 64 - 1), img.cell(s)[2] + 1, r.getrandbits(40)]
            struct.pack_into("<Q", img.data, v + 32, pick(vals))
            zero_entry_size = (r.random() < 0.6) if variant is None else (variant // len(vals)) % 2 == 1
            if zero_entry_size:
                img.set_cell(s, entrySize=0)
        else:
            struct.pack_into("<H", img.data, v + 42, pick([0, 0xFFFF, 1 << r.randrange(16), r.getrandbits(16)]))
        return {s}
    raise ValueError(kind)


def run(a, res):
    table = {}          # path -> {"nver": int}
    versions = {}       # rid -> dict
    vlock = threading.Lock()
    seed = a.replay_data.get("seed", a.seed) if a.replay_data else a.seed
    slot_size = random.Random(f"C57:{seed}:slot").choice([4096, 4096, 8192])

    def handler(req):
        path = "/" + req.target.split("://", 1)[-1].split("/", 1)[-1]
        u = table.get(path)
        if u is None:
            return Resp(404, length=3)
        with vlock:
            u["nver"] += 1
            k = u["nver"]
        r = random.Random(f"C57v:{seed}:{path}:{k}")
        status = r.choice([200, 200, 200, 200, 203, 410, 301])
        n = pick_len(r)
        framing = r.choice(["cl", "cl", "chunked", "close"])
        resp = Resp(status, [("Content-Type", "application/octet-stream"), ("Cache-Control", "max-age=86400")], length=n, framing=framing)
        if status == 301:
            resp.headers.append(("Location", "http://127.0.0.1:1/moved"))
        with vlock:
            versions[resp.rid] = {"rid": resp.rid, "path": path, "status": status, "len": n, "req_id": req.req_id}
        return resp

    org = Origin(handler)
    rock = f"cache_dir rock {{W}}/rock {DBMB} slot-size={slot_size}"

    def clean_stop(sq):
        rc = None
        try:
            os.kill(sq.proc.pid, signal.SIGTERM)
            rc = sq.proc.wait(timeout=40)
        except (OSError, subprocess.TimeoutExpired):
            rc = None
        sq.stop()
        return rc

    def wait_rebuilt(sq, limit):
        t0 = time.time()
        while time.time() - t0 < limit:
            if "Finished rebuilding storage from disk" in sq.log_text():
                return True
            if not sq.alive():
                return False
            time.sleep(0.1)
        return False

    # ------------------------------------------------------------------ template
    paths = [f"/c57/{seed}/u{i}" for i in range(NURLS)]
    for p in paths:
        table[p] = {"nver": 0}
    sq0 = Squid(a.work, conf=CONF, cache_dirs=[rock])
    try:
        sq0.start(timeout=150)
        if not wait_rebuilt(sq0, 60):
            res.harness_failure.append("template squid did not finish its initial rebuild")
            return
        r = random.Random(f"C57:{seed}:template")

        def get(p, tag, nocache=False, method="GET"):
            return fetch(sq0.port, method, f"http://127.0.0.1:{org.port}{p}", [("Cache-Control", "no-cache")] if nocache else [], None, f"t.{tag}.{p.rsplit('/', 1)[-1]}", timeout=30)

        with ThreadPoolExecutor(4) as ex:
            list(ex.map(lambda p: get(p, "a"), paths))
        for p in r.sample(paths, 8):          # overwritten: stale chains of the old version stay in the file
            get(p, "b", nocache=True)
        for p in r.sample(paths, 4):          # purged: a complete chain without an index entry
            get(p, "c", method="PURGE")
        want = sum(1 for v in versions.values())
        t0 = time.time()
        while time.time() - t0 < 20:
            try:
                nso = open(sq0.work + "/store.log").read().count(" SWAPOUT ")
            except OSError:
                nso = 0
            if nso >= want:
                break
            time.sleep(0.2)
        res.count("template_swapouts", nso)
        res.count("template_versions", want)
        rc = clean_stop(sq0)
        if rc != 0:
            res.harness_failure.append(f"template squid did not stop cleanly rc={rc}")
            return
        health_events(sq0, res, judge=True, witness={"seed": seed, "case": -1})
        template = open(sq0.work + "/rock/rock", "rb").read()
    finally:
        sq0.stop()
    timg = Image(template, slot_size)
    entries, chains, free = timg.layout(org.port)
    res.count("template_slots_used", sum(len(c["slots"]) for c in chains))
    res.count("template_chains", len(chains))
    res.count("template_multislot_chains", sum(1 for c in chains if len(c["slots"]) > 1))
    res.count("template_urls_on_disk", len(entries))
    if len(entries) < NURLS // 2:
        res.harness_failure.append(f"template db holds only {len(entries)} recognisable entries")
        return
    template_versions = dict(versions)

    # ------------------------------------------------------------------ cases
    def attempt(c):
        img = Image(template, slot_size)
        touched = set()
        for kind, variant, ms in sorted(c["muts"], key=lambda km: km[0] == "truncate"):      # truncation last
            touched |= mutate(img, kind, variant, ms, chains, free)
        touched_urls = {u for u, sl in entries.items() if sl & touched}
        sq = Squid(a.work, conf=CONF, cache_dirs=[rock])
        os.makedirs(sq.work + "/rock", exist_ok=True)
        with open(sq.work + "/rock/rock", "wb") as f:
            f.write(img.data)
        chown_nobody(sq.work + "/rock")
        chown_nobody(sq.work + "/rock/rock")
        wit = {"seed": c["seed"], "case": c["n"]}
        kinds = (c["muts"][0][0], c["muts"][0][1]) + tuple(sorted(k for k, _, _ in c["muts"][1:]))
        served = {}         # path -> (rid, body_ok, body)
        outcome = {"rebuilt": False, "started": False}
        try:
            try:
                sq.start(init=False, timeout=150, extra_args=["-S"] if c["doublecheck"] else [])
                outcome["started"] = True
            except RuntimeError as e:
                outcome["start_error"] = str(e)[-600:]
            if outcome["started"]:
                rounds = ["early", "after"] if c["early"] else ["after"]
                for rnd in rounds:
                    if rnd == "after":
                        outcome["rebuilt"] = wait_rebuilt(sq, 90)
                        if not outcome["rebuilt"]:
                            break
                    for p in paths:
                        if not sq.alive():
                            break
                        req_id = f"{c['seed']}.{c['n']}.{rnd}.{p.rsplit('/', 1)[-1]}.{sq.n}"
                        try:
                            m = fetch(sq.port, "GET", f"http://127.0.0.1:{org.port}{p}", [], None, req_id, timeout=30)
                        except OSError:
                            res.count("connect_failed")
                            continue
                        judge(c, p, req_id, m, p in touched_urls, kinds, rnd, served, wit)
                time.sleep(0.1)
            alive = sq.alive()
            healthy = health_events(sq, res, judge=True, witness=wit)
            if outcome["started"] and not alive and healthy:
                res.violation("crash:squid-exited", f"squid exited on a mutated rock db {c['muts']}: " + sq.tail_log(), wit)
                healthy = False
            outcome["healthy"] = healthy and alive
            outcome["reports_clean"] = healthy
        finally:
            sq.stop(kill=True)      # the judged part is over; no need to pay for a graceful shutdown
        if outcome["started"]:
            health_events(sq, res, judge=True, witness=wit)
        # two readable entries sharing a slot: a touched entry served with bytes of an intact, also served entry
        for p, (rid, ok, body) in served.items():
            if ok or p not in touched_urls:
                continue
            for q, (rid2, ok2, body2) in served.items():
                if q == p or not ok2 or len(body2) < 64:
                    continue
                for o in range(0, len(body2) - 32, 509):
                    if body2[o:o + 32] in body:
                        res.violation("two-readable-entries-share-bytes", f"mutations {c['muts']}: hit for {p} (touched) contains body bytes of {q} at origin-body offset {o}, and {q} itself was served as an intact hit from the same image", wit)
                        break
        try:
            import shutil
            shutil.rmtree(sq.work, ignore_errors=True) if outcome.get("healthy") and outcome["rebuilt"] else None
        except OSError:
            pass
        return outcome, kinds

    def judge(c, p, req_id, m, touched, kinds, rnd, served, wit):
        if m.start is None or m.error:
            res.count("no_or_bad_response")
            if m.error:
                res.violation("client-bytes-invalid-http", f"{m.error}; raw={m.raw[:200]!r}", wit)
            return
        rid = m.header("X-Verif-Rid")
        if rid is None:
            res.count("squid_generated:%s" % m.status)
            return
        with vlock:
            v = versions.get(rid)
        contacted = len(org.seen(req_id)) > 0
        if contacted:
            res.count("miss")
            res.count("miss_touched" if touched else "miss_intact")
            return
        res.count("hit")
        if v is None:
            if touched:
                res.count("touched_hit_unjudged")
                return
            res.violation("intact-entry-hit-unknown-rid", f"mutations {c['muts']}: hit for {p} carries rid {rid} which the origin never issued", wit)
            return
        identical = v["path"] == p and m.status == v["status"] and m.complete and m.body == make_body(rid, v["len"])
        if rnd == "after" or p not in served:
            served[p] = (rid, identical, m.body)
        if touched:
            res.count("touched_hit_identical" if identical else "touched_hit_differs_unjudged")
            res.feature(kinds, "touched-hit", identical)
            return
        if not identical:
            what = "another-url" if v["path"] != p else "status" if m.status != v["status"] else "incomplete" if not m.complete else "body"
            res.violation("intact-entry-hit-differs:" + what,
                          f"mutations {c['muts']} touched none of the slots of {p}, but the hit for it (rid {rid}, minted for {v['path']}) differs from the origin response in {what}: "
                          f"status {m.status}/{v['status']}, complete={m.complete}, {len(m.body)}/{v['len']} body bytes", wit)
            return
        res.count("intact_hit_identical")
        res.count("intact_hit_of_template_version" if rid in template_versions else "intact_hit_of_refetched_version")
        res.feature(kinds, "intact-hit", c["doublecheck"], rnd, min(v["len"], 40000) // 4056)

    def one(c):
        outcome, kinds = attempt(c)
        if outcome["started"] and not outcome["rebuilt"] and outcome.get("healthy"):
            res.count("rebuild_timeout_first_attempt")
            outcome2, _ = attempt(c)
            if outcome2["started"] and not outcome2["rebuilt"] and outcome2.get("healthy"):
                res.violation("rebuild-did-not-finish", f"mutations {c['muts']} (-S={c['doublecheck']}): 'Finished rebuilding storage from disk' not logged within 90 s in two runs", {"seed": c["seed"], "case": c["n"]})
            else:
                res.count("rebuild_timeout_not_reproduced")
            outcome = outcome2
        if not outcome["started"]:
            res.count("squid_did_not_start")
            if outcome.get("reports_clean"):     # otherwise the FATAL/assert/ASan report was already turned into a violation
                res.note("squid did not start: " + outcome.get("start_error", "?")[-300:])
                res.count("squid_did_not_start_without_report")
            return
        res.count("rebuilt" if outcome["rebuilt"] else "not_rebuilt")
        res.feature(kinds, "rebuilt", outcome["rebuilt"], c["doublecheck"], c["early"])

    from lab.lab import run_cases
    try:
        run_cases(a, res, gen_case, one, threads=2, sample_every=7)
    finally:
        org.stop()
    res.count("origin_requests", org.count())
    if not a.replay_data:
        if res.counters.get("intact_hit_identical", 0) < a.cases:
            res.inconclusive.append("too few intact hits observed: %d" % res.counters.get("intact_hit_identical", 0))
        if res.counters.get("rebuilt", 0) < max(1, a.cases * 3 // 4):
            res.inconclusive.append("too few finished rebuilds: %d of %d" % (res.counters.get("rebuilt", 0), a.cases))


if __name__ == "__main__":
    base.main_wrapper("C57", run)
