#!/usr/bin/python3
"""C62 Header size limits are enforced before forwarding (DESIGN 5.1).

request_header_max_size / reply_header_max_size are set small (two configurations, 4..16 KB). Request heads and origin
response heads are built to an exact byte size (request line + header section + final CRLF) relative to the limit.
Oracle:
  request head >= limit+2      => never at the origin (by req id) and the client is answered with 414 or 431;
  response head >= limit+2     => the client never receives that response's headers (its rid / pad marker), neither as
                                  the final response, nor as a 1xx, nor from the cache on a refetch;
  sizes within (limit-64, limit+2) are grey (the exact threshold is Squid's);
  sizes <= limit-64 are expected to pass; a refusal there is counted and noted (the statement does not forbid it) and
  the run is inconclusive if under-limit messages never passed (limits not the cause of the refusals otherwise).
"""
import random, threading, time, re
from lab import base, httpref
from lab.lab import Lab, run_cases, Resp, Conn, request_bytes
from lab.origin import http_date

CONFIGS = [(4, 8), (16, 5)]      # (request_header_max_size KB, reply_header_max_size KB)
UNDER = [-64, -64, -65, -100, -500, -2000]
GREYD = [-63, -10, -2, -1, 0, 1]
OVER = [2, 2, 3, 10, 64, 1000]


def gen_case(seed, n):
    r = random.Random(f"C62:{seed}:{n}")
    c = {"n": n, "seed": seed}
    c["cfg"] = n % len(CONFIGS)
    c["side"] = r.choice(["req", "req", "rsp", "rsp", "rsp"])
    zone = r.choice(["under", "grey", "over", "over", "far"])
    c["zone"] = zone
    lim = CONFIGS[c["cfg"]][0 if c["side"] == "req" else 1] * 1024
    if zone == "under":
        c["delta"] = r.choice(UNDER)
    elif zone == "grey":
        c["delta"] = r.choice(GREYD)
    elif zone == "over":
        c["delta"] = r.choice(OVER)
    else:
        c["delta"] = r.choice([lim, 3 * lim, 70000, 140000 - lim if 140000 > 2 * lim else lim, r.randrange(2, 40000)])
    c["size"] = lim + c["delta"]
    c["where"] = r.choice(["one-header", "many-headers", "startline", "mixed"])
    c["nsplits"] = r.choice([0, 0, 1, 3, 9, 40])
    c["delay"] = r.choice([0, 0.001, 0.004])
    c["split_seed"] = r.randrange(1 << 30)
    if c["side"] == "req":
        c["method"] = r.choice(["GET", "GET", "GET", "POST", "PUT", "HEAD"])
        c["body"] = r.choice([0, 1, 200, 6000]) if c["method"] in ("POST", "PUT") else 0
        c["second_on_conn"] = r.random() < 0.25
        c["unterminated"] = zone in ("over", "far") and r.random() < 0.15   # never sends the end of the head
        c["version"] = "HTTP/1.0" if r.random() < 0.1 else "HTTP/1.1"
        if zone != "under" and r.random() < 0.07:
            # HTTP/0.9 simple-request: the whole head is the request line (no header section, no req id)
            c.update(version="HTTP/0.9", method="GET", body=0, second_on_conn=False, where="startline")
    else:
        c["status"] = r.choice([200, 200, 200, 404, 301, 500])
        c["framing"] = r.choice(["cl", "chunked", "close"])
        c["cache"] = r.random() < 0.5
        c["interim"] = r.choice([None, None, None, "100", "103", "big103"])
        c["bodylen"] = r.choice([0, 10, 5000])
        c["method"] = r.choice(["GET", "GET", "GET", "HEAD"])
    return c


def split_pad(c, need, marker):
    """distribute `need` pad bytes: returns (start_line_pad_len, [100-byte header count], x_pad_value)"""
    where = c["where"]
    line = 0
    nh = 0
    if where == "startline":
        # MAX_URL (8 KB) is a different limit: keep the start line below it unless the head is over the limit anyway
        line = need if c["delta"] >= 2 else min(need, 6000)
        need -= line
    elif where == "mixed":
        line = min(need // 3, 3000)
        need -= line
    elif where == "many-headers":
        nh = need // 100
        need -= nh * 100
    v = (marker + "v" * need)[:need] if need >= len(marker) else "v" * need
    return line, nh, v


def hundred(i, marker):
    name = f"X-Pad-{i}"
    return (name, (marker + "w" * 100)[:100 - len(name) - 4])


def build_request(c, url_base, req_id, marker):
    """returns (bytes, head_len) with head_len == c['size'] exactly (or None if the size cannot be met)"""
    body = (b"B" * c["body"]) if c["method"] in ("POST", "PUT") else None
    if c["version"] == "HTTP/0.9":
        size = c["size"] + (2 if c["unterminated"] else 0)
        stem = f"GET {url_base}/".encode()
        if size - len(stem) - 2 < 0:
            return None, None
        return stem + b"p" * (size - len(stem) - 2) + b"\r\n", size

    def make(line, nh, v):
        url = url_base + ("/" + "p" * (line - 1) if line >= 1 else "")
        hs = [hundred(i, marker) for i in range(nh)] + [("X-Pad", v)]
        if c["version"] == "HTTP/1.1" and not c["second_on_conn"]:
            hs.append(("Connection", "close"))
        wire = request_bytes(c["method"], url, hs, body, c["version"], req_id)
        return wire, len(wire) - (len(body) if body else 0)

    # an unterminated head is built 4 bytes longer and sent without its final CRLF CRLF: c['size'] bytes hit the wire
    size = c["size"] + (4 if c["unterminated"] else 0)
    _, base_len = make(0, 0, "")
    need = size - base_len
    if need < 0:
        return None, None
    wire, hl = make(*split_pad(c, need, marker))
    if hl != size:
        return None, None
    return wire, hl


def build_response(c, marker):
    r = random.Random(c["split_seed"])
    hs = [("Content-Type", "application/octet-stream")]
    if c["cache"]:
        hs.append(("Cache-Control", "max-age=3600"))
    if c["status"] == 301:
        hs.append(("Location", "http://127.0.0.1/elsewhere"))
    resp = Resp(c["status"], hs, length=c["bodylen"], framing=c["framing"], date=http_date())
    base_headers = list(resp.headers)
    base_reason = resp.reason

    def head_len():
        w = resp.serialize(head_only=True)
        return w.find(b"\r\n\r\n") + 4

    resp.headers = base_headers + [("X-Pad", "")]
    need = c["size"] - head_len()
    if need < 0:
        return None
    line, nh, v = split_pad(c, need, marker)
    resp.reason = base_reason + (" " + "R" * (line - 1) if line >= 1 else "")
    resp.headers = base_headers + [hundred(i, marker) for i in range(nh)] + [("X-Pad", v)]
    hl = head_len()
    if hl != c["size"]:
        return None
    wire = resp.serialize()
    if c["nsplits"]:
        pts = set()
        for _ in range(c["nsplits"]):
            pts.add(r.randrange(1, hl) if r.random() < 0.8 else r.randrange(1, max(2, len(wire))))
        resp.splits = sorted(pts)
        resp.delay = c["delay"]
    if c["interim"] == "100":
        resp.interim = [b"HTTP/1.1 100 Continue\r\n\r\n"]
    elif c["interim"] == "103":
        resp.interim = [b"HTTP/1.1 103 Early Hints\r\nLink: </s.css>; rel=preload\r\n\r\n"]
    elif c["interim"] == "big103":
        # an interim response of the SAME size as the final one, then the final one
        pre, post = b"HTTP/1.1 103 Early Hints\r\nX-Pad: ", b"\r\n\r\n"
        padn = max(0, c["size"] - len(pre) - len(post))
        resp.interim = [pre + (marker.encode() + b"i" * padn)[:padn] + post]
    return resp


def run(a, res):
    if a.replay_data and "case" in a.replay_data:
        cases = [gen_case(a.replay_data.get("seed", a.seed), a.replay_data["case"])]
    else:
        cases = [gen_case(a.seed, n) for n in range(a.cases)]
    for ci, (rq, rp) in enumerate(CONFIGS):
        sub = [c for c in cases if c["cfg"] == ci]
        if sub:
            run_config(a, res, ci, rq, rp, sub)
    if not a.replay_data:
        cn = res.counters
        for k, why in (("req_under_forwarded", "no under-limit request was forwarded"), ("req_over_judged", "no over-limit request judged"),
                       ("rsp_under_relayed", "no under-limit response was relayed"), ("rsp_over_judged", "no over-limit response judged")):
            if cn.get(k, 0) < 3:
                res.inconclusive.append(why + f" ({cn.get(k, 0)})")


def run_config(a, res, ci, req_kb, rsp_kb, cases):
    table = {}
    made = {}
    lock = threading.Lock()

    def handler(req):
        path = req.target
        if "://" in path:
            path = "/" + path.split("://", 1)[1].partition("/")[2]
        key = "/".join(path.split("/")[:4])
        c = table.get(key)
        if c is None or c["side"] == "req":
            return Resp(200, [("Cache-Control", "no-store")], length=20)
        resp = build_response(c, f"mk{c['seed']}x{c['n']}x")
        if resp is None:
            return Resp(200, [("X-Verif-Unbuildable", "1")], length=5)
        with lock:
            made.setdefault(c["n"], []).append(resp)
        return resp

    lab = Lab(a, res, handler=handler, conf=f"cache_mem 32 MB\nrequest_header_max_size {req_kb} KB\nreply_header_max_size {rsp_kb} KB\n")
    wit = lambda c: {"seed": c["seed"], "case": c["n"]}

    def zone_of(c):
        return "over" if c["delta"] >= 2 else ("under" if c["delta"] <= -64 else "grey")

    def one_req(c):
        key = f"/c62/{c['seed']}/{c['n']}"
        table[key] = c
        rid = f"{c['seed']}.{c['n']}.q"
        marker = f"mk{c['seed']}x{c['n']}x"
        wire, hl = build_request(c, lab.url(key), rid, marker)
        if wire is None:
            res.count("req_unbuildable")
            return
        z = zone_of(c)
        feat = ("req", ci, z, min(c["delta"], 5000) // 1000 if z == "over" else None, c["where"], c["method"], bool(c["body"]), c["second_on_conn"], c["unterminated"], c["version"], min(c["nsplits"], 4))
        conn = lab.conn(timeout=20)
        if c["second_on_conn"]:
            conn.send(request_bytes("GET", lab.url(key + "/first"), [], None, "HTTP/1.1", rid + "0"))
            m0 = conn.read_response("GET", 20)
            if m0.start is None or m0.status != 200:
                res.count("req_first_on_conn_failed")
                conn.close()
                return
        r = random.Random(c["split_seed"])
        if c["unterminated"]:
            cut = 2 if c["version"] == "HTTP/0.9" else 4
            wire = wire[:hl - cut]
            hl -= cut
        pts = sorted({r.randrange(1, len(wire)) for _ in range(c["nsplits"])}) if len(wire) > 1 else []
        conn.send(wire, pts, c["delay"])
        m = conn.read_response(c["method"], timeout=20)
        conn.close()
        ups = lab.at_origin(rid)
        if c["version"] == "HTTP/0.9":
            with lab.org.lock:
                ups = [q for q in lab.org.requests if (q.target.split("://", 1)[-1].partition("/")[2] if "://" in q.target else q.target.lstrip("/")).startswith(key.lstrip("/") + "/")]
        if m.error and c["version"] == "HTTP/0.9" and z != "over":
            res.grey("http09-response-format")
            return
        if m.error:
            res.violation("client-bytes-invalid-http", f"{m.error}: {m.raw[:200]!r}", wit(c))
            return
        answered = m.start is not None
        st = m.status if answered else None
        if z == "grey":
            res.grey("request-head-within-64-bytes-of-limit")
            res.count(f"req_grey_delta{c['delta']}_{'fwd' if ups else st}")
            res.feature(*feat, bool(ups), st)
            return
        if z == "under":
            if ups and st == 200:
                res.count("req_under_forwarded")
                res.feature(*feat, "fwd")
            else:
                res.count(f"req_under_not_forwarded_{st}")
                res.note(f"under-limit request (head {hl} bytes, limit {req_kb} KB) not forwarded: status {st} (case {c['n']})")
                res.feature(*feat, "refused", st)
            return
        # ---- over the limit: judged
        res.count("req_over_judged")
        if c["version"] == "HTTP/0.9":
            res.count("req_over_judged_http09" + ("_single_write" if not c["nsplits"] else ""))
        if ups:
            res.violation("oversized-request-forwarded", f"request head of {hl} bytes (request_header_max_size {req_kb} KB = {req_kb * 1024}; padding in {c['where']}) reached the origin: {ups[0].method} {ups[0].target[:80]}...", wit(c))
            return
        if not answered:
            res.count("req_over_no_response")
            res.feature(*feat, "noresp")
            res.violation("oversized-request-not-answered", f"request head of {hl} bytes over the {req_kb} KB limit: not forwarded, but the client got no response (closed={m.closed} reset={m.reset} timed_out={m.timed_out}; unterminated={c['unterminated']})", wit(c))
            return
        res.count(f"req_over_status_{st}")
        if st not in (414, 431):
            res.violation(f"oversized-request-wrong-status:{st}", f"request head of {hl} bytes over the {req_kb} KB limit ({c['where']}, unterminated={c['unterminated']}) answered with {st} {m.start[1][:40]!r}, not 414/431", wit(c))
            return
        res.feature(*feat, "rejected", st)

    def one_rsp(c):
        key = f"/c62/{c['seed']}/{c['n']}"
        table[key] = c
        marker = f"mk{c['seed']}x{c['n']}x"
        z = zone_of(c)
        feat = ("rsp", ci, z, min(c["delta"], 5000) // 1000 if z == "over" else None, c["where"], c["status"], c["framing"], c["cache"], c["interim"], c["method"], min(c["nsplits"], 4))
        for which in (("first", "refetch") if c["cache"] else ("first",)):
            rid = f"{c['seed']}.{c['n']}.{which}"
            conn = lab.conn(timeout=20)
            conn.send(request_bytes(c["method"], lab.url(key), [("Connection", "close")], None, "HTTP/1.1", rid))
            m = conn.read_response(c["method"], timeout=20)
            interims = list(conn.interim)
            conn.close()
            with lock:
                resps = list(made.get(c["n"], []))
            if not resps:
                res.count("rsp_origin_not_reached")
                return
            if m.error:
                res.violation("client-bytes-invalid-http", f"{m.error}: {m.raw[:200]!r}", wit(c))
                return
            rids = {x.rid for x in resps}
            got_rid = m.header("X-Verif-Rid") if m.start is not None else None
            pad_seen = m.start is not None and any(marker in v for k, v in m.headers if k.lower().startswith("x-pad"))
            interim_pad = any(marker in v for im in interims for k, v in im.headers)
            relayed = (got_rid in rids) or pad_seen
            st = m.status if m.start is not None else None
            if z == "grey":
                res.grey("response-head-within-64-bytes-of-limit")
                res.count(f"rsp_grey_delta{c['delta']}_{'relayed' if relayed else st}")
                res.feature(*feat, which, relayed, st)
                continue
            if z == "under":
                if relayed:
                    res.count("rsp_under_relayed")
                    res.feature(*feat, which, "relayed")
                    if interim_pad:
                        res.count("rsp_under_big_interim_relayed")
                else:
                    res.count(f"rsp_under_not_relayed_{st}")
                    res.note(f"under-limit response (head {c['size']} bytes, limit {rsp_kb} KB) not relayed: client status {st} (case {c['n']} {which})")
                    res.feature(*feat, which, "refused", st)
                continue
            res.count("rsp_over_judged")
            if relayed:
                res.violation("oversized-reply-relayed" + (":from-cache" if which == "refetch" and not lab.at_origin(rid) else ""),
                              f"origin response head of {c['size']} bytes (reply_header_max_size {rsp_kb} KB = {rsp_kb * 1024}; padding in {c['where']}, interim={c['interim']}, {c['nsplits']} splits) "
                              f"was relayed: client got status {st} rid {got_rid} pad header present={pad_seen}", wit(c))
                return
            if interim_pad:
                res.violation("oversized-interim-reply-relayed", f"1xx response head of {c['size']} bytes over the {rsp_kb} KB limit was relayed to the client", wit(c))
                return
            res.count(f"rsp_over_client_status_{st}")
            res.feature(*feat, which, "blocked", st)

    def one(c):
        (one_req if c["side"] == "req" else one_rsp)(c)

    try:
        def wrapped(c):
            res.case({k: v for k, v in c.items()} if c["n"] % 31 == 0 else None)
            one(c)
        from concurrent.futures import ThreadPoolExecutor
        with ThreadPoolExecutor(8) as ex:
            list(ex.map(wrapped, cases))
    finally:
        lab.finish()


if __name__ == "__main__":
    base.main_wrapper("C62", run)
