#!/usr/bin/python3
"""C39 ICP, HTCP and SNMP listeners tolerate arbitrary datagrams (DESIGN 5.1).

Reference encoders build valid ICP v2/v3 queries (and other opcodes), HTCP TST/CLR/NOP/MON/SET (RFC 2756 layout and the old
Squid layout), SNMPv1/v2c GET/GETNEXT/SET/GETBULK with random OIDs and communities; every case is one datagram = a
reference message after 0..5 mutations (byte flips, length-field lies, truncation, extension to 64 KB, splices, pure
noise).  Datagrams are paced and acknowledged: after at most ACK_EVERY datagrams / ACK_BYTES bytes to one listener a valid
query that must be answered (ICP query -> ICP reply with our reqnum, HTCP TST -> TST response with our msg-id, SNMP GET ->
GetResponse with our request-id) is sent from the same socket and its reply awaited, so all earlier datagrams on that
socket were dequeued by Squid.  Every 100 datagrams an HTTP request through the proxy must succeed.
Oracle: no ASan report / assertion / FATAL / exit of squid (process monitors), HTTP keeps being served."""
import os, random, re, socket, struct, time
from lab import base
from lab.lab import Lab, Resp
from lab.squidproc import free_port

ACK_EVERY = 16
ACK_BYTES = 60000
MAXDG = 65507

# ------------------------------------------------------------------------------------------------ reference encoders


def icp_msg(opcode, version, reqnum, payload, flags=0, pad=0, shostid=0, length=None):
    ln = 20 + len(payload) if length is None else length
    return struct.pack("!BBHIIII", opcode & 255, version & 255, ln & 0xffff, reqnum & 0xffffffff, flags & 0xffffffff, pad & 0xffffffff, shostid & 0xffffffff) + payload


def icp_query(url, reqnum, version=2, flags=0):
    return icp_msg(1, version, reqnum, b"\x7f\x00\x00\x01" + url + b"\0", flags)


def countstr(b):
    return struct.pack("!H", len(b) & 0xffff) + b


def htcp_specifier(method=b"GET", uri=b"http://verif.test/", version=b"1.1", hdrs=b"Accept: */*\r\n"):
    return countstr(method) + countstr(uri) + countstr(version) + countstr(hdrs)


def htcp_msg(opcode, msg_id, opdata, rr=0, f1=1, response=0, minor=1, auth=b"\x00\x02", major=0):
    if minor != 0:
        data = struct.pack("!HBBI", (8 + len(opdata)) & 0xffff, ((opcode & 15) << 4) | (response & 15), ((f1 & 1) << 1) | (rr & 1), msg_id & 0xffffffff) + opdata
    else:
        # "old Squid" layout: uint16 length, 2 pad bytes, a 32-bit little-endian bit-field word, msg id
        bits = (opcode & 15) | ((response & 15) << 4) | ((f1 & 1) << 14) | ((rr & 1) << 15)
        data = struct.pack("!HH", (12 + len(opdata)) & 0xffff, 0) + struct.pack("<I", bits) + struct.pack("!I", msg_id & 0xffffffff) + opdata
    total = 4 + len(data) + len(auth)
    return struct.pack("!HBB", total & 0xffff, major, minor) + data + auth


def ber_len(n):
    if n < 128:
        return bytes([n])
    b = n.to_bytes((n.bit_length() + 7) // 8, "big")
    return bytes([0x80 | len(b)]) + b


def ber(tag, content):
    return bytes([tag]) + ber_len(len(content)) + content


def ber_int(v, tag=2):
    n = max(1, (v.bit_length() + 8) // 8)
    return ber(tag, v.to_bytes(n, "big", signed=True))


def ber_oid(arcs):
    out = bytearray([arcs[0] * 40 + arcs[1]]) if len(arcs) >= 2 else bytearray([0])
    for a in arcs[2:]:
        chunk = [a & 0x7f]
        a >>= 7
        while a:
            chunk.append(0x80 | (a & 0x7f))
            a >>= 7
        out += bytes(reversed(chunk))
    return ber(6, bytes(out))


def snmp_msg(pdu_tag, reqid, oids, community=b"public", version=0, err=0, erridx=0, values=None):
    vbs = b""
    for i, o in enumerate(oids):
        val = values[i] if values else ber(5, b"")
        vbs += ber(0x30, ber_oid(o) + val)
    pdu = ber(pdu_tag, ber_int(reqid) + ber_int(err) + ber_int(erridx) + ber(0x30, vbs))
    return ber(0x30, ber_int(version) + ber(4, community) + pdu)


SQUID_MIB = (1, 3, 6, 1, 4, 1, 3495, 1)
KNOWN_OIDS = [SQUID_MIB + x for x in [(1, 1, 0), (1, 2, 0), (1, 3, 0), (2, 1, 0), (2, 2, 0), (2, 3, 0), (2, 5, 1, 0), (2, 5, 2, 0), (3, 1, 1, 0), (3, 1, 13, 0), (3, 2, 1, 1, 0), (3, 2, 1, 10, 0),
                                              (3, 2, 2, 1, 2, 1), (3, 2, 2, 1, 2, 5), (3, 2, 2, 1, 2, 60), (4, 1, 1, 0), (4, 1, 2, 0), (4, 2, 1, 0), (4, 3, 1, 0), (5, 1, 1, 1), (5, 2, 1, 1)]]


# ------------------------------------------------------------------------------------------------ generators

def rnd_url(r):
    if r.random() < 0.25:
        return getattr(r, "hit_prefix", b"http://verif.test/hit/") + r.choice([b"0", b"1", b"2", b"3"])
    return r.choice([b"http://verif.test/", b"http://127.0.0.1:1/x", b"http://a.b/" + bytes(r.randrange(33, 127) for _ in range(r.randrange(0, 300))), b"", b"ftp://x/", b"urn:x:y",
                     b"http://[::1]/", b"http://" + b"a" * r.choice([255, 256, 4000]) + b"/", bytes(r.randrange(256) for _ in range(r.randrange(0, 40))), b"cache_object://h/info", b"*", b"http://h/%00%ff"])


def gen_icp(r):
    ver = r.choice([2, 2, 2, 3, 3, r.randrange(256)])
    op = r.choice([1, 1, 1, 1, 2, 3, 4, 10, 11, 21, 22, 23, 0, 24, r.randrange(256)])
    url = rnd_url(r)
    if op == 1:
        payload = bytes(r.randrange(256) for _ in range(4)) + url + (b"\0" if r.random() < 0.8 else b"")
    elif op == 23:
        body = bytes(r.randrange(256) for _ in range(r.randrange(0, 200)))
        payload = url + b"\0" + struct.pack("!H", r.choice([len(body), 0, 0xffff, len(body) + 1])) + body
    else:
        payload = url + (b"\0" if r.random() < 0.8 else b"")
    flags = r.choice([0, 0x80000000, 0x40000000, 0xC0000000, r.randrange(1 << 32)])
    return icp_msg(op, ver, r.randrange(1 << 32), payload, flags, r.choice([0, r.randrange(1 << 32)]), r.randrange(1 << 32))


def gen_htcp(r):
    op = r.choice([1, 1, 1, 1, 4, 4, 0, 2, 3, r.randrange(16)])
    method = r.choice([b"GET", b"HEAD", b"POST", b"", b"PURGE", bytes(r.randrange(256) for _ in range(r.randrange(0, 20))), b"G" * 300])
    ver = r.choice([b"1.1", b"1.0", b"", b"HTTP/1.1", b"9" * 50])
    hdrs = r.choice([b"", b"Accept: */*\r\n", b"Host: x\r\nCache-Control: no-cache\r\n\r\n", b"X: " + b"y" * r.choice([10, 2000, 7000]) + b"\r\n", bytes(r.randrange(256) for _ in range(r.randrange(0, 100))),
                     b"NoColon\r\n", b"Content-Length: 1\r\nContent-Length: 2\r\n"])
    url = rnd_url(r)
    if url.startswith(getattr(r, "hit_prefix", b"\0")) and r.random() < 0.8:
        method, ver, hdrs = b"GET", b"1.1", r.choice([b"Accept: */*\r\n", b"", b"Accept: text/x\r\n", b"Cache-Control: max-age=0\r\n"])
    spec = htcp_specifier(method, url, ver, hdrs)
    rr = r.choice([0, 0, 0, 1])
    if op == 4:
        opdata = struct.pack("!H", r.choice([0, 1, 2, 3, 0xffff])) + spec
    elif op == 1 and rr == 1:
        # TST response layout: resp-hdrs, entity-hdrs, cache-hdrs
        opdata = countstr(hdrs) + countstr(b"Content-Type: x\r\n") + countstr(r.choice([b"", b"Cache-Vary: x\r\n", b"Cache-To: " + bytes(r.randrange(256) for _ in range(30)) + b"\r\n"]))
    elif op in (0,):
        opdata = b""
    else:
        opdata = spec
    auth = r.choice([b"\x00\x02", b"\x00\x02", b"", b"\x00\x14" + bytes(18), struct.pack("!H", r.randrange(65536)) + bytes(r.randrange(256) for _ in range(r.randrange(0, 40)))])
    return htcp_msg(op, r.randrange(1 << 32), opdata, rr=rr, f1=r.choice([0, 1]), response=r.choice([0, 0, 1, r.randrange(16)]), minor=r.choice([1, 1, 0, r.randrange(256)]), auth=auth,
                    major=r.choice([0, 0, 0, 0, 0, 1, r.randrange(256)]))


def rnd_oid(r):
    k = r.random()
    if k < 0.5:
        return r.choice(KNOWN_OIDS)
    if k < 0.7:
        return SQUID_MIB + tuple(r.choice([0, 1, 2, 3, 4, 5, 255, 65536, (1 << 32) - 1, 1 << 40]) for _ in range(r.randrange(0, 12)))
    if k < 0.8:
        return (1, 3, 6, 1, 2, 1, 1, r.randrange(1, 8), 0)
    return tuple([r.choice([0, 1, 2]), r.randrange(40)] + [r.choice([0, 1, 127, 128, 16383, 16384, (1 << 31) - 1, (1 << 32) - 1, 1 << 35, 1 << 64]) for _ in range(r.randrange(0, 130))])


def gen_snmp(r):
    tag = r.choice([0xA0, 0xA0, 0xA1, 0xA1, 0xA3, 0xA5, 0xA2, 0xA4, 0xA6, 0xA7, r.randrange(256)])
    n = r.choice([1, 1, 1, 2, 5, 0, 40])
    oids = [rnd_oid(r) for _ in range(n)]
    values = None
    if tag in (0xA3, 0xA2) or r.random() < 0.1:
        values = [r.choice([ber(5, b""), ber_int(r.randrange(-2 ** 31, 2 ** 31)), ber(4, bytes(r.randrange(256) for _ in range(r.randrange(0, 300)))), ber_oid(rnd_oid(r)), ber(0x40, bytes(4)), ber(0x41, b"\xff" * 5),
                            ber(0x43, b"\x01\x00"), ber(0x46, bytes(9)), ber(0x80, b""), ber(0x82, b""), ber(r.randrange(256), bytes(r.randrange(256) for _ in range(r.randrange(0, 20))))]) for _ in oids]
    comm = r.choice([b"public", b"public", b"public", b"", b"private", b"p" * 300, bytes(r.randrange(256) for _ in range(r.randrange(0, 40))),
                    # boundary lengths around powers of two (fixed-size community buffers)
                    b"c" * r.choice([31, 32, 33, 63, 64, 65, 126, 127, 128, 129, 130, 255, 256, 257, 1000])])
    ver = r.choice([0, 0, 1, 1, 3, 2, -1, 1 << 40])
    err, erridx = (r.choice([0, 0, 1, 5, 50, -1, 1 << 31]), r.choice([0, 0, 1, 100, -1]))
    return snmp_msg(tag, r.randrange(-2 ** 31, 2 ** 31), oids, comm, ver, err, erridx, values)


GEN = {"icp": gen_icp, "htcp": gen_htcp, "snmp": gen_snmp}


def mutate(r, d, proto):
    d = bytearray(d)
    for _ in range(r.choice([0, 0, 1, 1, 2, 3, 5])):
        op = r.choice(["flip", "set", "trunc", "extend", "lenlie", "splice", "dup", "ff", "zero", "berlen"])
        if op == "flip" and d:
            i = r.randrange(len(d))
            d[i] ^= 1 << r.randrange(8)
        elif op == "set" and d:
            d[r.randrange(len(d))] = r.choice([0, 1, 0x7f, 0x80, 0x81, 0x82, 0x84, 0xff, r.randrange(256)])
        elif op == "trunc" and d:
            del d[r.randrange(len(d)):]
        elif op == "extend":
            k = r.choice([1, 2, 7, 100, 1400, 8192, 16384, MAXDG])
            d += bytes(r.randrange(256) for _ in range(min(k, 256))) * (k // 256 + 1)
        elif op == "lenlie" and len(d) >= 4:
            offs = {"icp": [2], "htcp": [0, 4, 12, len(d) - 2], "snmp": [1, 2, 3]}[proto] + [r.randrange(len(d) - 1)]
            o = r.choice([x for x in offs if 0 <= x <= len(d) - 2] or [0])
            v = r.choice([0, 1, 2, 7, 8, 19, 20, 21, len(d), len(d) - 1, len(d) + 1, 0x7fff, 0x8000, 0xffff, max(0, len(d) - 4), max(0, len(d) - 6)])
            d[o:o + 2] = struct.pack("!H", v & 0xffff)
        elif op == "splice" and d:
            i = r.randrange(len(d))
            d[i:i] = bytes(r.randrange(256) for _ in range(r.randrange(1, 60)))
        elif op == "dup" and d:
            i = r.randrange(len(d))
            j = min(len(d), i + r.randrange(1, 200))
            d[i:i] = d[i:j]
        elif op == "ff" and d:
            i = r.randrange(len(d))
            d[i:i + r.randrange(1, 9)] = b"\xff" * r.randrange(1, 9)
        elif op == "zero" and d:
            i = r.randrange(len(d))
            d[i:i + r.randrange(1, 9)] = b"\0" * r.randrange(1, 9)
        elif op == "berlen" and len(d) > 3:
            i = r.randrange(len(d) - 1)
            d[i:i + 1] = r.choice([b"\x80", b"\x81\xff", b"\x82\xff\xff", b"\x84\x7f\xff\xff\xff", b"\x84\xff\xff\xff\xff", b"\x88" + b"\xff" * 8, b"\xff", b"\x83\x00\x00\x01"])
    return bytes(d[:MAXDG])


class EnvRandom(random.Random):
    """the case PRNG; additionally carries the environment's cacheable URL prefix so that queries can name cached objects"""
    hit_prefix = b"http://verif.test/hit/"


def gen_case(seed, n, hit_prefix=None):
    r = EnvRandom(f"C39:{seed}:{n}")
    if hit_prefix:
        r.hit_prefix = hit_prefix
    proto = r.choice(["icp", "htcp", "snmp"])
    k = r.random()
    if k < 0.04:
        d = bytes(r.randrange(256) for _ in range(r.choice([0, 1, 3, 4, 8, 19, 20, 21, 100, 2000, 9000, 20000])))
        kind = "noise"
    else:
        d = GEN[proto](r)
        d2 = mutate(r, d, proto)
        kind = "valid" if d2 == d else "mutant"
        d = d2
    return {"n": n, "seed": seed, "proto": proto, "data": d, "kind": kind}


# ------------------------------------------------------------------------------------------------ check

class Udp:
    def __init__(self, port):
        self.s = socket.socket(socket.AF_INET, socket.SOCK_DGRAM)
        self.s.bind(("127.0.0.2", 0))     # not 127.0.0.1: ICP ignores datagrams whose source IP equals its own socket address
        self.s.setsockopt(socket.SOL_SOCKET, socket.SO_SNDBUF, 1 << 20)
        self.dst = ("127.0.0.1", port)
        self.replies = 0
        self.kinds = {}
        self.classify = None

    def note(self, d):
        self.replies += 1
        k = self.classify(d) if self.classify else "?"
        self.kinds[k] = self.kinds.get(k, 0) + 1

    def send(self, d):
        try:
            self.s.sendto(d, self.dst)
            return True
        except OSError:
            return False

    def wait(self, pred, timeout):
        """read datagrams until pred(datagram) or timeout"""
        end = time.time() + timeout
        while True:
            left = end - time.time()
            if left <= 0:
                return None
            self.s.settimeout(left)
            try:
                d, _ = self.s.recvfrom(70000)
            except socket.timeout:
                return None
            except OSError:
                continue        # ICMP port unreachable surfaced as ECONNREFUSED while squid is down
            self.note(d)
            if pred(d):
                return d

    def drain(self):
        self.s.settimeout(0)
        try:
            while True:
                self.note(self.s.recvfrom(70000)[0])
        except OSError:
            pass


def run(a, res):
    ports = {p: free_port(udp=True) for p in ("icp", "htcp", "snmp")}
    conf = f"""
icp_port {ports['icp']}
htcp_port {ports['htcp']}
snmp_port {ports['snmp']}
udp_incoming_address 127.0.0.1
snmp_incoming_address 127.0.0.1
icp_access allow all
htcp_access allow all
htcp_clr_access allow all
snmp_access allow all
cache_mem 8 MB
"""
    def handler(req):
        hs = [("Cache-Control", "max-age=600"), ("ETag", '"e1"'), ("Last-Modified", "Mon, 01 Jan 2024 00:00:00 GMT")]
        if req.target.endswith("/hit/1"):
            hs.append(("Vary", "Accept"))
        if req.target.endswith("/hit/2"):
            hs.append(("X-Long", "z" * 3000))
        return Resp(200, hs, length=30)

    lab = Lab(a, res, handler=handler, conf=conf, debug="ALL,1 49,3")
    hit_prefix = f"http://127.0.0.1:{lab.org.port}/hit/".encode()

    def prime():
        for i in range(4):
            try:
                lab.fetch("GET", f"/hit/{i}", headers=[("Accept", "*/*")], req_id=f"{a.seed}.prime.{i}")
            except OSError:
                pass
    prime()
    lab.crash_is_violation = True
    cl = lab.sq.log_text()
    listening = {"icp": "Accepting ICP messages" in cl, "htcp": "Accepting HTCP messages" in cl, "snmp": "Accepting SNMP messages" in cl}
    for p, ok in listening.items():
        if not ok:
            res.inconclusive.append(f"{p}: listener not opened by this squid build/config (no 'Accepting {p.upper()} messages' in cache.log)")
    socks = {p: Udp(ports[p]) for p in ports}
    socks["icp"].classify = lambda d: "op%d" % d[0] if d else "empty"
    socks["htcp"].classify = lambda d: ("op%d/resp%d" % (d[6] >> 4, d[6] & 15)) if len(d) > 6 else "short"
    socks["snmp"].classify = lambda d: "getresponse" if (d[:1] == b"\x30" and b"\xa2" in d[:60]) else "other"
    ackn = [0]
    acks_ok = {p: 0 for p in ports}
    acks_fail = {p: 0 for p in ports}
    outstanding = {p: [0, 0, []] for p in ports}   # datagrams, bytes, case numbers since last ack
    sent_total = {p: 0 for p in ports}
    crashes = [0]

    def ack(p, timeout=3.0):
        ackn[0] += 1
        ident = 0x56000000 | (ackn[0] & 0xffffff)
        u = socks[p]
        for attempt in range(3):
            if p == "icp":
                u.send(icp_query(b"http://verif.test/ack/%d" % ackn[0], ident))
                d = u.wait(lambda d: len(d) >= 20 and struct.unpack("!I", d[4:8])[0] == ident and d[0] != 1, timeout)
            elif p == "htcp":
                u.send(htcp_msg(1, ident, htcp_specifier(uri=b"http://verif.test/ack/%d" % ackn[0]), rr=0, f1=1))
                d = u.wait(lambda d: len(d) >= 12 and struct.unpack("!I", d[8:12])[0] == ident and (d[7] & 1) == 1, timeout)
            else:
                rid = ident & 0x7fffffff
                u.send(snmp_msg(0xA0, rid, [SQUID_MIB + (1, 3, 0)]))
                d = u.wait(lambda d: d[:1] == b"\x30" and b"\xa2" in d and ber_int(rid) in d, timeout)
            if d is not None:
                acks_ok[p] += 1
                outstanding[p] = [0, 0, []]
                return True
            if not lab.sq.alive():
                break
        acks_fail[p] += 1
        return False

    def http_ok(tag):
        for attempt in range(2):
            try:
                m = lab.fetch("GET", f"/c39/{a.seed}/{tag}/{attempt}", req_id=f"{a.seed}.{tag}.{attempt}", timeout=10)
                if m.start is not None and m.status == 200 and m.complete:
                    return True
            except OSError:
                pass
            if not lab.sq.alive():
                return False
        return False

    def handle_trouble(n, why):
        """squid died or stopped answering: report, restart, continue"""
        suspects = sorted(set(sum((outstanding[p][2] for p in ports), [])))
        wit = {"seed": a.seed, "case": suspects[0] if suspects else n, "upto": suspects[-1] if suspects else n}
        time.sleep(0.3)
        if not lab.sq.alive():
            crashes[0] += 1
            lab.check_health(wit)           # ASan / assertion / FATAL / exit => violation crash:...
            lab.sq.stop()
            lab.sq.cleanup_ipc()
            for f in os.listdir(lab.sq.work):
                if f.startswith(("asan.", "ubsan.")):
                    os.rename(os.path.join(lab.sq.work, f), os.path.join(lab.sq.work, "seen-" + f))
            try:
                os.rename(lab.sq.cache_log, lab.sq.cache_log + ".crash%d" % crashes[0])
            except OSError:
                pass
            lab.sq.start(init=False)
            prime()
        else:
            res.violation("http-unresponsive:" + why, f"squid is alive but {why} after datagrams of cases {wit['case']}..{wit['upto']}", wit)
        for p in ports:
            outstanding[p] = [0, 0, []]

    if a.replay_data and "case" in a.replay_data:
        seed = a.replay_data.get("seed", a.seed)
        todo = range(a.replay_data["case"], a.replay_data.get("upto", a.replay_data["case"]) + 1)
    else:
        seed = a.seed
        todo = range(a.cases)
    try:
        # every protocol must answer a valid query before anything hostile is sent
        first = {p: (listening[p] and ack(p)) for p in ports}
        for p in ports:
            if listening[p] and not first[p]:
                res.inconclusive.append(f"{p}: a valid reference query never got a reply -- datagrams to this listener prove nothing")
        for i, n in enumerate(todo):
            c = gen_case(seed, n, hit_prefix)
            p = c["proto"]
            res.case({"case": n, "proto": p, "kind": c["kind"], "len": len(c["data"]), "hex": c["data"][:48].hex()} if n % 211 == 0 else None)
            if not listening[p]:
                res.count("skipped_no_listener:" + p)
                continue
            ok = socks[p].send(c["data"])
            sent_total[p] += 1 if ok else 0
            o = outstanding[p]
            o[0] += 1
            o[1] += len(c["data"])
            o[2].append(n)
            d = c["data"]
            res.feature(p, c["kind"], min(len(d), 70000).bit_length(), d[0] if d and p != "htcp" else (d[6] >> 4 if len(d) > 6 else -1), d[1] if len(d) > 1 and p == "icp" else 0)
            if o[0] >= ACK_EVERY or o[1] >= ACK_BYTES:
                if first[p] and not ack(p):
                    if not lab.sq.alive():
                        handle_trouble(n, "ack")
                    else:
                        res.count("ack_timeout_while_alive:" + p)
                        o[0] = o[1] = 0
                        o[2] = []
                elif not first[p]:
                    time.sleep(0.01)
                    outstanding[p] = [0, 0, []]
                socks[p].drain()
            if (i + 1) % 100 == 0:
                for q in ports:
                    if first[q] and outstanding[q][0]:
                        ack(q)
                if not http_ok(n):
                    handle_trouble(n, "an HTTP request through the proxy fails")
                else:
                    res.count("http_probes_ok")
                    prime()         # HTCP CLR mutants purge the cached objects: keep something to hit
        for q in ports:
            if first[q] and outstanding[q][0]:
                ack(q)
        if not http_ok("final"):
            handle_trouble(todo[-1] if len(todo) else 0, "an HTTP request through the proxy fails")
        else:
            res.count("http_probes_ok")
        # how many datagrams did the handlers really process?
        try:
            txt = lab.sq.mgr("counters")
            for key in ("icp.pkts_recv", "htcp.pkts_recv", "icp.pkts_sent", "htcp.pkts_sent"):
                m = re.search(r"(?m)^%s = (\d+)" % re.escape(key), txt)
                if m:
                    res.count("mgr:" + key, int(m.group(1)))
            info = lab.sq.mgr("info")
            for key, label in (("htcp.pkts_recv", "Number of HTCP messages received"), ("htcp.pkts_sent", "Number of HTCP messages sent")):
                m = re.search(r"%s:\s*(\d+)" % label, info)
                if m:
                    res.count("mgr:" + key, int(m.group(1)))
        except OSError:
            res.note("mgr:counters not readable at the end")
        res.count("snmp_datagrams_logged_by_handler", lab.sq.log_text().count("snmpHandleUdp: FD"))
    finally:
        lab.finish()
    for p in ports:
        res.count("sent:" + p, sent_total[p])
        res.count("acks_ok:" + p, acks_ok[p])
        res.count("acks_failed:" + p, acks_fail[p])
        res.count("replies_seen:" + p, socks[p].replies)
        for k, v in sorted(socks[p].kinds.items()):
            res.count(f"reply:{p}:{k}", v)
    res.count("squid_restarts_after_crash", crashes[0])
    if not a.replay_data:
        for p in ports:
            if listening[p] and acks_ok[p] and acks_fail[p] > max(2, acks_ok[p] // 10):
                res.inconclusive.append(f"{p}: {acks_fail[p]} of {acks_ok[p] + acks_fail[p]} acknowledgement queries were not answered")


if __name__ == "__main__":
    base.main_wrapper("C39", run)
