#!/usr/bin/python3
"""C15 Range responses contain exactly the requested bytes (DESIGN 5.1).

Per case a fresh URL whose representation is one fixed PRNG byte string OBJ (0..200 KB, sizes around page/buffer
boundaries). Optionally the object is first cached by a plain GET (and a second plain GET confirms the hit). Then 2-5
Range requests with random range sets are sent. Paths under /c15n/ are subject to `range_offset_limit none` (squid
fetches the whole object on a miss and builds the 206 itself); under /c15/ the default applies (on a miss squid
forwards the Range and relays the origin's 200/206/416, which the stub computes from the same reference evaluator).

Oracle for every Range response the client receives:
 * 206 single part: Content-Range `bytes s-e/L` with L == len(OBJ), s <= e < L, body == OBJ[s..e];
 * 206 multipart/byteranges: strict MIME parse (delimiters, part headers, exact part lengths from Content-Range,
   close delimiter, nothing but an optional CRLF after it); every part as above;
 * the union of the parts covers the union of the satisfiable requested ranges (RFC 9110 14.1.2 reference evaluator);
 * 200: body == OBJ (complete representation); 416: only when no requested range is satisfiable.
Grey: zero-length objects (satisfiability of suffix ranges changed between RFC 7233 and 9110); parts that carry bytes
nobody asked for are counted (coalescing is allowed), not judged."""
import os, random, re, time
from lab import base
from lab.lab import Lab, run_cases, Resp, make_body
from lab.x_cachelab import path_of, RidBook, liveness_conf

LIVENESS = bool(os.environ.get("VERIF_LIVENESS_ORACLE"))    # validation only: reference expects one byte more for suffix ranges
SIZES = [1, 2, 10, 100, 1000, 4095, 4096, 4097, 8192, 32767, 32768, 32769, 65535, 65536, 65537, 100000, 200000]


def gen_ranges(r, L):
    """list of specs: ('fl', first, last) | ('open', first) | ('suffix', n)"""
    n = r.choice([1, 1, 1, 1, 2, 2, 3, 4, 6, 8])
    specs = []
    style = r.choice(["random", "random", "ascending", "overlap", "adjacent"])
    cur = 0
    for i in range(n):
        k = r.random()
        hi = max(1, L)
        if style == "ascending" and L > 0:
            first = min(L - 1, cur + r.randrange(0, max(1, L // n)))
            last = first + r.randrange(0, max(1, L // n))
            cur = last + 1 + r.choice([0, 1, 5, 100])
            specs.append(("fl", first, last))
        elif style == "adjacent" and L > 0:
            first = cur
            last = first + r.choice([0, 1, 9, 99, 4095])
            cur = last + 1
            specs.append(("fl", first, last))
        elif style == "overlap" and specs and specs[-1][0] == "fl":
            f0, l0 = specs[-1][1], specs[-1][2]
            first = r.randrange(f0, l0 + 1)
            specs.append(("fl", first, first + r.randrange(0, max(1, L // 4) + 1)))
        elif k < 0.5:
            first = r.choice([0, 0, 1, r.randrange(hi), r.randrange(hi), hi - 1, max(0, hi - 2)])
            last = first + r.choice([0, 0, 1, 2, 99, 4095, 4096, 65535, r.randrange(hi), hi])
            specs.append(("fl", first, last))
        elif k < 0.62:
            specs.append(("open", r.choice([0, 1, r.randrange(hi), hi - 1])))
        elif k < 0.8:
            specs.append(("suffix", r.choice([1, 1, 2, 100, 4096, r.randrange(1, hi + 1), hi, hi + 1, 10 * hi])))
        elif k < 0.9:
            # beyond the end
            first = L + r.choice([0, 1, 100, L])
            specs.append(r.choice([("fl", first, first + r.randrange(0, 100)), ("open", first)]))
        elif k < 0.95:
            specs.append(("fl", r.randrange(hi), r.choice([2 ** 31 - 1, 2 ** 31, 2 ** 32 + 5, 2 ** 62])))
        else:
            specs.append(("suffix", 0) if r.random() < 0.3 else ("fl", 0, hi - 1))
    if style == "random" and r.random() < 0.3:
        r.shuffle(specs)
    return specs


def render_range(r, specs):
    items = []
    for s in specs:
        if s[0] == "fl":
            items.append("%d-%d" % (s[1], s[2]))
        elif s[0] == "open":
            items.append("%d-" % s[1])
        else:
            items.append("-%d" % s[1])
    sep = r.choice([",", ",", ", ", " , "])
    return "bytes=" + sep.join(items)


def satisfiable(specs, L):
    """RFC 9110 14.1.2: list of (s, e) for the satisfiable specs, in request order"""
    out = []
    for s in specs:
        if L <= 0:
            continue
        if s[0] == "fl":
            if s[1] < L:
                out.append((s[1], min(s[2], L - 1)))
        elif s[0] == "open":
            if s[1] < L:
                out.append((s[1], L - 1))
        else:
            if s[1] > 0:
                out.append((max(0, L - s[1] - (1 if LIVENESS else 0)), L - 1))
    return out


def union(ranges):
    out = []
    for s, e in sorted(ranges):
        if out and s <= out[-1][1] + 1:
            out[-1][1] = max(out[-1][1], e)
        else:
            out.append([s, e])
    return [tuple(x) for x in out]


def covers(parts, wanted):
    """every byte of `wanted` (list of (s,e)) is inside union(parts)"""
    u = union(parts)
    for s, e in union(wanted):
        if not any(a <= s and e <= b for a, b in u):
            return False
    return True


def gen_case(seed, n):
    r = random.Random(f"C15:{seed}:{n}")
    c = {"n": n, "seed": seed}
    c["len"] = r.choice(SIZES + SIZES + [0, r.randrange(1, 3000), r.randrange(1, 200001)])
    c["cached"] = r.random() < 0.6
    c["rol_none"] = r.random() < 0.4
    c["origin_mode"] = r.choice(["honour", "honour", "honour", "ignore"])     # how the stub treats a forwarded Range
    c["origin_framing"] = r.choice(["cl", "cl", "cl", "chunked"])
    c["ctype"] = r.choice(["application/octet-stream", "text/plain", None])
    c["reqs"] = []
    for _ in range(r.randrange(2, 6)):
        specs = gen_ranges(r, c["len"])
        c["reqs"].append({"specs": specs, "hdr": render_range(r, specs)})
    return c


CR_RE = re.compile(r"bytes (\d+)-(\d+)/(\d+)\Z")


def parse_multipart(body, boundary):
    """strict multipart/byteranges parse. Returns list of (headers, s, e, total, data) or raises ValueError"""
    delim = b"--" + boundary
    pos = 0
    if body.startswith(b"\r\n"):
        pos = 2
    parts = []
    if body[pos:pos + len(delim)] != delim:
        raise ValueError("body does not start with the dash-boundary: %r" % body[:60])
    pos += len(delim)
    while True:
        if body[pos:pos + 2] == b"--":
            pos += 2
            rest = body[pos:]
            if rest not in (b"", b"\r\n"):
                raise ValueError("%d bytes after the close delimiter: %r" % (len(rest), rest[:40]))
            if not parts:
                raise ValueError("multipart body without parts")
            return parts
        if body[pos:pos + 2] != b"\r\n":
            raise ValueError("delimiter not followed by CRLF or '--' at %d: %r" % (pos, body[pos:pos + 20]))
        pos += 2
        he = body.find(b"\r\n\r\n", pos)
        if he < 0:
            raise ValueError("part header block not terminated at %d" % pos)
        hdrs = []
        for line in body[pos:he].split(b"\r\n"):
            if b":" not in line or line[:1] in (b" ", b"\t") or b"\n" in line or b"\r" in line:
                raise ValueError("bad part header line %r" % line[:60])
            k, v = line.split(b":", 1)
            if not re.fullmatch(rb"[!#$%&'*+\-.^_`|~0-9A-Za-z]+", k):
                raise ValueError("bad part header name %r" % k[:40])
            hdrs.append((k.decode("latin1").lower(), v.strip(b" \t").decode("latin1")))
        crs = [v for k, v in hdrs if k == "content-range"]
        if len(crs) != 1:
            raise ValueError("part with %d Content-Range headers" % len(crs))
        m = CR_RE.match(crs[0])
        if not m:
            raise ValueError("bad part Content-Range %r" % crs[0])
        s, e, tot = int(m.group(1)), int(m.group(2)), int(m.group(3))
        if e < s:
            raise ValueError("part Content-Range last < first: %r" % crs[0])
        pos = he + 4
        data = body[pos:pos + (e - s + 1)]
        if len(data) != e - s + 1:
            raise ValueError("part %d-%d truncated: only %d bytes left" % (s, e, len(data)))
        pos += e - s + 1
        if body[pos:pos + 2 + len(delim)] != b"\r\n" + delim:
            raise ValueError("part %d-%d not followed by CRLF dash-boundary: %r" % (s, e, body[pos:pos + 30]))
        pos += 2 + len(delim)
        parts.append((hdrs, s, e, tot, data))


def boundary_of(ctype):
    m = re.match(r'\s*multipart/byteranges\s*;\s*boundary\s*=\s*(?:"([^"]+)"|([^\s;]+))\s*\Z', ctype or "", re.I)
    if not m:
        return None
    return (m.group(1) or m.group(2)).encode("latin1")


def run(a, res):
    table = {}
    book = RidBook()

    def obj_of(c):
        return make_body("o%d.%d" % (c["seed"], c["n"]), c["len"])

    def handler(req):
        c = table.get(path_of(req))
        if c is None:
            return Resp(404, length=5)
        obj = obj_of(c)
        L = len(obj)
        hs = [("Cache-Control", "max-age=3600"), ("ETag", '"o%d"' % c["n"])]
        if c["ctype"]:
            hs.append(("Content-Type", c["ctype"]))
        rng = [v for k, v in req.headers if k.lower() == "range"]
        if rng and c["origin_mode"] == "honour":
            m = re.fullmatch(r"bytes=(.*)", rng[0].strip())
            specs = []
            ok = bool(m)
            if m:
                for it in m.group(1).split(","):
                    it = it.strip()
                    mm = re.fullmatch(r"(\d*)-(\d*)", it)
                    if not mm or (mm.group(1) == "" and mm.group(2) == ""):
                        ok = False
                        break
                    if mm.group(1) == "":
                        specs.append(("suffix", int(mm.group(2))))
                    elif mm.group(2) == "":
                        specs.append(("open", int(mm.group(1))))
                    else:
                        specs.append(("fl", int(mm.group(1)), int(mm.group(2))))
                        if specs[-1][2] < specs[-1][1]:
                            ok = False
            if ok:
                sat = satisfiable(specs, L)
                if not sat:
                    return book.add(Resp(416, hs + [("Content-Range", "bytes */%d" % L)], length=10), req_id=req.req_id, kind="416")
                if len(sat) == 1:
                    s, e = sat[0]
                    return book.add(Resp(206, hs + [("Content-Range", "bytes %d-%d/%d" % (s, e, L))], body=obj[s:e + 1]), req_id=req.req_id, kind="206")
                b = "ORIGINBOUNDARY%d" % c["n"]
                body = b""
                for s, e in sat:
                    body += ("\r\n--%s\r\nContent-Type: application/octet-stream\r\nContent-Range: bytes %d-%d/%d\r\n\r\n" % (b, s, e, L)).encode() + obj[s:e + 1]
                body += ("\r\n--%s--\r\n" % b).encode()
                hs2 = [h for h in hs if h[0] != "Content-Type"] + [("Content-Type", "multipart/byteranges; boundary=%s" % b)]
                return book.add(Resp(206, hs2, body=body), req_id=req.req_id, kind="206m")
        fr = c["origin_framing"]
        return book.add(Resp(200, hs, body=obj, framing=fr, chunks=[4096, 10000, 70000]), req_id=req.req_id, kind="200")

    conf = ("cache_mem 64 MB\nmaximum_object_size_in_memory 1 MB\nacl rolnone urlpath_regex ^/c15n/\nrange_offset_limit none rolnone\n" + liveness_conf())
    lab_mem = Lab(a, res, handler=handler, conf=conf)
    # second instance: disk cache only (cache_mem 0), so that Range requests are answered from swap-file reads, whose
    # first read delivers headers AND body bytes in one buffer (a path memory hits never take)
    lab_disk = Lab(a, res, handler=handler, conf=conf.replace("cache_mem 64 MB", "cache_mem 0 MB"), cache_dirs=["cache_dir ufs {W}/ufs 128 16 16"])
    import time as _time

    def one(c):
        lab = lab_disk if c["n"] % 3 == 2 else lab_mem
        wit = {"seed": c["seed"], "case": c["n"]}
        path = ("/c15n/" if c["rol_none"] else "/c15/") + f"{c['seed']}/{c['n']}"
        table[path] = c
        obj = obj_of(c)
        L = len(obj)
        seq = [0]

        def rid():
            seq[0] += 1
            return f"{c['seed']}.{c['n']}.{seq[0]}"

        cached = False
        if c["cached"]:
            i1 = rid()
            m1 = lab.fetch("GET", path, [], req_id=i1)
            if lab is lab_disk:
                _time.sleep(0.25)   # let the swap-out finish so that the next requests are disk hits
                res.count("disk_instance_cases")
            i2 = rid()
            m2 = lab.fetch("GET", path, [], req_id=i2)
            for m in (m1, m2):
                if m.start is not None and not m.error and m.status == 200 and m.complete and m.body != obj:
                    res.violation("plain-200-body-differs", f"plain GET returned {len(m.body)} bytes != object ({L})", wit)
            cached = m2.start is not None and not lab.at_origin(i2) and m2.status == 200
            res.count("precached" if cached else "precache_failed")
        for q in c["reqs"]:
            i = rid()
            m = lab.fetch("GET", path, [("Range", q["hdr"])], req_id=i, timeout=30)
            ups = lab.at_origin(i)
            hit = not ups
            fwd_range = any(any(k.lower() == "range" for k, _ in u.headers) for u in ups)
            sat = satisfiable(q["specs"], L)
            nspec = len(q["specs"])
            feat = [min(L, 70000) // 4096, L == 0, nspec, len(sat), tuple(sorted({s[0] for s in q["specs"]})),
                    "hit" if hit else ("fwd-range" if fwd_range else "fetched-whole"), c["rol_none"], c["origin_framing"] if not hit else "-"]
            def head_only_judgement():
                """a 206 whose body never completes can still be judged on what its header promises"""
                if m.start is None or m.error or m.status != 206 or L == 0:
                    return
                crs = m.header_all("Content-Range")
                mm = CR_RE.match(crs[0]) if len(crs) == 1 else None
                if mm:
                    s_, e_, tot_ = int(mm.group(1)), int(mm.group(2)), int(mm.group(3))
                    if tot_ != L or not (0 <= s_ <= e_ < L):
                        res.violation("content-range-inconsistent", f"Range: {q['hdr']} on object of {L} bytes ({'hit' if hit else 'miss'}): 206 header says bytes {s_}-{e_}/{tot_} "
                                      f"(Content-Length {m.header('Content-Length')}); the body never completed ({len(m.body)} bytes received)", wit)

            if m.start is None or m.error or m.timed_out:
                head_only_judgement()
                res.count("no_or_bad_response")
                if m.error:
                    res.violation("client-bytes-invalid-http", m.error + " raw=%r" % m.raw[:200], wit)
                continue
            res.count("range_requests")
            res.count("range_hits" if hit else "range_misses")
            if not m.complete:
                head_only_judgement()
                res.count("incomplete_response")
                res.feature(*feat, m.status, "incomplete")
                continue
            det = f"Range: {q['hdr']} on object of {L} bytes ({'hit' if hit else 'miss'}, rol_none={c['rol_none']}, origin saw Range={fwd_range}); "
            if L == 0:
                res.grey("zero-length-object")
                continue
            if m.status == 200:
                res.count("status_200")
                if m.body != obj:
                    # specs that overlap or are out of order make squid ignore the Range header ("too complex") after it has
                    # already positioned the store read at the lowest requested offset
                    cplx = any(sat[i][0] <= sat[i - 1][1] for i in range(1, len(sat)))
                    start0 = min((x[0] for x in sat), default=0) == 0
                    res.violation("200-to-range-request-not-whole-object:%s:%s:%s:%s" % ("hit" if hit else "miss", "disk" if lab is lab_disk else "mem",
                                  "overlapping-or-unordered-specs" if cplx else "ordered-specs", "from-offset-0" if start0 else "lowest-offset-above-0"), det + f"200 with {len(m.body)} body bytes != object; got {m.body[:40]!r} expected {obj[:40]!r} headers={m.headers}", wit)
                res.feature(*feat, 200)
                continue
            if m.status == 416:
                res.count("status_416")
                if sat:
                    res.violation("416-although-satisfiable", det + f"416 but satisfiable ranges exist: {sat[:4]}", wit)
                res.feature(*feat, 416)
                continue
            if m.status != 206:
                res.count("status_%d" % m.status)
                res.feature(*feat, m.status)
                continue
            res.count("status_206")
            if hit or not fwd_range:
                res.count("squid_built_206")
            ctype = m.header("Content-Type")
            bnd = boundary_of(ctype) if ctype and ctype.lower().lstrip().startswith("multipart/byteranges") else None
            parts = []
            if bnd is None:
                if ctype and ctype.lower().lstrip().startswith("multipart/byteranges"):
                    res.violation("multipart-without-usable-boundary", det + f"Content-Type {ctype!r}", wit)
                    continue
                crs = m.header_all("Content-Range")
                mm = CR_RE.match(crs[0]) if len(crs) == 1 else None
                if not mm:
                    res.violation("206-bad-content-range", det + f"Content-Range headers {crs!r}", wit)
                    continue
                parts = [(None, int(mm.group(1)), int(mm.group(2)), int(mm.group(3)), m.body)]
                res.count("single_part_206")
            else:
                try:
                    parts = parse_multipart(m.body, bnd)
                except ValueError as e:
                    res.violation("multipart-byteranges-malformed", det + str(e), wit)
                    continue
                if m.header_all("Content-Range"):
                    res.violation("multipart-with-content-range-header", det + "multipart response also has a top-level Content-Range", wit)
                res.count("multipart_206")
                if hit or not fwd_range:
                    res.count("squid_built_multipart_206")
                res.count("multipart_parts", len(parts))
            bad = False
            for _, s, e, tot, data in parts:
                if tot != L or not (0 <= s <= e < L):
                    res.violation("content-range-inconsistent", det + f"part says bytes {s}-{e}/{tot}", wit)
                    bad = True
                elif len(data) != e - s + 1:
                    res.violation("part-length-mismatch", det + f"part bytes {s}-{e}/{tot} carries {len(data)} bytes", wit)
                    bad = True
                elif data != obj[s:e + 1]:
                    off = next(k for k in range(len(data)) if data[k] != obj[s + k])
                    res.violation("part-bytes-differ-from-object-slice", det + f"part bytes {s}-{e}/{tot}: first difference at part offset {off}; "
                                  f"data equals object[{obj.find(data[:64])}..] prefix" , wit)
                    bad = True
            if bad:
                continue
            got = [(s, e) for _, s, e, _, _ in parts]
            if not sat:
                res.violation("206-although-nothing-satisfiable", det + f"206 with parts {got[:4]}", wit)
                continue
            if not covers(got, sat):
                res.violation("parts-do-not-cover-requested-ranges", det + f"satisfiable requested {union(sat)[:6]}, parts {got[:8]}", wit)
                continue
            if not covers(sat, got):
                res.count("parts_exceed_request")
                res.grey("parts-carry-unrequested-bytes")
            res.feature(*feat, 206, "multi" if bnd else "single", len(parts))

    try:
        run_cases(a, res, gen_case, one, threads=8)
    finally:
        lab_mem.finish()
        lab_disk.finish()
    if not a.replay_data:
        if res.counters.get("squid_built_206", 0) < max(1, a.cases // 2):
            res.inconclusive.append("too few 206 responses built by squid from a complete object (%d)" % res.counters.get("squid_built_206", 0))
        if res.counters.get("range_hits", 0) < max(1, a.cases // 4):
            res.inconclusive.append("too few Range requests answered from cache")
        if res.counters.get("multipart_206", 0) < max(1, a.cases // 20):
            res.inconclusive.append("too few multipart responses")


if __name__ == "__main__":
    base.main_wrapper("C15", run)
