#!/usr/bin/python3
"""C13 Vary: a stored variant is served only to matching requests (DESIGN 5.1).

Per case a fresh URL and 6-10 sequential GETs whose nominated request header fields take values from a small per-case
pool (so equal tuples repeat and hits occur). The origin answers every request it sees with a new cacheable response
(new rid) carrying the case's Vary list (random case/order/repeats/several field lines, sometimes `*`, sometimes a
list that changes during the case, sometimes none).

Oracle: when request k is answered with the body of the response minted for an earlier request j and the origin was
not contacted for k (a hit), then for every field name in the Vary list OF THAT STORED RESPONSE the normalised value
in request k must equal the normalised value in request j. Normalisation = absent stays absent; otherwise field lines
joined with ',', split at ',', OWS-trimmed, empty members dropped (so only clearly different values count);
values differing only in letter case are grey. A hit on a response whose Vary contains `*` is a violation; reuse of
such a response after the origin answered squid's conditional request with 304 is grey (origin selected it)."""
import os, random, time
from lab import base
from lab.lab import Lab, run_cases, Resp
from lab.x_cachelab import path_of, rand_case, render_list, body_rid, RidBook, liveness_conf, split_list

KNOWN = ["Accept-Encoding", "Accept-Language", "Accept", "User-Agent", "Cookie", "Origin"]
EXT = ["X-V1", "X-V2", "X-V3"]
SINGLETON = {"user-agent", "cookie", "origin"}     # not list-valued: repeating the field line is invalid (RFC 9110 5.3)


def value_pool(r, names, me):
    """candidate values for header `me`: list of (class, value) where value is None (absent) or a list of field-line values"""
    other = [x for x in names if x != me]
    pool = [("absent", None), ("empty", [""]), ("plain", ["a"]), ("plain", ["b"]), ("caseonly", ["A"]), ("list", ["a, b"]),
            ("twolines", ["a", "b"]), ("list", ["a,b"]), ("list", ["b, a"]), ("quote", ['q"uote']), ("quote", ['"quoted, comma"']),
            ("pct", ["100%"]), ("pct", ["%41"]), ("pct", ["%22"]), ("quote", ['"']), ("8bit", ["caf\xe9"]), ("8bit", ["caf\xe8"]),
            ("space", ["x y"]), ("space", ["x  y"]), ("long", ["L" * 300 + "1"]), ("long", ["L" * 300 + "2"]),
            ("plain", ["gzip"]), ("list", ["gzip, br"]), ("plain", ["en-US"]), ("semi", ["a;q=0.5"]), ("semi", ["a;q=0.6"])]
    if other:
        o = r.choice(other).lower()
        pool += [("collide", ['1", %s="2' % o]), ("collide", ["1"]), ("collide", ['1, %s="2"' % o])]
    return pool


def gen_case(seed, n):
    r = random.Random(f"C13:{seed}:{n}")
    c = {"n": n, "seed": seed}
    nn = r.choice([1, 1, 2, 2, 3])
    names = r.sample(KNOWN + EXT, nn)
    c["names"] = names
    extra = [x for x in KNOWN + EXT if x not in names]
    c["unnamed"] = r.choice(extra)          # varies but is NOT nominated
    c["star"] = r.random() < 0.12

    def vary_items(ns, star):
        items = [rand_case(x, r) for x in ns]
        for _ in range(r.choice([0, 0, 0, 1])):
            items.append(rand_case(r.choice(ns), r))     # repeated name
        r.shuffle(items)
        if star:
            items.insert(r.randrange(len(items) + 1), "*")
            if r.random() < 0.3:
                items = ["*"]
        return render_list(r, items, "Vary")

    c["vary"] = vary_items(names, c["star"])
    c["mode"] = r.choice(["const"] * 5 + ["change", "sometimes-none"])
    alt_names = r.sample(KNOWN + EXT, r.choice([1, 2]))
    c["alt_names"] = alt_names
    c["alt_vary"] = vary_items(alt_names, False)
    c["switch_at"] = r.randrange(2, 6)
    allnames = list(dict.fromkeys(names + alt_names + [c["unnamed"]]))
    pools = {}
    for h in allnames:
        p = value_pool(r, names, h)
        k = r.choice([2, 2, 3])
        if r.random() < 0.25 and any(cl == "collide" for cl, _ in p):
            pools[h] = [x for x in p if x[0] == "collide"]
        elif r.random() < 0.15:
            pools[h] = [p[0], p[1], r.choice(p[2:])]      # absent vs empty vs something
        else:
            pools[h] = r.sample(p, k)
    nreq = r.randrange(6, 11)
    reqs = []
    for i in range(nreq):
        if i and r.random() < 0.35:
            reqs.append(dict(r.choice(reqs)))           # exact repeat of an earlier request: should be able to hit
        else:
            reqs.append({h: r.choice(pools[h]) for h in allnames})
    c["reqs"] = reqs
    c["etag"] = r.random() < 0.6
    c["reval304"] = r.random() < 0.5
    c["len"] = r.choice([40, 300, 9000])
    return c


def norm(v):
    """normalised value of a request field: None if absent else tuple of list members"""
    if v is None:
        return None
    out = []
    for line in v:
        out += [x.strip(" \t") for x in line.split(",")]
    return tuple(x for x in out if x)


def run(a, res):
    table = {}
    book = RidBook()

    def handler(req):
        c = table.get(path_of(req))
        if c is None:
            return Resp(404, length=5)
        k = int(req.req_id.rsplit(".", 1)[1]) if req.req_id else 0
        hs = [("Cache-Control", "max-age=3600")]
        vary = c["vary"]
        if c["mode"] == "change" and k >= c["switch_at"]:
            vary = c["alt_vary"]
        elif c["mode"] == "sometimes-none" and k == c["switch_at"]:
            vary = []
        hs += vary
        if c["etag"]:
            hs.append(("ETag", '"e%d"' % c["n"]))
        cond = any(h.lower() in ("if-none-match", "if-modified-since") for h, _ in req.headers)
        if cond and c["reval304"]:
            resp = Resp(304, hs, body=b"", framing="none")
        else:
            resp = Resp(200, hs, length=c["len"])
        return book.add(resp, req_id=req.req_id, k=k, vary=vary, cond=cond)

    lab = Lab(a, res, handler=handler, conf="cache_mem 32 MB\n" + liveness_conf())

    def one(c):
        wit = {"seed": c["seed"], "case": c["n"]}
        path = f"/c13/{c['seed']}/{c['n']}"
        table[path] = c
        sent = {}
        for k, rq in enumerate(c["reqs"], 1):
            rid_req = f"{c['seed']}.{c['n']}.{k}"
            hs = []
            for h, (cl, v) in rq.items():
                for line in (v or []):
                    hs.append((h, line))
            sent[k] = rq
            m = lab.fetch("GET", path, hs, req_id=rid_req)
            if m.start is None or m.error:
                res.count("no_or_bad_response")
                if m.error:
                    res.violation("client-bytes-invalid-http", m.error, wit)
                return
            ups = lab.at_origin(rid_req)
            res.count("requests")
            brid = body_rid(m.body)
            src = book.get(brid) if brid else None
            if src is None:
                res.count("unidentified_%s" % m.status)
                continue
            j = src["k"]
            classes = tuple(sorted(rq[h][0] for h in rq))
            if j == k:
                res.count("misses")
                res.feature(len(c["names"]), c["star"], c["mode"], classes, "miss")
                continue
            # body of an earlier response
            vnames = []
            star = False
            for _, v in src["vary"]:
                for it in split_list(v):
                    if it == "*":
                        star = True
                    else:
                        vnames.append(it.lower())
            conditional = any(any(h.lower() in ("if-none-match", "if-modified-since") for h, _ in u.headers) for u in ups)
            if os.environ.get("VERIF_LIVENESS_ORACLE"):
                vnames.append(c["unnamed"].lower())     # liveness test only: pretend one more field was nominated
            if ups and not conditional:
                res.violation("old-body-after-unconditional-fetch", f"request {k} got the body of response {j} although the origin was asked unconditionally", wit)
                continue
            how = "revalidated" if ups else "hit"
            res.count("hits" if not ups else "revalidated_hits")
            if star:
                if ups:
                    res.grey("vary-star-reused-after-304")
                    res.feature(len(c["names"]), True, c["mode"], classes, "star-304")
                else:
                    res.violation("vary-star-served-from-cache", f"request {k} was served the stored response of request {j} whose Vary is {src['vary']} without contacting the origin", wit)
                continue
            if not vnames:
                res.count("hits_on_non_vary_response")
                res.feature(len(c["names"]), c["star"], c["mode"], classes, how + "-novary")
                continue
            res.count("vary_hits")
            low_now = {h.lower(): v for h, (cl, v) in rq.items()}
            low_then = {h.lower(): v for h, (cl, v) in sent[j].items()}
            bad, grey = [], []
            for nme in dict.fromkeys(vnames):
                now, then = norm(low_now.get(nme)), norm(low_then.get(nme))
                if now == then:
                    continue
                if nme in SINGLETON and (len(low_now.get(nme) or []) > 1 or len(low_then.get(nme) or []) > 1):
                    grey.append(nme)          # several field lines of a singleton field: not a valid request, not judged
                    continue
                if now is not None and then is not None and tuple(x.lower() for x in now) == tuple(x.lower() for x in then):
                    grey.append(nme)
                else:
                    bad.append((nme, low_then.get(nme), low_now.get(nme)))
            if bad:
                kinds = sorted({rq_h[0] for rq_h in [rq[h] for h in rq if h.lower() in [b[0] for b in bad]]})
                ave = all((norm(t) is None and norm(nw) == ()) or (norm(nw) is None and norm(t) == ()) for _, t, nw in bad)
                res.count("mismatch_absent_vs_empty" if ave else "mismatch_different_values")
                res.violation("variant-served-to-non-matching-request" + (":absent-vs-empty" if ave else ":different-values") + (":after-304" if ups else ""),
                              f"request {k} ({how}) got the body minted for request {j}; stored response Vary={src['vary']}; differing nominated fields "
                              f"(name, value then, value now)={bad!r}; value classes now={kinds}", wit)
            elif grey:
                res.grey("case-only-difference-or-repeated-singleton-field")
            else:
                res.count("matching_vary_hits")
            res.feature(len(c["names"]), c["star"], c["mode"], classes, how, bool(bad), bool(grey))

    try:
        run_cases(a, res, gen_case, one, threads=8)
    finally:
        lab.finish()
    if not a.replay_data:
        if res.counters.get("matching_vary_hits", 0) < max(1, a.cases // 4):
            res.inconclusive.append("too few hits on Vary responses (%d): variant caching did not demonstrably work" % res.counters.get("matching_vary_hits", 0))


if __name__ == "__main__":
    base.main_wrapper("C13", run)
