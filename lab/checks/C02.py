#!/usr/bin/python3
"""C02 Request bodies reach the origin byte-exactly with valid framing (DESIGN 5.1).

Client: POST/PUT, Content-Length or chunked (random chunk sizes, extensions, trailers), arbitrary segmentation and
pauses, optional Expect: 100-continue, optional abort (FIN/RST) at a PRNG offset inside the body.
Origin stub: records the raw upstream bytes and parses them strictly.
Oracle (per upstream message carrying the case's req id):
  complete by its own framing  => body == full client body (and the client must really have sent all of it)
  not complete                 => decoded prefix is a prefix of what the client sent, connection ended
  framing                      => exactly one of Content-Length / Transfer-Encoding: chunked, valid chunk syntax
  nothing Squid sends upstream may fail the strict parser (origin 'bad_request' events)."""
import os, random, threading, time
from lab import base, httpref
from lab.lab import Lab, run_cases, Resp, Conn
from lab.x_relay import start_lab

SIZES = [0, 1, 2, 3, 100, 1000, 4095, 4096, 4097, 8192, 16383, 16384, 16385, 32767, 32768, 32769, 65535, 65536, 65537,
         131072, 262143, 524289, 1048577]
EXTS = ["", "", "", ";x", ";x=1", ';q="a b"', ";a=b;c=d", ';n="q\\"x"', ";verif-ext=tok123"]


LIVENESS = os.environ.get("VERIF_LIVENESS", "")


def body_bytes(seed, n, length):
    pre = f"<{seed}.{n}>".encode()
    return (pre + random.Random(f"C02body:{seed}:{n}").randbytes(max(0, length - len(pre))))[:length]


def gen_case(seed, n, tier="quick"):
    r = random.Random(f"C02:{seed}:{n}")
    c = {"n": n, "seed": seed}
    c["method"] = r.choice(["POST", "POST", "PUT"])
    big = [4 * 1024 * 1024 + 3, 2 * 1024 * 1024] if tier == "thorough" else []
    c["len"] = r.choice(SIZES + big + [r.randrange(0, 70000), r.randrange(0, 3000), r.randrange(0, 300000)])
    c["framing"] = r.choice(["cl", "chunked"])
    nch = r.randrange(1, 9)
    c["chunks"] = [r.choice([1, 2, 3, 7, 15, 16, 17, 100, 255, 256, 4095, 4096, 4097, 5000, 65535, 65536, 100000, 1 << 20]) for _ in range(nch)]
    c["exts"] = [r.choice(EXTS) for _ in range(nch)]
    c["last_ext"] = r.choice(["", "", "", ";last=1"])
    c["hex_upper"] = r.random() < 0.3
    c["lead_zero"] = r.random() < 0.2
    c["trailers"] = r.choice([[], [], [], [("X-Verif-Trailer", "t1")], [("X-T1", "a"), ("X-T2", "b b")]])
    c["expect"] = r.random() < 0.3
    c["origin_sends_100"] = r.random() < 0.75
    c["nsplits"] = r.choice([0, 0, 1, 2, 4, 8, 16])
    c["delay"] = r.choice([0, 0, 0.001, 0.003, 0.01, 0.03])
    c["pause_at"] = r.random() if r.random() < 0.2 else None      # one long pause (0.3 s) at this fraction of the wire
    c["abort"] = r.random() < 0.25
    c["abort_frac"] = r.random()
    c["abort_kind"] = r.choice(["close", "rst", "close"])
    c["abort_linger"] = r.choice([0, 0.05, 0.3])                   # wait before closing so queued bytes are relayed first
    c["split_seed"] = r.randrange(1 << 30)
    c["extra_headers"] = r.random() < 0.3
    c["resp_len"] = r.choice([0, 10, 5000])
    c["abort_snap"] = r.random() < 0.3          # abort exactly at a chunk boundary (after a chunk's CRLF)
    c["early_reply"] = r.random() < 0.1         # origin sends a final 403 + Connection: close before reading the body
    # a large chunked upload into an origin that starts reading late through a small receive buffer: squid's 64 KB
    # request body pipe fills while more chunk data is already buffered (back-pressure path of the dechunker)
    c["bigslow"] = (n % 83 == 7)
    if c["bigslow"]:
        c.update(framing="chunked", len=4 * 1024 * 1024 + r.randrange(0, 5000), chunks=[r.choice([65536, 100000, 1 << 20, 4097]) for _ in range(4)],
                 expect=False, abort=False, early_reply=False, nsplits=0, delay=0, pause_at=None, trailers=[], exts=["", "", "", ""])
    return c


def build_wire(c, url, req_id):
    """returns (head bytes, body wire bytes, decoded body)"""
    body = body_bytes(c["seed"], c["n"], c["len"])
    hs = [("Host", url.split("://", 1)[1].split("/", 1)[0]), ("X-Verif-Req", req_id), ("Content-Type", "application/octet-stream")]
    if c["extra_headers"]:
        hs.append(("X-Pad", "p" * 700))
    if c["expect"]:
        hs.append(("Expect", "100-continue"))
    wire = bytearray()
    if c["framing"] == "cl":
        hs.append(("Content-Length", str(len(body))))
        wire += body
    else:
        hs.append(("Transfer-Encoding", "chunked"))
        if c["trailers"]:
            hs.append(("Trailer", ", ".join(k for k, _ in c["trailers"])))
        pos = 0
        i = 0
        fmt = "%X" if c["hex_upper"] else "%x"
        while pos < len(body):
            sz = c["chunks"][i % len(c["chunks"])]
            if i > 2000:
                sz = max(sz, 65536)     # bound the number of tiny chunks
            sz = max(1, min(sz, len(body) - pos))
            szs = fmt % sz
            if c["lead_zero"] and i % 3 == 0:
                szs = "00" + szs
            wire += szs.encode() + c["exts"][i % len(c["exts"])].encode() + b"\r\n" + body[pos:pos + sz] + b"\r\n"
            pos += sz
            i += 1
        wire += b"0" + c["last_ext"].encode() + b"\r\n"
        for k, v in c["trailers"]:
            wire += f"{k}: {v}\r\n".encode()
        wire += b"\r\n"
    head = (f"{c['method']} {url} HTTP/1.1\r\n" + "".join(f"{k}: {v}\r\n" for k, v in hs) + "\r\n").encode("latin1")
    return head, bytes(wire), body


def pick_splits(c, head, wire):
    r = random.Random(c["split_seed"])
    data = head + wire
    pts = set()
    crlf = [i for i in range(min(len(data) - 1, len(head) + 300000)) if data[i] == 13 and data[i + 1] == 10][:400]
    for _ in range(c["nsplits"]):
        k = r.random()
        if k < 0.2:
            pts.add(r.randrange(1, len(head) + 1))
        elif k < 0.45 and crlf:
            pts.add(r.choice(crlf) + r.choice([0, 1, 2]))
        elif k < 0.6 and len(wire) > 1:
            pts.add(len(head) + r.choice([1, len(wire) - 1, len(wire) - 2, min(len(wire) - 1, 4096), min(len(wire) - 1, 65536)]))
        elif len(data) > 1:
            pts.add(r.randrange(1, len(data)))
    return sorted(p for p in pts if 0 < p < len(data))


def sent_body_prefix(c, wire_sent, body):
    """decoded body bytes contained in the body-wire prefix the client really sent"""
    if c["framing"] == "cl":
        return wire_sent[:len(body)]
    try:
        b, _ = httpref.chunked_prefix(wire_sent)
    except httpref.Strict:
        b = b""
    return b


def lab_date():
    from lab.origin import http_date
    return http_date().encode()


def first_diff(x, y):
    for i in range(min(len(x), len(y))):
        if x[i] != y[i]:
            return i
    return min(len(x), len(y))


def run(a, res):
    tier = a.tier
    table = {}

    def handler(req):
        path = "/" + req.target.split("://", 1)[-1].split("/", 1)[-1]
        c = table.get(path)
        if c and c["early_reply"]:
            return None     # final response was already sent before the body; just close
        return Resp(200, [("Cache-Control", "no-store")], length=(c["resp_len"] if c else 3))

    def before_body(req):
        path = "/" + req.target.split("://", 1)[-1].split("/", 1)[-1]
        c = table.get(path)
        if c and c["early_reply"]:
            return b"HTTP/1.1 403 Forbidden\r\nDate: " + lab_date() + b"\r\nX-Verif-Rid: early\r\nConnection: close\r\nContent-Length: 5\r\n\r\nearly"
        if c and c.get("bigslow"):
            import socket as _s
            try:
                req.sock.setsockopt(_s.SOL_SOCKET, _s.SO_RCVBUF, 32768)
            except OSError:
                pass
            time.sleep(1.0)
            # keep draining slowly (a few MB/s, in few large reads so that a loaded machine does not stretch it) until the
            # end of the upload: the client writes at loopback speed, so squid's request body pipe stays full to the very end
            req.recv_size, req.recv_pause = 65536, 0.02
            res.count("bigslow_uploads")
        exp = httpref.get(req.headers, "Expect")
        if c and exp and exp.lower() == "100-continue" and c["origin_sends_100"]:
            return b"HTTP/1.1 100 Continue\r\n\r\n"
        return None

    handler.before_body = before_body
    lab = start_lab(a, res, handler=handler, conf="cache deny all\nrequest_body_max_size 0\n")
    wit = lambda c: {"seed": c["seed"], "case": c["n"]}

    def one(c):
        path = f"/c02/{c['seed']}/{c['n']}"
        table[path] = c
        rid = f"{c['seed']}.{c['n']}"
        head, wire, body = build_wire(c, lab.url(path), rid)
        data = head + wire
        splits = pick_splits(c, head, wire)
        abort_at = None
        if c["abort"] and len(wire) > 1:
            abort_at = len(head) + max(0, min(len(wire) - 1, int(len(wire) * c["abort_frac"])))
            if c["abort_snap"] and c["framing"] == "chunked":
                k = data.find(b"\r\n", abort_at)     # end of a size line or of chunk data (binary bodies: any CRLF will do)
                if 0 < k + 2 < len(data) - 1:
                    abort_at = k + 2
        try:
            conn = lab.conn(timeout=30)
        except OSError:
            res.count("connect_failed")
            return
        got100 = False
        end = abort_at if abort_at is not None else len(data)
        pos = 0
        if c["expect"]:
            conn.send(head, [s for s in splits if s < len(head)], c["delay"])
            pos = len(head)
            # wait (bounded) for 100 Continue; RFC 9110 10.1.1: the client may send the body anyway after a while
            t_end = time.time() + (3.0 if c["origin_sends_100"] else 0.4)
            while time.time() < t_end:
                if b"\r\n\r\n" in conn.buf:
                    break
                conn._fill(0.1)
                if conn.eof:
                    break
            got100 = conn.buf.startswith(b"HTTP/1.1 100")
            if got100:
                res.count("got_100_continue")
        if c["pause_at"] is not None:
            pa = pos + int((end - pos) * c["pause_at"])
            if pos < pa < end:
                conn.send(data[pos:pa], [s - pos for s in splits if pos < s < pa], c["delay"])
                pos = pa
                time.sleep(0.3)
        sent = pos + conn.send(data[pos:end], [s - pos for s in splits if pos < s < end], c["delay"]) if end > pos else pos
        wire_sent = conn.raw_out[len(head):]
        m = None
        if abort_at is not None:
            if c["abort_linger"]:
                time.sleep(c["abort_linger"])
            if c["abort_kind"] == "rst":
                conn.rst()
            else:
                conn.close()
        else:
            m = conn.read_response(c["method"], timeout=40)
            conn.close()

        feat = [c["method"], c["framing"], c["early_reply"], min(c["len"], 300000) // 16384, c["expect"] and (got100 and "100" or "no100"), abort_at is not None and c["abort_kind"],
                bool(c["trailers"]), min(c["nsplits"], 4)]
        client_prefix = sent_body_prefix(c, wire_sent, body)
        if LIVENESS == "tail" and body:
            body = body[:-1] + bytes([body[-1] ^ 1])       # deliberately wrong expectation (validation only)
        if LIVENESS == "prefix" and len(client_prefix) > 1:
            client_prefix = client_prefix[:len(client_prefix) // 2 - 1] + b"\xff\xfe"
        all_sent = len(conn.raw_out) == len(data)

        # ---- wait (bounded, logical) for the upstream side of this transaction to settle
        t0 = time.time()
        # (a throttled origin may still be draining what squid already handed to the kernel when squid has long answered)
        deadline = t0 + (25 if c.get("bigslow") else 6 if abort_at is not None else 2)
        ups = lab.at_origin(rid)
        while time.time() < deadline:
            ups = lab.at_origin(rid)
            if not ups and time.time() - t0 > 1.5:
                break
            if ups and all(hasattr(u, "t_body") for u in ups):
                break
            if not ups and m is not None:
                break   # squid answered without forwarding
            time.sleep(0.05)

        if m is not None:
            if m.error:
                res.violation("client-bytes-invalid-http", f"squid sent bytes that do not parse strictly: {m.error}; raw={m.raw[:200]!r}", wit(c))
            elif m.start is None:
                res.count("no_response")
            else:
                res.count("client_status_%s" % m.status)

        if not ups:
            if abort_at is not None:
                res.count("aborted_before_forwarding")
                res.feature(*feat, "abort-notfwd")
                return
            st = m.status if (m is not None and m.start is not None) else None
            res.count("not_forwarded")
            res.note(f"valid request not forwarded: case {c['n']} status {st} framing {c['framing']} len {c['len']} expect {c['expect']}")
            res.grey("valid-request-not-forwarded")
            res.feature(*feat, "notfwd", st)
            return
        if len(ups) > 1:
            res.count("forwarded_more_than_once")
            res.note(f"request forwarded {len(ups)} times (case {c['n']})")
        for up in ups:
            if not hasattr(up, "t_body"):
                res.count("upstream_still_open")
                res.feature(*feat, "upstream-open")
                # the origin is still waiting for body bytes: neither complete nor closed. Legit only while squid may still
                # be relaying; after an abort it means the upstream was left hanging (C08's business), not judged here.
                continue
            cl = httpref.get_all(up.headers, "Content-Length")
            te = httpref.get_all(up.headers, "Transfer-Encoding")
            if up.framing == "invalid" or (cl and te) or len(cl) > 1 or len(te) > 1:
                res.violation("upstream-framing-headers", f"upstream request has CL={cl} TE={te} ({up.body_error}); client framing {c['framing']}", wit(c))
                continue
            if up.body_error:
                res.violation("upstream-invalid-chunked", f"upstream body does not parse strictly: {up.body_error}; first bytes {bytes(up.raw_body_wire[:80])!r}", wit(c))
                continue
            res.count("forwarded")
            res.count("upstream_" + up.framing)
            if up.body_complete:
                res.count("upstream_complete")
                if up.body != body:
                    key = "truncated-forwarded-as-complete" if (abort_at is not None and len(up.body) < len(body) and body.startswith(up.body)) else "body-differs"
                    res.violation(key, f"upstream {up.framing} message is complete with {len(up.body)} body bytes; client body has {len(body)} bytes "
                                       f"(client framing {c['framing']}, sent {len(client_prefix)} body bytes, abort={abort_at is not None}); first diff at {first_diff(up.body, body)}", wit(c))
                    continue
                if abort_at is not None and len(client_prefix) < len(body) and not getattr(conn, "send_error", False):
                    res.violation("body-invented", f"upstream complete with the full body although the client sent only {len(client_prefix)}/{len(body)} bytes", wit(c))
                    continue
                if c.get("bigslow"):
                    res.count("bigslow_uploads_complete_and_identical_upstream")
                res.feature(*feat, "complete", up.framing)
            else:
                res.count("upstream_incomplete")
                # a send that failed part-way (squid closed after the origin's early reply) may have delivered any prefix of the
                # piece being written: what the client really sent is then only known to lie between client_prefix and body
                sent_ref = body if getattr(conn, "send_error", False) else client_prefix
                if not sent_ref.startswith(up.body):
                    res.violation("incomplete-not-prefix", f"upstream incomplete {up.framing} message carries {len(up.body)} bytes that are not a prefix of the {len(sent_ref)} body bytes "
                                                           f"the client sent (first diff at {first_diff(up.body, sent_ref)})", wit(c))
                    continue
                if abort_at is None and c["early_reply"]:
                    res.count("squid_stopped_after_early_reply")
                elif abort_at is None:
                    res.count("healthy_but_incomplete")
                    res.note(f"complete client request relayed incompletely (case {c['n']}, status {m.status if m and m.start else None})")
                res.feature(*feat, "incomplete", up.framing)

    def gen(seed, n):
        return gen_case(seed, n, tier)

    try:
        run_cases(a, res, gen, one, threads=8)
        time.sleep(0.3)
        # anything squid sent upstream that is not valid HTTP at all
        for ev in list(lab.org.events):
            if ev["ev"] == "bad_request":
                res.violation("upstream-invalid-head", f"origin could not parse what squid sent: {ev['error']}; data={ev['data'][:300]!r}", {"seed": a.seed})
            elif ev["ev"] == "partial_request":
                res.count("upstream_partial_head")
    finally:
        lab.finish()
    if not a.replay_data:
        if res.counters.get("upstream_complete", 0) < max(1, a.cases // 4):
            res.inconclusive.append("too few complete upstream bodies")
        if res.counters.get("upstream_incomplete", 0) < 1 and a.cases >= 40:
            res.inconclusive.append("no visibly-incomplete upstream body observed")


if __name__ == "__main__":
    base.main_wrapper("C02", run)
