#!/usr/bin/python3
"""C05 Pipelined responses are delivered in request order, one per request (DESIGN 5.1).

Client: 1..10 GET/HEAD/POST requests written on one connection without waiting (one or several segments, splits also
inside a request), cache hits and misses mixed; origin answers each request after a PRNG delay (later requests tend to be
ready first) and trickles some bodies so earlier responses are still in progress. One squid per pipeline_prefetch value
(0, 1, 3, 10), run one after the other.
Oracle: the k-th response parsed (strictly, by framing) from the client socket carries the path tag of the k-th request
and, when complete, exactly the body the origin produced under that response id; nothing follows the last response.
If squid closes the connection the answered requests must be an ordered prefix (unanswered tail counted, not judged).
A stall (connection open, nothing arrives for the watchdog period) is re-run once with fresh URLs; only a reproduced
stall is a violation."""
import os, random, threading, time
from lab import base, httpref
from lab.lab import Lab, run_cases, Resp, Conn, fetch
from lab.x_relay import start_lab
from lab.origin import new_rid, make_body

PREFETCH = [0, 1, 3, 10]
LIVENESS = os.environ.get("VERIF_LIVENESS", "")
WATCHDOG = 12.0
AVOID = os.environ.get("VERIF_AVOID", "").split(",")   # triage aid only: "chunkedpost", "dupurl" keep the triggers of known findings out of the workload


def gen_case(seed, n):
    r = random.Random(f"C05:{seed}:{n}")
    c = {"n": n, "seed": seed}
    c["prefetch"] = PREFETCH[n % len(PREFETCH)]
    k = r.choice([1, 2, 2, 3, 3, 4, 5, 6, 8, 10])
    reqs = []
    for i in range(k):
        q = {}
        q["method"] = r.choice(["GET", "GET", "GET", "HEAD", "POST"])
        q["u"] = i if (i == 0 or r.random() > 0.12) else r.randrange(0, i)       # sometimes repeat an earlier URL
        q["post_len"] = r.choice([0, 1, 10, 1000, 8000])
        q["post_chunked"] = r.random() < 0.4
        # a later request that squid itself answers with an error and then stops reading the connection
        # (unsupported Expect -> 417): its response is ready long before the earlier ones finish
        q["expect417"] = (i >= 1 and q["method"] == "GET" and r.random() < 0.12)
        reqs.append(q)
    # interim (1xx) responses triggered by LATER requests while an earlier response is still being relayed: drawn from a
    # separate stream so that the cases of earlier runs keep their shape
    r1 = random.Random(f"C05:1xx:{seed}:{n}")
    for i, q in enumerate(reqs):
        q["expect100"] = (q["method"] == "POST" and r1.random() < 0.5)
    # a CONNECT as the last pipelined request: a tunnel takes over the connection, so whatever squid does with it (200 and a
    # tunnel once its turn has come, or a refusal) must not disturb the responses owed to the earlier requests
    if k >= 2 and r1.random() < 0.1:
        reqs[-1]["method"] = "CONNECT"
        reqs[-1]["expect100"] = reqs[-1]["expect417"] = False
    if "dupurl" in AVOID:
        for i, q in enumerate(reqs):
            q["u"] = i
    c["reqs"] = reqs
    urls = []
    for i in range(k):
        u = {}
        u["kind"] = r.choice(["hit", "hit", "cold", "cold", "nostore"])
        u["status"] = r.choice([200, 200, 200, 200, 404, 204])
        u["len"] = 0 if u["status"] == 204 else r.choice([0, 1, 50, 500, 4096, 20000, 70000, 200000])
        u["framing"] = "none" if u["status"] == 204 else r.choice(["cl", "cl", "chunked", "chunked", "close"])
        # later requests tend to be ready first
        u["delay_before"] = r.choice([0, 0, 0.01, 0.05, 0.15, 0.3]) * (k - i) / k
        u["trickle"] = r.random() < 0.25
        urls.append(u)
    for i, u in enumerate(urls):
        u["early_hints"] = r1.random() < 0.15
        if i + 1 < k and r1.random() < 0.3 and reqs[i]["u"] == i and u["status"] == 200 and u["framing"] != "none":
            # a slow, long earlier response: headers at once, body in pieces over a few hundred ms
            u["len"], u["trickle"], u["slow"], u["delay_before"] = r1.choice([3000, 20000, 70000]), True, True, 0
    c["urls"] = urls
    c["nsplits"] = r.choice([0, 0, 1, 2, 5])
    c["delay"] = r.choice([0, 0.001, 0.01, 0.03])
    c["split_seed"] = r.randrange(1 << 30)
    c["last_close"] = r.random() < 0.5
    c["version10_last"] = False
    return c


def run(a, res):
    table = {}      # path -> url spec
    rids = {}       # rid -> (path, body)
    lock = threading.Lock()

    def handler(req):
        path = "/" + req.target.split("://", 1)[-1].split("/", 1)[-1]
        u = table.get(path)
        if u is None:
            return Resp(404, length=3)
        rid = new_rid()
        body = b"" if u["status"] == 204 else (f"[{path}|{rid}]".encode() + make_body(rid, u["len"]))
        hs = [("X-Verif-Path", path)]
        if u["kind"] == "nostore":
            hs.append(("Cache-Control", "no-store"))
        else:
            hs.append(("Cache-Control", "max-age=3600"))
        resp = Resp(u["status"], hs, body=body, framing=u["framing"], rid=rid, delay_before=u["delay_before"])
        if u["framing"] == "chunked":
            resp.chunks = [max(1, len(body) // 3 + 1)]
        if u["trickle"] and len(body) > 1000:
            resp.splits = [len(body) // 3, 2 * len(body) // 3]
            resp.delay = 0.15 if u.get("slow") else 0.03
        if u.get("early_hints"):
            resp.interim = [b"HTTP/1.1 103 Early Hints\r\nLink: </c05-hint.css>; rel=preload\r\n\r\n"]
            res.count("origin_sent_103")
        with lock:
            rids[rid] = (path, body, req.method)
        return resp

    def before_body(req):
        exp = httpref.get(req.headers, "Expect")
        if exp and exp.lower() == "100-continue":
            res.count("origin_sent_100")
            return b"HTTP/1.1 100 Continue\r\n\r\n"
        return None

    handler.before_body = before_body

    def pipeline_bytes(lab, c, attempt):
        out = b""
        bounds = []
        exp = []
        for i, q in enumerate(c["reqs"]):
            path = f"/c05/{c['seed']}/{c['n']}/a{attempt}/{q['u']}"
            url = lab.url(path)
            hs = [("Host", f"127.0.0.1:{lab.org.port}"), ("X-Verif-Req", f"{c['seed']}.{c['n']}.{attempt}.{i}")]
            body = b""
            if q["method"] == "POST":
                body = (f"<post {c['n']}.{i}>".encode() * 800)[:q["post_len"]]
                if q["post_chunked"] and "chunkedpost" not in AVOID:
                    hs.append(("Transfer-Encoding", "chunked"))
                    half = max(1, len(body) // 2)
                    w = b""
                    if body:
                        w += b"%x\r\n" % half + body[:half] + b"\r\n"
                        if body[half:]:
                            w += b"%x\r\n" % len(body[half:]) + body[half:] + b"\r\n"
                    body = w + b"0\r\n\r\n"
                else:
                    hs.append(("Content-Length", str(len(body))))
            if q.get("expect417"):
                hs.append(("Expect", "verif-unsupported-expectation"))
            if q.get("expect100") and q["method"] == "POST":
                hs.append(("Expect", "100-continue"))
            if i == len(c["reqs"]) - 1 and c["last_close"]:
                hs.append(("Connection", "close"))
            head = f"{q['method']} {url} HTTP/1.1\r\n" + "".join(f"{k}: {v}\r\n" for k, v in hs) + "\r\n"
            if q["method"] == "CONNECT":
                head = f"CONNECT 127.0.0.1:{lab.org.port} HTTP/1.1\r\nHost: 127.0.0.1:{lab.org.port}\r\nX-Verif-Req: {c['seed']}.{c['n']}.{attempt}.{i}\r\n\r\n"
                res.count("pipelined_connect_requests")
            out += head.encode() + body
            bounds.append(len(out))
            exp.append((q["method"], path))
        return out, bounds, exp

    def attempt_case(lab, c, attempt):
        """returns ('ok'|'stall'|'violation'|'closed', info)"""
        wit = {"seed": c["seed"], "case": c["n"]}
        # register URLs and warm the 'hit' ones
        for ui, u in enumerate(c["urls"]):
            path = f"/c05/{c['seed']}/{c['n']}/a{attempt}/{ui}"
            table[path] = u
        used = sorted({q["u"] for q in c["reqs"]})
        for ui in used:
            u = c["urls"][ui]
            if u["kind"] == "hit":
                path = f"/c05/{c['seed']}/{c['n']}/a{attempt}/{ui}"
                u2 = dict(u, delay_before=0, trickle=False)
                table[path] = u2
                m = lab.fetch("GET", path, req_id=f"{c['seed']}.{c['n']}.{attempt}.warm{ui}", timeout=30)
                table[path] = u
                if m.start is None:
                    res.count("warm_failed")
        data, bounds, exp = pipeline_bytes(lab, c, attempt)
        r = random.Random(c["split_seed"])
        splits = sorted({(r.choice(bounds[:-1]) if (len(bounds) > 1 and r.random() < 0.5) else r.randrange(1, len(data))) for _ in range(c["nsplits"])})
        try:
            conn = lab.conn(timeout=30)
        except OSError:
            res.count("connect_failed")
            return "skip", None
        sender_done = []

        def sender():
            conn.send(data, splits, c["delay"])
            sender_done.append(1)

        th = threading.Thread(target=sender, daemon=True)
        th.start()
        got = []
        outcome = "ok"
        info = None
        for i, (method, path) in enumerate(exp):
            m = conn.read_response(method, timeout=WATCHDOG)
            if m.error:
                res.violation("client-bytes-invalid-http", f"response #{i} of {len(exp)} (prefetch {c['prefetch']}): bytes do not parse strictly as a response to {method}: {m.error}; "
                                                           f"raw={m.raw[:200]!r}", wit)
                outcome = "violation"
                break
            if m.start is None:
                if m.timed_out:
                    outcome, info = "stall", f"no bytes for response #{i} of {len(exp)} within the watchdog; connection still open"
                else:
                    outcome = "closed"
                    if m.raw:
                        res.count("partial_head_then_close")
                break
            tag = m.header("X-Verif-Path")
            rid = m.header("X-Verif-Rid")
            got.append((tag, rid, m.status))
            if tag is None:
                # squid-generated response: occupies slot i; identity not established by a tag
                res.count("squid_generated_%s" % m.status)
                res.note(f"squid-generated {m.status} in a pipeline (case {c['n']}, slot {i})")
            else:
                want = path if LIVENESS != "order" else exp[(i + 1) % len(exp)][1]
                if tag != want:
                    slots = [p for _, p in exp]
                    where = slots.index(tag) if tag in slots else None
                    res.violation("response-out-of-order" if where is not None else "response-for-unknown-request",
                                  f"pipeline of {len(exp)} (prefetch {c['prefetch']}), slot {i} ({method} {path}) got the response for {tag} (slot {where}); "
                                  f"methods={[q['method'] for q in c['reqs']]} kinds={[c['urls'][q['u']]['kind'] for q in c['reqs']]}", wit)
                    outcome = "violation"
                    break
                with lock:
                    rec = rids.get(rid)
                if rec is None:
                    res.violation("unknown-rid", f"slot {i}: rid {rid} was never issued by the origin", wit)
                    outcome = "violation"
                    break
                if rec[0] != path:
                    res.violation("rid-of-other-url", f"slot {i} ({path}) carries rid {rid} minted for {rec[0]}", wit)
                    outcome = "violation"
                    break
                expected = b"" if method == "HEAD" else rec[1]
                if m.complete:
                    if m.body != expected:
                        res.violation("body-of-other-response", f"slot {i} ({method} {path}): complete body of {len(m.body)} bytes differs from the origin body of {len(expected)} bytes for {rid}; "
                                                                f"starts {m.body[:60]!r}", wit)
                        outcome = "violation"
                        break
                elif not expected.startswith(m.body):
                    res.violation("body-of-other-response", f"slot {i}: incomplete body is not a prefix of the origin body for {rid}", wit)
                    outcome = "violation"
                    break
                if not lab.at_origin(f"{c['seed']}.{c['n']}.{attempt}.{i}"):
                    res.count("hits_in_pipeline")
            if not m.complete:
                if m.timed_out:
                    outcome, info = "stall", f"response #{i} of {len(exp)} stopped mid-body; connection still open"
                else:
                    res.count("truncated_response_then_close")
                    outcome = "closed"
                break
        else:
            # all answered: nothing may follow
            if c["last_close"]:
                extra = conn.read_all(timeout=5.0)
                if not conn.eof:
                    res.count("no_close_after_connection_close")
            else:
                extra = conn.read_all(timeout=0.15)
            if extra:
                res.violation("surplus-response-bytes", f"{len(extra)} bytes after the last of {len(exp)} responses: {extra[:200]!r}", wit)
                outcome = "violation"
        if outcome == "stall":
            # what is the origin waiting for? (diagnosis only)
            waiting = []
            for i in range(len(exp)):
                for up in lab.at_origin(f"{c['seed']}.{c['n']}.{attempt}.{i}"):
                    if not hasattr(up, "t_body"):
                        waiting.append(f"slot {i}: origin still waits for the body of {bytes(up.raw_head)[:400]!r}")
            info = info + ("; " + " | ".join(waiting) if waiting else "; origin is not waiting for any request body")
        conn.close()
        th.join(timeout=5)
        res.count("interim_responses_seen_by_client", len(conn.interim))
        res.count("responses_in_order", len(got))
        # evidence that completion order at the origin differed from request order (what makes ordering non-trivial)
        done = []
        for i in range(len(exp)):
            ups = lab.at_origin(f"{c['seed']}.{c['n']}.{attempt}.{i}")
            done.append(getattr(ups[0], "t_resp_done", None) if ups else None)
        seen = [(t, i) for i, t in enumerate(done) if t is not None]
        if any(t1 > t2 for (t1, i1), (t2, i2) in zip(seen, seen[1:])):
            res.count("pipelines_with_origin_finishing_out_of_order")
        res.count("requests_sent", len(exp))
        if outcome == "closed":
            res.count("unanswered_tail", len(exp) - len(got))
            if got:
                pm, pp = exp[len(got) - 1]
                pu = table.get(pp, {})
                res.count(f"closed_after:{pm}:{pu.get('status')}:{pu.get('framing')}:{pu.get('kind')}")
            else:
                res.count("closed_before_first_response")
        return outcome, (info, len(got), len(exp))

    confirmed = set()

    def classify(c, pf, info):
        key = "hang:pipeline-stalled"
        stalled_slot = info[1] - 1 if "mid-body" in info[0] else info[1]
        us = [q["u"] for q in c["reqs"]]
        if "origin still waits" in info[0]:
            key = "hang:origin-awaits-undeclared-body"
        elif pf > 0 and 0 <= stalled_slot < len(us) and us[stalled_slot] in us[stalled_slot + 1:] and c["urls"][us[stalled_slot]]["kind"] != "nostore":
            key = "hang:same-url-later-in-pipeline"
        return key

    def make_one(lab, pf):
        def one(c):
            if c["prefetch"] != pf:
                return
            res.case({"case": c["n"], "prefetch": pf, "methods": [q["method"] for q in c["reqs"]]} if c["n"] % 41 == 0 else None)
            outcome, info = attempt_case(lab, c, 0)
            if outcome == "stall":
                res.count("stall_first_attempt")
                key = classify(c, pf, info)
                if key in confirmed and not a.replay_data:
                    # the same class of stall was already reproduced in this run: do not pay the re-run again
                    res.count("stall_same_class_as_confirmed:" + key)
                    return
                outcome2, info2 = attempt_case(lab, c, 1)
                if outcome2 == "stall":
                    # a wall-clock watchdog is only a verdict if squid itself is responsive at that moment: an ordinary request on a
                    # fresh connection must be answered promptly while the pipelined connection stays silent (on an overloaded
                    # machine both are slow, and the stall says nothing about squid)
                    t_probe = time.time()
                    try:
                        pm = lab.fetch("GET", f"/c05probe/{c['seed']}/{c['n']}", req_id=f"{c['seed']}.{c['n']}.probe", timeout=10)
                        prompt = pm.start is not None and (time.time() - t_probe) < 4.0
                    except OSError:
                        prompt = False
                    if not prompt:
                        res.count("stall_not_judged_squid_slow_to_answer_a_probe")
                        res.note(f"stall in case {c['n']} not judged: a probe request took {time.time() - t_probe:.1f}s (machine load)")
                        return
                    key = classify(c, pf, info2)
                    confirmed.add(key)
                    res.violation(key, f"prefetch {pf}: {info2[0]} (answered {info2[1]}/{info2[2]}), reproduced on re-run; methods={[q['method'] for q in c['reqs']]} "
                                       f"urls={[q['u'] for q in c['reqs']]}", {"seed": c["seed"], "case": c["n"]})
                else:
                    res.count("stall_not_reproduced")
                outcome, info = outcome2, info2
            if outcome in ("ok", "closed"):
                hits = sum(1 for q in c["reqs"] if c["urls"][q["u"]]["kind"] == "hit")
                res.feature(pf, len(c["reqs"]), "".join(q["method"][0] for q in c["reqs"])[:6], min(hits, 3), outcome, info[1] if outcome == "closed" else -1, c["nsplits"] > 0)
        return one

    if a.replay_data and "case" in a.replay_data:
        cases = [gen_case(a.replay_data.get("seed", a.seed), a.replay_data["case"])]
    else:
        cases = [gen_case(a.seed, n) for n in range(a.cases)]
    from concurrent.futures import ThreadPoolExecutor
    def run_value(pf):
        mine = [c for c in cases if c["prefetch"] == pf]
        if not mine:
            return
        lab = start_lab(a, res, handler=handler, conf=f"pipeline_prefetch {pf}\ncache_mem 64 MB\nmaximum_object_size_in_memory 1 MB\n")
        try:
            with ThreadPoolExecutor(4) as ex:
                list(ex.map(make_one(lab, pf), mine))
        finally:
            lab.finish()

    # two squids at a time (pipeline_prefetch is a squid.conf setting): {0, 3} then {1, 10}
    for pair in ((0, 3), (1, 10)):
        with ThreadPoolExecutor(2) as ex2:
            list(ex2.map(run_value, pair))
    if not a.replay_data:
        sent = res.counters.get("requests_sent", 0)
        if res.counters.get("responses_in_order", 0) < sent // 2:
            res.inconclusive.append("fewer than half of the pipelined requests were answered")
        if a.cases >= 40 and res.counters.get("hits_in_pipeline", 0) == 0:
            res.inconclusive.append("no cache hit inside a pipeline observed")


if __name__ == "__main__":
    base.main_wrapper("C05", run)
