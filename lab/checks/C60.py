#!/usr/bin/python3
"""C60 ICAP adaptation delivers exactly the virgin or the adapted message (DESIGN 5.1, fault_enumeration).

The real squid adapts through an in-process ICAP stub (lab/x_icap.py).  40 icap_service entries: {REQMOD, RESPMOD} x
Preview {none,0,7,1024,4096} x Allow-204 {no,yes} x bypass {off,on}; the URL path selects the service.  One case = one
client transaction + one scripted ICAP behaviour (204 early / in preview / after 100-continue; 200 with an adapted message
answered early / in preview / after reading everything; ICAP 4xx/5xx; garbage; close / RST / stall at: after ICAP head,
after preview, after 100 Continue, after the whole request, inside the ICAP response head, inside the encapsulated HTTP
head, inside the body chunks, before the last chunk).
Virgin bodies V are rid-tagged PRNG bytes, adapted bodies A are case-tagged PRNG bytes: any mix is visible.
Oracle: the receiver (client for RESPMOD, origin for REQMOD) gets a message whose head marker says virgin and whose
body is exactly V (complete) or a prefix of V (visibly incomplete), or marker adapted with A likewise, or an error.
With bypass=on, a connection fault before any ICAP response byte and |V| <= 16 KB the virgin message must arrive complete.
"""
import random, time, threading, time
from lab import base, httpref
from lab.lab import Lab, run_cases, Resp, Conn, request_bytes, make_body
from lab.x_icap import IcapServer

PREVIEWS = {"pn": None, "p0": 0, "p7": 7, "p1024": 1024, "p4096": 4096}
SIZES = [0, 1, 6, 7, 8, 100, 1023, 1024, 1025, 4095, 4096, 4097, 10000, 16000, 40000, 65535, 65536, 70000, 200000]
FAULT_POINTS = ["after_head", "after_preview", "after_100", "after_all", "in_icap_head", "in_http_head", "in_body", "before_last_chunk"]
BEFORE_RESPONSE = ("after_head", "after_preview", "after_all")
GARBAGE = [b"SMTP 220 hello\r\n\r\n", b"ICAP/1.0 abc def\r\n\r\n", b"HTTP/1.1 200 OK\r\nContent-Length: 0\r\n\r\n", b"\x00\x01\x02\xff" * 10, b"ICAP/1.0 200 OK\r\nEncapsulated: res-body=abc\r\n\r\n",
                           b"ICAP/1.0 200 OK\r\nISTag: \"x\"\r\nEncapsulated: res-hdr=0, res-body=999999\r\n\r\nHTTP/1.1 200 OK\r\nX-Verif-Variant: adapted\r\n\r\n", b"ICAP/1.0 200 OK\r\n" + b"X: y\r\n" * 3000 + b"\r\n"]


def services():
    out = []
    for m in ("rq", "rs"):
        for p in PREVIEWS:
            for al in (0, 1):
                for b in (0, 1):
                    out.append(f"{m}_{p}_a{al}_b{b}")
    return out


def gen_case(seed, n):
    r = random.Random(f"C60:{seed}:{n}")
    c = {"n": n, "seed": seed}
    c["mode"] = r.choice(["rs", "rs", "rq"])
    c["preview"] = r.choice(list(PREVIEWS))
    c["allow"] = r.choice([0, 1])
    c["bypass"] = r.choice([0, 1])
    c["svc"] = f"{c['mode']}_{c['preview']}_a{c['allow']}_b{c['bypass']}"
    c["vlen"] = r.choice(SIZES + [r.randrange(0, 3000), r.randrange(0, 20000)])
    c["vframing"] = r.choice(["cl", "cl", "chunked", "close"]) if c["mode"] == "rs" else r.choice(["cl", "chunked"])
    c["method"] = r.choice(["POST", "PUT"]) if c["mode"] == "rq" else "GET"
    if c["mode"] == "rq" and r.random() < 0.15:
        c["method"], c["vlen"] = "GET", 0            # REQMOD of a body-less request (null-body)
    c["action"] = r.choice(["204", "204", "200", "200", "200", "error", "garbage"])
    c["when"] = r.choice(["early", "preview", "preview", "after_all", "after_all"])
    c["status"] = r.choice([400, 404, 405, 408, 418, 500, 501, 503, 505])
    c["alen"] = r.choice([0, 1, 100, 4096, 5000, 70000, None, c["vlen"]])       # None => adapted message without body
    c["a_cl"] = r.random() < 0.5                        # adapted head carries Content-Length
    c["satisfy"] = c["mode"] == "rq" and r.random() < 0.2   # REQMOD answered with an HTTP response
    c["chunks"] = [r.choice([1, 7, 100, 4096, 5000, 65536]) for _ in range(r.randrange(1, 5))]
    c["nsplits"] = r.choice([0, 0, 1, 3, 6])
    c["split_seed"] = r.randrange(1 << 30)
    c["conn_close"] = r.random() < 0.15
    c["fault"] = None
    if r.random() < 0.45:
        c["fault"] = {"kind": r.choice(["close", "close", "rst", "rst", "stall"]) if r.random() < 0.93 else "stall", "at": r.choice(FAULT_POINTS), "frac": r.random(), "stall": 3.5}
        if c["fault"]["kind"] == "stall" and r.random() < 0.7:
            c["fault"]["kind"] = "close"                # stalls cost seconds: keep them rare
    c["garbage"] = r.randrange(len(GARBAGE))
    # REQMOD 204-in-preview of a multi-megabyte chunked upload into an origin that starts reading late through a small
    # receive buffer: the echoed virgin body is produced faster than it is consumed (back-pressure inside the echo loop)
    c["bigslow"] = (n % 71 == 3)
    if c["bigslow"]:
        c.update(mode="rq", method="POST", preview=r.choice(["p7", "p1024", "p4096"]), allow=1, bypass=r.choice([0, 1]), vframing="chunked",
                 vlen=6 * 1024 * 1024 + r.randrange(0, 4000), action="204", when="preview", fault=None, satisfy=False, nsplits=0, conn_close=False,
                 chunks=[r.choice([65536, 100000, 1 << 20]) for _ in range(3)])
        c["svc"] = f"{c['mode']}_{c['preview']}_a{c['allow']}_b{c['bypass']}"
    return c


def run(a, res):
    table = {}          # path -> case
    lock = threading.Lock()
    vresp = {}          # req id -> origin Resp (RESPMOD virgin) / origin request record (REQMOD)

    def path_of(target):
        t = target.split("://", 1)[-1]
        return "/" + t.split("/", 1)[1] if "/" in t else "/"

    def handler(req):
        c = table.get(path_of(req.target))
        if c is None:
            return Resp(404, length=3)
        resp = Resp(200, [("X-Verif-Variant", "virgin"), ("Content-Type", "application/octet-stream")], length=c["vlen"] if c["mode"] == "rs" else 20, framing=c["vframing"] if c["mode"] == "rs" else "cl")
        with lock:
            vresp[req.req_id] = resp
        return resp

    def before_body(req):
        c = table.get(path_of(req.target))
        if c is not None and c.get("bigslow"):
            import socket as _s
            try:
                req.sock.setsockopt(_s.SOL_SOCKET, _s.SO_RCVBUF, 8192)
            except OSError:
                pass
            time.sleep(2.0)
            req.recv_size, req.recv_pause = 16384, 0.004   # keep draining slowly (about 4 MB/s) until the end of the upload
            res.count("bigslow_reqmod_uploads")
        return None

    handler.before_body = before_body

    def adapted_body(c):
        return None if c["alen"] is None else make_body(f"a{c['seed']}x{c['n']}", c["alen"])

    def plan_for(tx):
        try:
            target = tx.http_request_line().split(b" ")[1].decode("latin1")
        except IndexError:
            return None
        c = table.get(path_of(target))
        if c is None:
            return {"action": "204", "when": "after_all"}
        tx.key = c["n"]
        body = adapted_body(c)
        if c["mode"] == "rs" or c["satisfy"]:
            head = b"HTTP/1.1 200 OK\r\nX-Verif-Variant: adapted\r\nX-Verif-Case: %d\r\nContent-Type: application/x-adapted\r\n" % c["n"]
            if body is None:
                head += b"Content-Length: 0\r\n"
            elif c["a_cl"]:
                head += b"Content-Length: %d\r\n" % len(body)
            head += b"\r\n"
            kind = "res"
        else:
            # adapted request: same request line and routing headers, marker header, adapted body
            lines = tx.req_hdr.split(b"\r\n")
            keep = [lines[0]] + [l for l in lines[1:] if l and l.split(b":")[0].lower() not in (b"content-length", b"transfer-encoding", b"x-verif-variant")]
            head = b"\r\n".join(keep) + b"\r\nX-Verif-Variant: adapted\r\n"
            if body is not None and (c["a_cl"] or True):
                head += b"Content-Length: %d\r\n" % len(body)
            head += b"\r\n"
            kind = "req"
        plan = {"action": c["action"], "when": c["when"], "status": c["status"], "adapted": {"kind": kind, "head": head, "body": body}, "chunks": c["chunks"], "fault": c["fault"],
                "conn_close": c["conn_close"], "garbage": GARBAGE[c["garbage"]]}
        if c["nsplits"]:
            r = random.Random(c["split_seed"])
            plan["splits"] = sorted(r.randrange(1, 400 + (len(body) if body else 0)) for _ in range(c["nsplits"]))
        return plan

    def options_for(service):
        parts = service.strip("/").split("_")
        try:
            return {"method": "REQMOD" if parts[0] == "rq" else "RESPMOD", "preview": PREVIEWS[parts[1]], "allow204": parts[2] == "a1"}
        except (IndexError, KeyError):
            return {"preview": None, "allow204": True}

    icap = IcapServer(plan_for, options_for)
    conf = ["icap_enable on", "icap_service_failure_limit -1", "icap_206_enable off", "icap_preview_enable on", "icap_persistent_connections on",
            "icap_io_timeout 2 seconds", "icap_connect_timeout 5 seconds", "cache deny all", "icap_retry deny all"]
    for s in services():
        vect = "reqmod_precache" if s.startswith("rq") else "respmod_precache"
        conf.append(f"icap_service {s} {vect} icap://127.0.0.1:{icap.port}/{s} bypass={'on' if s.endswith('b1') else 'off'}")
        conf.append(f"acl acl_{s} urlpath_regex ^/c60/{s}/")
        conf.append(f"adaptation_access {s} allow acl_{s}")
    lab = Lab(a, res, handler=handler, conf="\n".join(conf) + "\n")
    # squid fetches OPTIONS of a service lazily, when its first transaction arrives

    def first_diff(x, y):
        for i in range(min(len(x), len(y))):
            if x[i] != y[i]:
                return i
        return min(len(x), len(y))

    def judge_message(c, wit, variant, body, complete, V, A, side, ctx=b""):
        """variant: marker found in the head received by `side`. Returns class string or None after reporting a violation"""
        if variant == "virgin":
            ref, other, oname = V, A, "adapted"
        elif variant == "adapted":
            ref, other, oname = A if A is not None else b"", V, "virgin"
        else:
            res.violation(f"{side}-message-of-unknown-origin", f"{side} received a message carrying neither the virgin nor the adapted marker", wit)
            return None
        if complete:
            if body != ref:
                mixed = other is not None and len(body) > 8 and (other.startswith(body[:min(len(body), 64)]) or body[-32:] in other)
                res.violation(f"{side}-{variant}-body-differs" + (":contains-" + oname if mixed else ""),
                              f"{side} got a COMPLETE message marked {variant} whose body ({len(body)} bytes) differs from the {variant} body ({len(ref)} bytes), first difference at {first_diff(body, ref)}; "
                              f"svc={c['svc']} action={c['action']} when={c['when']} fault={c['fault']} vlen={c['vlen']} alen={c['alen']}; head received: {bytes(ctx[:500])!r}", wit)
                return None
            return variant
        if not ref.startswith(body):
            res.violation(f"{side}-{variant}-partial-not-prefix", f"{side} got an incomplete message marked {variant} whose {len(body)} delivered body bytes are not a prefix of the {variant} body (first difference at {first_diff(body, ref)}); "
                          f"svc={c['svc']} action={c['action']} when={c['when']} fault={c['fault']}", wit)
            return None
        return variant + "-incomplete"

    def one(c):
        wit = {"seed": c["seed"], "case": c["n"]}
        path = f"/c60/{c['svc']}/{c['seed']}x{c['n']}"
        table[path] = c
        rid = f"{c['seed']}.{c['n']}"
        A = adapted_body(c)
        Vreq = make_body(f"q{c['seed']}x{c['n']}", c["vlen"]) if c["mode"] == "rq" and c["method"] != "GET" else None
        try:
            conn = lab.conn(timeout=40)
        except OSError:
            res.count("connect_failed")
            return
        hs = [("X-Verif-Variant", "virgin"), ("Connection", "close")]
        chunked = [5000, 100, 70000] if (c["mode"] == "rq" and c["vframing"] == "chunked" and Vreq is not None) else None
        conn.send(request_bytes(c["method"], lab.url(path), hs, Vreq, req_id=rid, chunked=chunked))
        m = conn.read_response(c["method"], timeout=40)
        conn.close()
        txs = icap.by_key(c["n"])
        eff = txs[-1].effective if txs else None
        fired = txs[-1].fault_fired if txs else None
        res.count("icap_transactions", len(txs))
        if len(txs) > 1:
            res.count("icap_retried_cases")
        if not txs:
            res.count("no_icap_transaction")
        feat = [c["mode"], c["preview"], c["allow"], c["bypass"], eff, c["when"] if eff in ("204", "200") else None, min(c["vlen"], 70001) > 16384, c["vframing"]]
        if m.error:
            res.violation("client-bytes-invalid-http", f"squid sent bytes that do not parse strictly: {m.error}; svc={c['svc']} eff={eff}", wit)
            return
        strict_bypass = bool(c["bypass"] and txs and all(t.fault_fired in BEFORE_RESPONSE and not t.first_response_byte_sent and t.plan["fault"]["kind"] in ("close", "rst", "stall") for t in txs) and c["vlen"] <= 16384)
        if m.timed_out:
            res.count("client_timeout")
            res.feature(*feat, "timeout")
            return
        squid_error = m.start is None or m.header("X-Squid-Error") is not None
        outcome = None
        if c["mode"] == "rs":
            with lock:
                vr = vresp.get(rid)
            V = vr.body if vr is not None else None
            if squid_error:
                outcome = "error"
            else:
                variant = m.header("X-Verif-Variant")
                if variant == "virgin" and (vr is None or m.header("X-Verif-Rid") != vr.rid):
                    res.violation("client-got-foreign-virgin", f"client got a virgin response that is not the origin's response to this request (rid {m.header('X-Verif-Rid')})", wit)
                    return
                if V is None and variant == "virgin":
                    res.violation("client-got-virgin-without-origin", "client got a virgin-marked response although the origin never answered this request", wit)
                    return
                complete = m.complete
                if m.framing == "close":
                    # a close-delimited delivery cannot show truncation: judge as prefix only (grey if shorter)
                    ref = V if variant == "virgin" else (A or b"")
                    if m.body != ref:
                        complete = False
                        res.grey("close-delimited-delivery")
                outcome = judge_message(c, wit, variant, m.body, complete, V if V is not None else b"", A, "client")
                if outcome is None:
                    return
        else:
            ups = lab.at_origin(rid)
            if len(ups) > 1:
                res.count("origin_saw_request_twice")
            if ups:
                up = ups[0]
                variant = up.header("X-Verif-Variant")
                if variant and "," in variant:
                    res.violation("origin-got-both-markers", f"origin request carries both markers: {variant}", wit)
                    return
                if up.body_error:
                    res.violation("origin-request-body-invalid", f"origin received an invalid request body framing: {up.body_error}", wit)
                    return
                # (origin stub: a reset while it reads the body leaves body_complete at its initial True and never sets t_body)
                ocls = judge_message(c, wit, variant, up.body, up.body_complete and hasattr(up, "t_body"), Vreq or b"", A, "origin", up.raw_head)
                if ocls is None:
                    return
                outcome = "fwd-" + ocls
                if not squid_error and m.header("X-Verif-Variant") == "adapted":
                    res.violation("client-got-satisfaction-and-origin-contacted", "REQMOD: the origin was contacted although the client received the ICAP service's own response", wit)
                    return
            else:
                if squid_error:
                    outcome = "error"
                elif m.header("X-Verif-Variant") == "adapted":
                    complete = m.complete and m.framing != "close"
                    ocls = judge_message(c, wit, "adapted", m.body, complete, b"", A, "client")
                    if ocls is None:
                        return
                    outcome = "satisfied-" + ocls
                else:
                    res.violation("client-got-origin-response-without-origin", "REQMOD: client got a non-error response although the origin never saw the request", wit)
                    return
        res.count("outcome:" + outcome)
        res.count(f"eff:{eff}:{outcome}")
        # ---- what the ICAP behaviour obliges
        delivered_virgin = outcome in ("virgin", "fwd-virgin")
        delivered_adapted = outcome in ("adapted", "fwd-adapted", "satisfied-adapted")
        clean = bool(txs) and len(txs) == 1 and fired is None
        if clean and eff in ("204", "200") and (txs[0].wall_response_done is None or txs[0].wall_response_done - txs[0].t_wall > 1.0):
            # the stub itself was slow (loaded machine): squid's icap_io_timeout (2 s) may have fired legitimately
            clean = False
            res.grey("slow-stub")
        if strict_bypass:
            res.count("strict_bypass_cases")
            res.count("strict_bypass:" + "+".join(sorted(set(t.plan["fault"]["kind"] for t in txs))) + ":" + outcome)
            if not delivered_virgin:
                res.violation("bypass-virgin-not-delivered:" + "+".join(sorted(set(t.plan["fault"]["kind"] for t in txs))), f"bypass=on, ICAP connection fault {c['fault']} fired before any ICAP response byte (attempts: {[t.fault_fired for t in txs]}), virgin body {c['vlen']} bytes <= 16 KB, "
                              f"but the outcome is '{outcome}' instead of the complete virgin message; svc={c['svc']} status={m.status}", wit)
                return
        if clean and eff == "204":
            res.count("clean_204")
            if delivered_adapted:
                res.violation("adapted-after-204", f"ICAP answered 204 but an adapted message was delivered; svc={c['svc']}", wit)
                return
            if not delivered_virgin:
                res.count("non_virgin_after_clean_204:" + outcome)
                res.note(f"clean 204 ({c['when']}, svc {c['svc']}) ended as {outcome} (allowed by the statement: error)")
        if clean and eff == "200":
            res.count("clean_200")
            if delivered_virgin and c["when"] != "early":
                res.violation("virgin-after-complete-200", f"the ICAP service returned a complete adapted message (when={c['when']}) but the virgin message was delivered; svc={c['svc']} vlen={c['vlen']} alen={c['alen']}", wit)
                return
            if delivered_virgin:
                res.grey("virgin-after-early-200")
        if fired:
            res.count("faults_fired:" + fired)
        res.feature(*feat, outcome, fired)

    try:
        run_cases(a, res, gen_case, one, threads=8)
    finally:
        icap.stop()
        lab.finish()
    with icap.lock:
        n_tx = len(icap.txs)
        res.count("icap_previews_with_ieof", sum(1 for t in icap.txs if t.ieof))
        res.count("icap_100_continue_sent", sum(1 for t in icap.txs if t.sent_100))
        bad_virgin = 0
        for t in icap.txs:
            c = None
            if t.key is not None and t.body_complete and t.has_body:
                pass
    res.count("icap_transactions_total", n_tx)
    res.count("icap_options_requests", icap.options_seen)
    if not a.replay_data:
        if n_tx < a.cases // 2:
            res.inconclusive.append(f"only {n_tx} ICAP transactions for {a.cases} cases: adaptation is not happening")
        for k in ("outcome:virgin", "outcome:adapted", "outcome:error"):
            if res.counters.get(k, 0) == 0 and a.cases >= 100:
                res.inconclusive.append(f"no case ended as {k}")
        if a.cases >= 200 and res.counters.get("strict_bypass_cases", 0) == 0:
            res.inconclusive.append("no strict-bypass case occurred")


if __name__ == "__main__":
    base.main_wrapper("C60", run)
