#!/usr/bin/python3
"""C03 No request smuggling: forwarded messages match strict client framing (DESIGN 5.1).

A case is one client byte stream on one connection: 0-2 well-formed messages, one message carrying a framing anomaly (or
none), 0-1 well-formed message and a final well-formed SENTINEL (Connection: close). Every message has a unique id in
X-Verif-Req and in its target path; bodies consist of the message's own token; anomaly bodies hide a complete "smuggled"
request (own id) exactly where a differing delimitation would start the next message.

Oracle (no-desync clauses only; pure accept/reject disagreement is C22/C25/C26's subject):
 * everything squid writes upstream parses strictly; no upstream request has CL+TE, two CL or two TE;
 * each anomaly declares its PERMITTED READINGS: the delimitations an RFC 9112 recipient may adopt (the strict one; the
   obviously intended one for tolerated syntax such as bare LF or OWS; the Transfer-Encoding reading for CL+TE; none for
   conflicting Content-Length, non-final chunked, hex-prefixed or overflowing chunk sizes). There must be ONE permitted
   reading that explains every upstream request: same id => same method, path and body bytes (complete) or a body
   prefix (visibly incomplete), and a declared upstream Content-Length equal to that body's length;
 * an upstream request whose id belongs to no message of that reading (the smuggled request, or a later message) is a
   violation; if the strict reference rejects the anomalous message and squid did not forward it completely under a
   permitted reading, NO later message (sentinel included) may reach the origin."""
import os, random, threading, time
from lab import base, httpref
from lab.lab import Lab, Resp, Conn
from lab.x_relay import start_lab
from concurrent.futures import ThreadPoolExecutor

LIVENESS = os.environ.get("VERIF_LIVENESS", "")
AVOID = os.environ.get("VERIF_AVOID", "").split(",")     # triage aid only: "prefetch" keeps the trigger of the pipelining finding out of the workload
CONFIGS = [("on", 0), ("on", 0), ("off", 0), ("off", 0), ("on", 2)]       # case n uses CONFIGS[n % 5]: (relaxed_header_parser, pipeline_prefetch)

MUTATIONS = [
    "none", "none",
    "dup_cl_same", "cl_list_same", "dup_cl_conflict", "dup_cl_conflict_rev", "cl_list_conflict",
    "dup_cl_same_te", "cl_list_same_te", "dup_cl_same_te_first",
    "cl_list_dup_then_conflict", "cl_list_dup_then_junk", "cl_field_then_list_conflict", "cl_three_fields_conflict_last",
    "cl_te", "te_cl", "cl_te_short",
    "te_ows", "te_tab", "te_case", "te_trailing_ws", "te_x_chunked", "te_two_headers_gzip_chunked",
    "te_chunked_x", "te_identity", "te_chunked_chunked", "te_two_headers_chunked", "te_chunkedx", "te_quoted",
    "te_obsfold", "te_ws_before_colon", "cl_ws_before_colon", "cl_obsfold",
    "bare_lf_all", "bare_lf_one", "lf_hidden_cl", "cr_in_value", "cr_hidden_te", "cr_hidden_cl", "nul_in_value", "nul_in_name",
    "cl_plus", "cl_hex", "cl_trailing_junk", "cl_decimal_point", "cl_leading_zeros", "cl_huge", "cl_negative", "cl_empty",
    "chunk_0x", "chunk_lead_ws", "chunk_trail_ws", "chunk_plus", "chunk_minus", "chunk_overflow", "chunk_upper", "chunk_lead_zeros",
    "chunk_bare_lf", "chunk_ext", "chunk_missing_crlf", "chunk_trailer",
    "get_with_cl_body", "get_with_te_body", "head_http10_te",
]


class Ctx:
    def __init__(self, c, base_url, host):
        self.c = c
        self.base_url = base_url
        self.host = host
        self.pref = f"{c['seed']}.{c['n']}"
        self.pathbase = f"/c03/{c['seed']}/{c['n']}"

    def ident(self, name):
        return f"{self.pref}.{name}"

    def path(self, name):
        return f"{self.pathbase}/{name}"

    def url(self, name):
        return self.base_url + self.path(name)

    def token_body(self, name, n):
        t = f"<{self.pref}.{name}.body>".encode()
        return (t * (n // len(t) + 1))[:n]

    def head(self, method, name, lines, eol=b"\r\n", version=b"HTTP/1.1", extra_first=()):
        hl = [method.encode() + b" " + self.url(name).encode() + b" " + version, b"Host: " + self.host.encode(), b"X-Verif-Req: " + self.ident(name).encode()]
        hl += list(extra_first) + list(lines)
        return eol.join(hl) + eol + eol

    def smuggle(self):
        return self.head("GET", "smug", [])

    def spec(self, method, name, body):
        return (self.ident(name), method, self.path(name), body)


def chunked(body, sizes=(7, 100), first_size_line=None, last=b"0\r\n\r\n"):
    out = b""
    pos = 0
    i = 0
    while pos < len(body):
        sz = max(1, min(sizes[i % len(sizes)], len(body) - pos))
        line = b"%x" % sz
        if i == 0 and first_size_line is not None:
            line = first_size_line(sz)
        out += line + b"\r\n" + body[pos:pos + sz] + b"\r\n"
        pos += sz
        i += 1
    return out + last


def wellformed(x, r, name, last=False):
    kind = r.choice(["GET", "GET", "POSTCL", "POSTCH", "PUTCL"])
    extra = [b"Connection: close"] if last else []
    if kind == "GET":
        return x.head("GET", name, extra), x.spec("GET", name, b"")
    body = x.token_body(name, r.choice([0, 1, 10, 100, 3000]))
    m = "PUT" if kind == "PUTCL" else "POST"
    if kind == "POSTCH":
        return x.head(m, name, [b"Transfer-Encoding: chunked"] + extra) + chunked(body, (r.choice([1, 5, 64]), 1000)), x.spec(m, name, body)
    return x.head(m, name, [b"Content-Length: %d" % len(body)] + extra) + body, x.spec(m, name, body)


def mutated(x, r, mut):
    """returns dict(wire, readings, strict): readings = list of permitted readings, each a list of message specs that this
    wire span contains under that reading (normally one message; two when a hidden request becomes a legitimate next message)."""
    name = "mut"
    n = r.choice([5, 16, 40, 300])
    B = x.token_body(name, n)
    SM = x.smuggle()
    sm_spec = x.spec("GET", "smug", b"")
    P = lambda body=B, m="POST": x.spec(m, name, body)
    cl = lambda k: b"Content-Length: %d" % k
    TE = b"Transfer-Encoding: chunked"
    CH = chunked(B)
    one = lambda wire, strict=False, body=B, m="POST": {"wire": wire, "readings": [[P(body, m)]], "strict": strict}
    none = lambda wire: {"wire": wire, "readings": [], "strict": False}
    if mut == "none":
        w, s = wellformed(x, r, name)
        return {"wire": w, "readings": [[s]], "strict": True}
    # ---- Content-Length duplicates / conflicts
    if mut == "dup_cl_same":
        return one(x.head("POST", name, [cl(n), cl(n)]) + B, strict=True)
    if mut == "cl_list_same":
        return one(x.head("POST", name, [b"Content-Length: %d, %d" % (n, n)]) + B, strict=True)
    if mut == "dup_cl_conflict":
        return none(x.head("POST", name, [cl(n), cl(n + len(SM))]) + B + SM)
    if mut == "dup_cl_conflict_rev":
        return none(x.head("POST", name, [cl(n + len(SM)), cl(n)]) + B + SM)
    if mut == "cl_list_conflict":
        return none(x.head("POST", name, [b"Content-Length: %d, %d" % (n, n + len(SM))]) + B + SM)
    # tolerated equal duplicates of Content-Length TOGETHER with Transfer-Encoding: the chunked coding must still win
    # (or the message be rejected); the (sanitised) Content-Length must not survive next to a de-chunked body
    if mut in ("dup_cl_same_te", "cl_list_same_te", "dup_cl_same_te_first"):
        w = CH + SM
        k = r.choice([3, 5, len(B)])
        fields = {"dup_cl_same_te": [cl(k), cl(k), TE], "cl_list_same_te": [b"Content-Length: %d, %d" % (k, k), TE], "dup_cl_same_te_first": [TE, cl(k), cl(k)]}[mut]
        return {"wire": x.head("POST", name, fields) + w, "readings": [[P(), sm_spec]], "strict": False}
    # a conflicting/invalid member hidden BEHIND tolerated equal duplicates (every member must be examined)
    if mut == "cl_list_dup_then_conflict":
        return none(x.head("POST", name, [b"Content-Length: %d, %d, %d" % (n, n, n + len(SM))]) + B + SM)
    if mut == "cl_list_dup_then_junk":
        return none(x.head("POST", name, [b"Content-Length: %d, %d, %dx" % (n, n, n + len(SM))]) + B + SM)
    if mut == "cl_field_then_list_conflict":
        return none(x.head("POST", name, [cl(n), b"Content-Length: %d, %d" % (n, n + len(SM))]) + B + SM)
    if mut == "cl_three_fields_conflict_last":
        return none(x.head("POST", name, [cl(n), cl(n), cl(n + len(SM))]) + B + SM)
    # ---- CL + TE: RFC 9112 6.3 rule 3: Transfer-Encoding overrides (or reject)
    if mut == "cl_te":
        w = CH + SM
        return {"wire": x.head("POST", name, [cl(len(w)), TE]) + w, "readings": [[P(), sm_spec]], "strict": False}
    if mut == "te_cl":
        w = CH + SM
        return {"wire": x.head("POST", name, [TE, cl(len(w))]) + w, "readings": [[P(), sm_spec]], "strict": False}
    if mut == "cl_te_short":
        return {"wire": x.head("POST", name, [cl(3), TE]) + CH, "readings": [[P()]], "strict": False}
    # ---- Transfer-Encoding spellings
    if mut == "te_ows":
        return one(x.head("POST", name, [b"Transfer-Encoding:    chunked"]) + CH, strict=True)
    if mut == "te_tab":
        return one(x.head("POST", name, [b"Transfer-Encoding:\tchunked"]) + CH, strict=True)
    if mut == "te_case":
        return one(x.head("POST", name, [r.choice([b"Transfer-Encoding: Chunked", b"transfer-encoding: CHUNKED", b"TRANSFER-ENCODING: chunKed"])]) + CH, strict=True)
    if mut == "te_trailing_ws":
        return one(x.head("POST", name, [b"Transfer-Encoding: chunked \t"]) + CH, strict=True)
    if mut == "te_x_chunked":      # chunked is final: the framing is well defined (the unknown coding deserves 501, C03 does not care)
        return one(x.head("POST", name, [b"Transfer-Encoding: " + r.choice([b"x, chunked", b"gzip, chunked", b"gzip,chunked"])]) + CH)
    if mut == "te_two_headers_gzip_chunked":
        return one(x.head("POST", name, [b"Transfer-Encoding: gzip", TE]) + CH)
    # chunked not final / not exactly once / not a token: length cannot be determined reliably -> MUST 400 + close
    if mut == "te_chunked_x":
        return none(x.head("POST", name, [b"Transfer-Encoding: " + r.choice([b"chunked, x", b"chunked, identity", b"chunked,gzip"])]) + CH + SM)
    if mut == "te_identity":
        return none(x.head("POST", name, [b"Transfer-Encoding: identity"]) + CH + SM)
    if mut == "te_chunked_chunked":
        return none(x.head("POST", name, [b"Transfer-Encoding: chunked, chunked"]) + CH + SM)
    if mut == "te_two_headers_chunked":
        return none(x.head("POST", name, [TE, TE]) + CH + SM)
    if mut == "te_chunkedx":
        return none(x.head("POST", name, [b"Transfer-Encoding: " + r.choice([b"chunkedx", b"xchunked", b"chunked-x", b"chunked x"])]) + CH + SM)
    if mut == "te_quoted":
        return none(x.head("POST", name, [b"Transfer-Encoding: \"chunked\""]) + CH + SM)
    # ---- folding / whitespace before colon in framing fields: intended reading or reject
    if mut == "te_obsfold":
        return one(x.head("POST", name, [b"Transfer-Encoding:\r\n chunked"]) + CH)
    if mut == "te_ws_before_colon":
        return one(x.head("POST", name, [b"Transfer-Encoding : chunked"]) + CH)
    if mut == "cl_ws_before_colon":
        return one(x.head("POST", name, [b"Content-Length : %d" % n]) + B)
    if mut == "cl_obsfold":
        return one(x.head("POST", name, [b"Content-Length:\r\n %d" % n]) + B)
    # ---- line terminators and control bytes
    if mut == "bare_lf_all":
        return one(x.head("POST", name, [cl(n)], eol=b"\n") + B)
    if mut == "bare_lf_one":
        h = x.head("POST", name, [b"X-Junk: a", cl(n)])
        return one(h.replace(b"X-Junk: a\r\n", b"X-Junk: a\n") + B)
    if mut == "lf_hidden_cl":      # RFC 9112 2.2: a recipient MAY take a lone LF as a line terminator
        return one(x.head("POST", name, [b"X-Junk: a\nContent-Length: %d" % n]) + B)
    if mut == "cr_in_value":
        return one(x.head("POST", name, [b"X-Junk: a\rb", cl(n)]) + B)
    if mut == "cr_hidden_te":      # a bare CR is NOT a line terminator (invalid or SP): the Content-Length reading is the only one
        w = chunked(B[:3]) + SM
        return one(x.head("POST", name, [b"X-Junk: a\rTransfer-Encoding: chunked", cl(len(w))]) + w, body=w)
    if mut == "cr_hidden_cl":
        w = B + SM
        return one(x.head("POST", name, [b"X-Junk: a\rContent-Length: %d" % n, cl(len(w))]) + w, body=w)
    if mut == "nul_in_value":
        return one(x.head("POST", name, [b"X-Junk: a\0b", cl(n)]) + B)
    if mut == "nul_in_name":
        return one(x.head("POST", name, [b"X-Ju\0nk: a", cl(n)]) + B)
    # ---- Content-Length value syntax: the intended number or reject
    if mut == "cl_plus":
        return one(x.head("POST", name, [b"Content-Length: +%d" % n]) + B)
    if mut == "cl_hex":            # 0x10 = 16 or 0: two competing boundaries
        return none(x.head("POST", name, [b"Content-Length: 0x10"]) + x.token_body(name, 16)[:16 - 0] + SM)
    if mut == "cl_trailing_junk":
        return one(x.head("POST", name, [b"Content-Length: %d%s" % (n, r.choice([b" x", b"x", b";", b" %d" % n]))]) + B)
    if mut == "cl_decimal_point":
        return one(x.head("POST", name, [b"Content-Length: %d.0" % n]) + B)
    if mut == "cl_leading_zeros":
        return one(x.head("POST", name, [b"Content-Length: 000%d" % n]) + B, strict=True)
    if mut == "cl_huge":           # 2^64 + n: wraps to n in a careless parser
        return none(x.head("POST", name, [b"Content-Length: %d" % (2 ** 64 + n)]) + B + SM)
    if mut == "cl_negative":
        return none(x.head("POST", name, [b"Content-Length: -%d" % n]) + B + SM)
    if mut == "cl_empty":
        return none(x.head("POST", name, [b"Content-Length: "]) + SM)
    # ---- chunk-size syntax
    cs = lambda f, strict=False, rd=True: ({"wire": x.head("POST", name, [TE]) + chunked(B, first_size_line=f), "readings": [[P()]] if rd else [], "strict": strict})
    if mut == "chunk_0x":          # "0x7" = 7 or last-chunk: two competing boundaries
        return cs(lambda sz: b"0x%x" % sz, rd=False)
    if mut == "chunk_lead_ws":
        return cs(lambda sz: b" %x" % sz)
    if mut == "chunk_trail_ws":
        return cs(lambda sz: b"%x " % sz)
    if mut == "chunk_plus":
        return cs(lambda sz: b"+%x" % sz)
    if mut == "chunk_minus":
        return cs(lambda sz: b"-%x" % sz, rd=False)
    if mut == "chunk_overflow":    # 2^64 + sz wraps to sz in a careless parser; honestly read it can never complete
        return cs(lambda sz: b"1%016x" % sz, rd=False)
    if mut == "chunk_upper":
        return cs(lambda sz: (b"%X" % max(sz, 10)) if False else b"%X" % sz, strict=True)
    if mut == "chunk_lead_zeros":
        return cs(lambda sz: b"0000%x" % sz, strict=True)
    if mut == "chunk_bare_lf":
        w = chunked(B).replace(b"\r\n", b"\n", 1)
        return one(x.head("POST", name, [TE]) + w)
    if mut == "chunk_ext":
        return cs(lambda sz: b"%x;ext=\"a;b\";c" % sz, strict=True)
    if mut == "chunk_missing_crlf":    # chunk data not followed by CRLF: the hidden request sits where a lenient parser would resume
        w = b"%x\r\n" % n + B + SM + b"\r\n0\r\n\r\n"
        return none(x.head("POST", name, [TE]) + w)
    if mut == "chunk_trailer":
        return one(x.head("POST", name, [TE]) + chunked(B, last=b"0\r\nX-Trailer: t\r\n\r\n"), strict=True)
    # ---- bodies on bodiless methods, TE on HTTP/1.0
    if mut == "get_with_cl_body":
        return one(x.head("GET", name, [cl(len(SM))]) + SM, strict=True, body=SM, m="GET")
    if mut == "get_with_te_body":
        return one(x.head("GET", name, [TE]) + CH, strict=True, m="GET")
    if mut == "head_http10_te":    # RFC 9112 6.1: TE in an HTTP/1.0 message = faulty framing, close; the TE reading is the tolerated one
        return one(x.head("POST", name, [TE], version=b"HTTP/1.0") + CH, strict=True)     # (the reference parser does not look at the version)
    raise KeyError(mut)


def gen_case(seed, n):
    r = random.Random(f"C03:{seed}:{n}")
    c = {"n": n, "seed": seed}
    c["relaxed"], c["prefetch"] = CONFIGS[n % len(CONFIGS)]
    if "prefetch" in AVOID:
        c["prefetch"] = 0
    c["mut"] = r.choice(MUTATIONS)
    c["before"] = r.choice([0, 0, 1, 2])
    c["after"] = r.choice([0, 0, 1])
    c["build_seed"] = r.randrange(1 << 30)
    c["nsplits"] = r.choice([0, 0, 0, 1, 3])
    c["delay"] = r.choice([0, 0.002, 0.02])
    return c


def build(c, base_url, host):
    """returns (stream bytes, msgs) with msgs = list of dict(name, wire_off, readings|spec, strict)"""
    x = Ctx(c, base_url, host)
    r = random.Random(c["build_seed"])
    parts = []
    for i in range(c["before"]):
        w, s = wellformed(x, r, f"b{i}")
        parts.append({"wire": w, "readings": [[s]], "strict": True, "role": "before"})
    m = mutated(x, r, c["mut"])
    m["role"] = "mut"
    parts.append(m)
    for i in range(c["after"]):
        w, s = wellformed(x, r, f"a{i}")
        parts.append({"wire": w, "readings": [[s]], "strict": True, "role": "after"})
    w, s = wellformed(x, random.Random(1), "sentinel", last=True)      # Random(1): first choice is GET
    parts.append({"wire": w, "readings": [[s]], "strict": True, "role": "sentinel"})
    return b"".join(p["wire"] for p in parts), parts, x


def strict_reference(stream):
    """strict RFC 9112 view of the stream: list of (consumed offset) boundaries and the offset at which it rejects (or None)"""
    pos = 0
    bounds = []
    while pos < len(stream):
        m = httpref.parse_message(stream[pos:], False, True)
        if m.error or m.start is None or not m.complete:
            return bounds, pos
        pos += m.consumed
        bounds.append(pos)
    return bounds, None


def first_diff(x, y):
    for i in range(min(len(x), len(y))):
        if x[i] != y[i]:
            return i
    return min(len(x), len(y))


def run(a, res):
    def handler(req):
        return Resp(200, [("Cache-Control", "no-store")], length=20)

    labs = {}
    wit = lambda c: {"seed": c["seed"], "case": c["n"]}

    def one(c):
        lab = labs[(c["relaxed"], c["prefetch"])]
        base_url = f"http://127.0.0.1:{lab.org.port}"
        stream, parts, x = build(c, base_url, f"127.0.0.1:{lab.org.port}")
        mut = next(p for p in parts if p["role"] == "mut")
        bounds, reject_at = strict_reference(stream)
        # the generator's 'strict' flags and the reference parser must agree (self-check of the harness)
        expect_all_strict = all(p["strict"] for p in parts)
        if expect_all_strict != (reject_at is None):
            res.harness_failure.append(f"generator/reference disagree on strictness of mutation {c['mut']} (case {c['n']}): reject_at={reject_at}")
            return
        try:
            conn = lab.conn(timeout=15)
        except OSError:
            res.count("connect_failed")
            return
        r = random.Random(c["build_seed"] + 7)
        splits = sorted({r.randrange(1, len(stream)) for _ in range(c["nsplits"])})
        conn.send(stream, splits, c["delay"])
        # read until squid closes (the sentinel asks for it; a rejection closes too) -- bounded
        nresp = 0
        statuses = []
        deadline = time.time() + 8
        while time.time() < deadline:
            m = conn.read_response("GET", timeout=max(0.1, deadline - time.time()))
            if m.start is None or m.error:
                break
            statuses.append(m.status)
            if not m.complete:
                break
        timed_out = not conn.eof
        conn.close()
        if timed_out:
            res.count("client_timeout_connection_left_open")
        time.sleep(0.15 if not timed_out else 0.3)

        pref = x.pref + "."
        with lab.org.lock:
            ups = [u for u in lab.org.requests if (u.req_id or "").startswith(pref) or x.pathbase + "/" in u.target]
        res.count("upstream_requests", len(ups))
        feat = [c["relaxed"], c["prefetch"], c["mut"], c["before"], c["after"]]

        # ---- (a) upstream framing headers
        bad = False
        for u in ups:
            cls = httpref.get_all(u.headers, "Content-Length")
            tes = httpref.get_all(u.headers, "Transfer-Encoding")
            if (cls and tes) or len(cls) > 1 or len(tes) > 1 or u.framing == "invalid":
                res.violation("upstream-ambiguous-framing", f"mutation {c['mut']} (relaxed {c['relaxed']}): upstream request {u.req_id} carries Content-Length={cls} Transfer-Encoding={tes}; "
                                                            f"head={bytes(u.raw_head)[:300]!r}", wit(c))
                bad = True
            if u.body_error:
                res.violation("upstream-invalid-chunked", f"mutation {c['mut']}: upstream body of {u.req_id} does not parse strictly: {u.body_error}", wit(c))
                bad = True
            if len(httpref.get_all(u.headers, "X-Verif-Req")) != 1:
                res.violation("upstream-id-header-count", f"mutation {c['mut']}: upstream request has {len(httpref.get_all(u.headers, 'X-Verif-Req'))} id headers: {bytes(u.raw_head)[:300]!r}", wit(c))
                bad = True
        if bad:
            return

        # ---- permitted readings of the whole stream
        fixed_before = [p["readings"][0][0] for p in parts if p["role"] == "before"]
        fixed_after = [p["readings"][0][0] for p in parts if p["role"] in ("after", "sentinel")]
        if LIVENESS == "boundary" and mut["readings"]:
            mut = dict(mut, readings=[[(s[0], s[1], s[2], s[3][:-1] if s[3] else b"x") for s in rd] for rd in mut["readings"]])
        if LIVENESS == "reject":
            mut = dict(mut, readings=[], strict=False)
        readings = [fixed_before + rd + fixed_after for rd in mut["readings"]]
        rejected_reading = list(fixed_before)          # squid rejects the anomalous message: nothing after it may be forwarded

        later_ids = {q[0] for q in fixed_after}

        def role_of(u):
            rid = u.req_id or ""
            return "smuggled" if rid.endswith(".smug") else "later" if rid in later_ids else "anomalous" if rid.endswith(".mut") else "unknown"

        def explain(reading, some_ups):
            """None if this reading explains every upstream request in some_ups, else (key, text)"""
            by_id = {s[0]: s for s in reading}
            for u in some_ups:
                s = by_id.get(u.req_id)
                if s is None:
                    return ("unexplained-upstream-request:" + role_of(u), f"upstream request {u.req_id!r} ({u.method} {u.target}) corresponds to no message of a permitted reading")
                upath = "/" + u.target.split("://", 1)[-1].split("/", 1)[-1] if "://" in u.target else u.target
                if u.method != s[1] or upath != s[2]:
                    return ("upstream-request-line-differs", f"upstream {u.req_id}: {u.method} {u.target} vs client {s[1]} {s[2]}")
                cls = httpref.get_all(u.headers, "Content-Length")
                if cls and cls[0].strip().isdigit() and int(cls[0]) != len(s[3]):
                    return ("upstream-content-length-differs" + (":pipelined:other-message" if c["prefetch"] else "" if (u.req_id or "").endswith(".mut") else ":other-message"), f"upstream {u.req_id} ({u.method}) declares Content-Length {cls[0]} but the client message body has {len(s[3])} bytes; "
                                                               f"head={bytes(u.raw_head)[:250]!r}")
                if not hasattr(u, "t_body"):
                    continue        # origin still waiting for body bytes: judged by the declared length above
                if u.body_complete:
                    if u.body != s[3]:
                        return ("upstream-body-boundary-differs", f"upstream {u.req_id} complete with {len(u.body)} body bytes; the client message body has {len(s[3])} bytes "
                                                                  f"(first diff at {first_diff(u.body, s[3])}; upstream tail {u.body[-60:]!r})")
                elif not s[3].startswith(u.body):
                    return ("upstream-body-boundary-differs", f"upstream {u.req_id} incomplete with {len(u.body)} body bytes that are not a prefix of the client message body")
            return None

        mut_id = x.ident("mut")
        mut_complete_up = [u for u in ups if u.req_id == mut_id and hasattr(u, "t_body") and u.body_complete]
        later_up = [u for u in ups if u.req_id in later_ids or (u.req_id or "").endswith(".smug")]
        verdicts = [explain(rd, ups) for rd in readings]
        violation = None
        cl_differs = [v for v in verdicts if v is not None and v[0].startswith("upstream-content-length-differs")]
        if not any(v is None for v in verdicts) and not readings:
            cl_differs = [v for v in [explain(rejected_reading, [u for u in ups if u.req_id in {q[0] for q in rejected_reading}])] if v is not None and v[0].startswith("upstream-content-length-differs")]
        if not any(v is None for v in verdicts) and cl_differs:
            # a declared upstream length that no reading explains is a monotone fact (does not depend on when we looked)
            violation = cl_differs[0]
            outcome = "violation"
        elif any(v is None for v in verdicts):
            outcome = "explained"
            if not mut["strict"] and not mut_complete_up and later_up and not timed_out:
                # the strict reference rejects the anomalous message, squid did not forward it (completely), yet it kept
                # reading the connection and forwarded what follows: it cannot know where the next message starts
                violation = ("continued-after-not-forwarding-anomalous-message", f"later requests {[u.req_id for u in later_up]} were forwarded although the anomalous message was not")
        elif mut_complete_up:
            if not readings:
                u = mut_complete_up[0]
                violation = ("must-reject-forwarded", f"the anomalous message has no permitted delimitation (RFC 9112: MUST reject) but reached the origin complete with {len(u.body)} body bytes, "
                                                      f"head {bytes(u.raw_head)[:250]!r}")
            else:
                violation = verdicts[0]
        else:
            # the anomalous message did not get through completely: earlier messages and a visibly incomplete attempt only
            outcome = "rejected"
            attempt = [u for u in ups if u.req_id == mut_id]
            for u in (ups if not timed_out else []):
                if u.req_id != mut_id and u.req_id not in {s[0] for s in rejected_reading}:
                    violation = ("after-rejected:" + role_of(u), f"upstream request {u.req_id!r} ({u.method} {u.target}) although the anomalous message was not forwarded under any permitted reading")
                    break
            if timed_out:
                # the connection never ended (hang): whether the anomalous message would still have completed is unknown
                outcome = "timed_out"
                res.count("timed_out_cases_not_judged_on_ordering_clauses")
            if violation is None:
                violation = explain(rejected_reading, [u for u in ups if u.req_id in {q[0] for q in rejected_reading}])
            if violation is None and attempt:
                res.count("anomalous_message_visibly_incomplete_upstream")
        if violation is not None:
            key, text = violation
            if not key.endswith(":other-message"):
                # with pipeline_prefetch > 0 the anomaly kind is (so far always) irrelevant: keep the key coarse
                key = key + ":" + ("pipelined" if c["prefetch"] else c["mut"].split("_")[0])
            res.violation(key, f"mutation {c['mut']}, relaxed_header_parser {c['relaxed']}, pipeline_prefetch {c['prefetch']}, before={c['before']} after={c['after']}: {text}; "
                                                              f"client statuses {statuses}; upstream ids {[u.req_id for u in ups]}", wit(c))
            return
        res.count("outcome_" + outcome)
        if os.environ.get("VERIF_DETAIL"):
            res.count(f"detail:{c['mut']}:{c['relaxed']}:{outcome}:{'fwd' if mut_complete_up else 'nofwd'}:{statuses[c['before']] if len(statuses) > c['before'] else None}")
        if outcome == "explained" and mut_complete_up:
            res.count("anomalous_message_forwarded" if not mut["strict"] else "strict_message_forwarded")
        sentinel_up = any(u.req_id == x.ident("sentinel") for u in ups)
        res.count("sentinel_forwarded" if sentinel_up else "sentinel_not_forwarded")
        res.feature(*feat, outcome, bool(mut_complete_up), sentinel_up, tuple(statuses[:5]))

    if a.replay_data and "case" in a.replay_data:
        cases = [gen_case(a.replay_data.get("seed", a.seed), a.replay_data["case"])]
    else:
        cases = [gen_case(a.seed, n) for n in range(a.cases)]

    def run_config(cfg):
        mine = [c for c in cases if (c["relaxed"], c["prefetch"]) == cfg]
        if not mine:
            return
        lab = start_lab(a, res, handler=handler, conf=f"relaxed_header_parser {cfg[0]}\npipeline_prefetch {cfg[1]}\ncache deny all\n")
        labs[cfg] = lab
        try:
            def wrapped(c):
                res.case({"case": c["n"], "mut": c["mut"], "relaxed": c["relaxed"]} if c["n"] % 53 == 0 else None)
                one(c)
            with ThreadPoolExecutor(4) as ex:
                list(ex.map(wrapped, mine))
            time.sleep(0.2)
            for ev in list(lab.org.events):
                if ev["ev"] == "bad_request":
                    res.violation("upstream-invalid-head", f"relaxed_header_parser {cfg[0]}: origin could not parse what squid sent: {ev['error']}; data={ev['data'][:400]!r}", {"seed": a.seed})
            with lab.org.lock:
                stray = [u for u in lab.org.requests if "/c03/" not in u.target]
            for u in stray[:3]:
                res.violation("unattributed-upstream-request", f"origin received a request that is no client message: {bytes(u.raw_head)[:300]!r}", {"seed": a.seed})
        finally:
            lab.finish()

    cfgs = sorted({(c["relaxed"], c["prefetch"]) for c in cases})
    with ThreadPoolExecutor(2) as ex2:
        list(ex2.map(run_config, cfgs[:2]))
    for cfg in cfgs[2:]:
        run_config(cfg)
    if not a.replay_data:
        if res.counters.get("anomalous_message_forwarded", 0) + res.counters.get("strict_message_forwarded", 0) < max(1, a.cases // 10):
            res.inconclusive.append("too few anomalous/strict test messages were forwarded to exercise the boundary oracle")
        if res.counters.get("outcome_rejected", 0) < 1 and a.cases >= 50:
            res.inconclusive.append("no rejected stream observed (sentinel clause not exercised)")


if __name__ == "__main__":
    base.main_wrapper("C03", run)
