#!/usr/bin/python3
"""C04 Hop-by-hop and proxy-credential headers are not relayed (DESIGN 5.1)."""
import random
from lab import base, httpref
from lab.lab import Lab, run_cases, Resp, Conn, request_bytes

STD_REQ = ["Keep-Alive", "TE", "Trailer", "Upgrade", "Proxy-Connection", "Proxy-Authenticate"]
REG_REQ = ["From", "Referer", "Accept-Language", "Accept-Charset", "Content-Language", "Link", "Warning"]
REG_RSP = ["Content-Language", "Link", "Server", "Content-Location", "Warning", "Accept-Ranges", "Retry-After"]
STD_RSP = ["Keep-Alive", "Trailer", "Upgrade", "Proxy-Connection", "Proxy-Authenticate"]


def rand_case(s, r):
    return "".join(ch.upper() if r.random() < 0.5 else ch.lower() for ch in s)


def gen_side(r, marker, std):
    """returns (headers list, forbidden names (lower) that carry the marker, end-to-end names that must survive)"""
    hs = []
    listed = []
    n_ext = r.randrange(0, 5)
    ext_names = [f"X-Hop{r.randrange(1000)}-{i}" for i in range(n_ext)]
    # a sender may also nominate REGISTERED end-to-end fields (not framing/routing ones) as hop-by-hop for this connection
    if r.random() < 0.35:
        pool = REG_RSP if std is STD_RSP else REG_REQ
        for nme in r.sample(pool, r.randrange(1, 3)):
            ext_names.append(nme)
    e2e_names = [f"X-E2e{r.randrange(1000)}-{i}" for i in range(r.randrange(0, 4))]
    # Connection header(s) listing the extension names with noise
    nconn = r.choice([1, 1, 2, 3]) if ext_names else r.choice([0, 1])
    buckets = [[] for _ in range(max(1, nconn))]
    for nme in ext_names:
        r.choice(buckets).append(nme)
        listed.append(nme.lower())
    conn_headers = []
    for b in buckets[:nconn] if nconn else []:
        items = [rand_case(x, r) for x in b]
        # noise: empty members, OWS
        for _ in range(r.randrange(0, 3)):
            items.insert(r.randrange(len(items) + 1), "")
        sep = r.choice([",", ", ", " ,", " , ", ",\t"])
        v = sep.join(items)
        if r.random() < 0.3:
            v = " " + v + " "
        if not v.strip(" ,\t"):
            v = v + "keep-alive" if r.random() < 0.5 else v
        conn_headers.append(("Connection", v))
    forb = {}
    for nme in ext_names:
        hs.append((rand_case(nme, r), f"{marker}-{nme}"))
        forb[nme.lower()] = f"{marker}-{nme}"
    for nme in e2e_names:
        hs.append((nme, f"{marker}-{nme}"))
    for nme in std:
        if r.random() < 0.45:
            if nme == "TE":
                v = f"trailers, {marker}te;q=0.5"
            elif nme == "Keep-Alive":
                v = f"timeout=5, {marker}ka=1"
            elif nme == "Upgrade":
                v = f"{marker}proto/1.0"
            elif nme == "Trailer":
                v = f"X-{marker}-Trailer"
            elif nme == "Proxy-Connection":
                v = f"keep-alive, {marker}pc"
            else:
                v = f"Basic realm=\"{marker}\""
            hs.append((rand_case(nme, r), v))
            forb[nme.lower()] = marker
    # place Connection headers at random positions
    for ch in conn_headers:
        hs.insert(r.randrange(len(hs) + 1), (rand_case(ch[0], r), ch[1]))
    return hs, forb, [x.lower() for x in e2e_names], listed


def gen_case(seed, n):
    r = random.Random(f"C04:{seed}:{n}")
    c = {"n": n, "seed": seed}
    c["mreq"] = f"mq{seed}x{n}"
    c["mrsp"] = f"mr{seed}x{n}"
    c["req_headers"], c["req_forb"], c["req_e2e"], c["req_listed"] = gen_side(r, c["mreq"], STD_REQ)
    c["rsp_headers"], c["rsp_forb"], c["rsp_e2e"], c["rsp_listed"] = gen_side(r, c["mrsp"], STD_RSP)
    c["proxy_auth"] = r.random() < 0.5
    c["method"] = r.choice(["GET", "GET", "POST", "PUT"])
    c["chunked_req"] = c["method"] != "GET" and r.random() < 0.5
    c["body_len"] = r.choice([0, 1, 100, 5000])
    c["cache"] = r.random() < 0.3
    # an interim (103) response with its own hop-by-hop nominations, relayed as a control message
    r1 = random.Random(f"C04:1xx:{seed}:{n}")
    c["interim"] = r1.random() < 0.3
    c["m1xx"] = f"mi{seed}x{n}"
    c["i_headers"], c["i_forb"], c["i_e2e"], c["i_listed"] = gen_side(r1, c["m1xx"], ["Keep-Alive", "Proxy-Connection", "Proxy-Authenticate"])
    return c


def run(a, res):
    table = {}

    def handler(req):
        path = "/" + req.target.split("://", 1)[-1].split("/", 1)[-1]
        c = table.get(path)
        if not c:
            return Resp(404, length=3)
        hs = list(c["rsp_headers"])
        if c["cache"]:
            hs.append(("Cache-Control", "max-age=600"))
            # cache-relevant fields that squid itself looks up or replaces when it answers from the cache, nominated as
            # hop-by-hop by the origin (not judged by value -- squid may emit its own Age/Date/Expires --, they drive the
            # header bookkeeping on the hit path)
            r2 = random.Random(f"C04:hit:{c['seed']}:{c['n']}")
            if r2.random() < 0.5:
                import time as _t
                extra = r2.sample([("Age", "7"), ("Expires", httpref.http_date(_t.time() + 3600) if hasattr(httpref, "http_date") else "Thu, 01 Jan 2099 00:00:00 GMT"),
                                   ("Last-Modified", "Mon, 01 Jan 2024 00:00:00 GMT"), ("ETag", '"c04"'), ("Warning", '199 - "x"')], r2.randrange(1, 4))
                hs += extra
                hs.append(("Connection", ", ".join(k for k, _ in extra)))
                res.count("cached_responses_nominating_cache_fields")
        resp = Resp(200, hs, length=50)
        if c["interim"]:
            resp.interim = [("HTTP/1.1 103 Early Hints\r\n" + "".join(f"{k}: {v}\r\n" for k, v in c["i_headers"]) + "Link: </c04.css>; rel=preload\r\n\r\n").encode("latin1")]
        return resp

    lab = Lab(a, res, handler=handler, conf="cache_mem 16 MB\n")
    wit = lambda c: {"seed": c["seed"], "case": c["n"]}

    def one(c):
        path = f"/c04/{c['seed']}/{c['n']}"
        table[path] = c
        rid = f"{c['seed']}.{c['n']}"
        hs = list(c["req_headers"])
        if c["proxy_auth"]:
            hs.append(("Proxy-Authorization", "Basic " + __import__("base64").b64encode(f"u{c['mreq']}:p{c['mreq']}".encode()).decode()))
        body = None
        if c["method"] != "GET":
            body = (c["mreq"].encode() * 1000)[:c["body_len"]]
        conn = lab.conn()
        # our own Connection: close would merge into the listed names; instead rely on reading by framing, then close
        conn.send(request_bytes(c["method"], lab.url(path), hs, body, req_id=rid, chunked=[7, 100] if (c["chunked_req"] and body is not None) else None))
        m = conn.read_response(c["method"], timeout=20)
        conn.close()
        feat = [len(c["req_listed"]), len(c["rsp_listed"]), sorted(k for k in c["req_forb"] if not k.startswith("x-")), sorted(k for k in c["rsp_forb"] if not k.startswith("x-")), c["method"], c["chunked_req"], c["proxy_auth"]]
        ups = lab.at_origin(rid)
        if m.start is None or m.error:
            res.count("no_or_bad_response")
            if m.error:
                res.violation("client-bytes-invalid-http", m.error, wit(c))
            return
        if m.status != 200 or not ups:
            res.count("not_forwarded_status_%s" % m.status)
            res.feature(*feat, "notfwd", m.status)
            # still: request-side leakage is impossible if nothing reached the origin
            return
        up = ups[0]
        res.count("forwarded")
        # ---- request side
        for name, value in up.headers:
            ln = name.lower()
            if ln in c["req_forb"] and c["req_forb"][ln] in value:
                kind = "listed-in-connection" if ln in c["req_listed"] else "standard-" + ln
                res.violation(f"request-hop-header-relayed:{kind}", f"origin received '{name}: {value}' which the client sent as hop-by-hop; client headers={c['req_headers']}", wit(c))
            if ln == "proxy-authorization":
                res.violation("proxy-authorization-relayed", f"origin received Proxy-Authorization: {value}", wit(c))
            if ln == "transfer-encoding" and value.strip().lower() != "chunked":
                res.violation("foreign-transfer-encoding-upstream", f"origin received Transfer-Encoding: {value}", wit(c))
            if ln == "connection":
                for tok in value.split(","):
                    if tok.strip().lower() in c["req_listed"]:
                        res.violation("request-connection-token-relayed", f"upstream Connection header names client's hop-by-hop field: {value}", wit(c))
        e2e_ok = sum(1 for nme in c["req_e2e"] if any(k.lower() == nme for k, _ in up.headers))
        res.count("e2e_request_headers_delivered", e2e_ok)
        res.count("e2e_request_headers_sent", len(c["req_e2e"]))
        # ---- interim responses relayed to the client
        for im in conn.interim:
            res.count("interim_relayed")
            for name, value in im.headers:
                ln = name.lower()
                if ln in c["i_forb"] and c["i_forb"][ln] in value:
                    kind = "listed-in-connection" if ln in c["i_listed"] else "standard-" + ln
                    res.violation(f"interim-hop-header-relayed:{kind}", f"client received '{name}: {value}' in a {im.status} interim response; the origin sent it as hop-by-hop; origin 1xx headers={c['i_headers']}", wit(c))
        # ---- response side
        for name, value in m.headers:
            ln = name.lower()
            if ln in c["rsp_forb"] and c["rsp_forb"][ln] in value:
                kind = "listed-in-connection" if ln in c["rsp_listed"] else "standard-" + ln
                res.violation(f"response-hop-header-relayed:{kind}", f"client received '{name}: {value}' which the origin sent as hop-by-hop; origin headers={c['rsp_headers']}", wit(c))
            if ln == "transfer-encoding" and value.strip().lower() != "chunked":
                res.violation("foreign-transfer-encoding-downstream", f"client received Transfer-Encoding: {value}", wit(c))
        e2e_ok = sum(1 for nme in c["rsp_e2e"] if any(k.lower() == nme for k, _ in m.headers))
        res.count("e2e_response_headers_delivered", e2e_ok)
        res.count("e2e_response_headers_sent", len(c["rsp_e2e"]))
        res.feature(*feat, "fwd")
        # ---- the same object again, now (usually) from the cache: stored headers went through the same removal
        if c["cache"] and c["method"] == "GET":
            conn2 = lab.conn()
            conn2.send(request_bytes("GET", lab.url(path), [], None, req_id=rid + ".again"))
            m2 = conn2.read_response("GET", timeout=20)
            conn2.close()
            if m2.start is not None and not m2.error and m2.status == 200:
                res.count("refetched")
                if not lab.at_origin(rid + ".again"):
                    res.count("refetched_from_cache")
                for name, value in m2.headers:
                    ln = name.lower()
                    if ln in c["rsp_forb"] and c["rsp_forb"][ln] in value:
                        kind = "listed-in-connection" if ln in c["rsp_listed"] else "standard-" + ln
                        res.violation(f"response-hop-header-relayed:{kind}:on-refetch", f"client received '{name}: {value}' on the second fetch; origin headers={c['rsp_headers']}", wit(c))

    try:
        run_cases(a, res, gen_case, one, threads=8)
    finally:
        lab.finish()
    if res.counters.get("forwarded", 0) < max(1, a.cases // 4) and not a.replay_data:
        res.inconclusive.append("too few forwarded transactions")


if __name__ == "__main__":
    base.main_wrapper("C04", run)
