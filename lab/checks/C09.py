#!/usr/bin/python3
"""C09 Adversarial HTTP peers cannot cause memory errors or crashes (DESIGN 5.1).

Grammar-aware generation + mutation of (a) client request streams sent to the real ASan+UBSan squid and (b) origin
response streams (Resp(raw=...)) returned to squid for ordinary (plus Range / conditional / HEAD) client requests,
cacheable ones being fetched twice so that the stored copy is parsed again. Limits are set small
(request_header_max_size / reply_header_max_size 16 KB) so that "sizes near the limits" are cheap.
Oracle: process monitors (ASan report, assertion, FATAL, unexpected exit), UBSan reports of the memory kinds, and a health
probe transaction after every batch of 50 cases. Every hostile connection is half-closed after sending and must end with
a response or a close within a bounded wait; connections still open after the wait are counted (inconclusive above 5%).
Arithmetic UBSan kinds are notes (they belong to C27/C28/C52).
"""
import os, random, threading, time, socket, struct, base64
from concurrent.futures import ThreadPoolExecutor
from lab import base, httpref
from lab.lab import Lab, Resp, Conn, request_bytes
from lab.origin import make_body, http_date

BATCH = 50
LIMIT = 16384
NUMS = ["0", "1", "-1", "+1", "00", "-0", "2147483647", "2147483648", "4294967295", "4294967296", "4294967297", "9223372036854775807", "9223372036854775808",
        "18446744073709551615", "18446744073709551616", "99999999999999999999999999999", "1e3", "0x10", "1.5", "", " ", "1 2", "1,1", "1, 2", "1;1", "١٢", "1\x00"]
SIZES = [0, 1, 2, 255, 256, 4095, 4096, 8191, 8192, LIMIT - 200, LIMIT - 2, LIMIT, LIMIT + 2, 32768, 65534, 65535, 65536, 65537, 70000, 140000]
METHODS = ["GET", "GET", "GET", "HEAD", "POST", "PUT", "DELETE", "OPTIONS", "TRACE", "CONNECT", "PURGE", "PATCH", "PROPFIND", "FROB", "get", "G", "GET\x00", "G\xc3\x89T",
           "", "A" * 40, "A" * 70000, "M-SEARCH", "PRI", "GET/", "(GET)", "NONE", "%s"]
VERSIONS = ["HTTP/1.1", "HTTP/1.1", "HTTP/1.1", "HTTP/1.0", "HTTP/0.9", "HTTP/2.0", "HTTP/1.10", "HTTP/01.1", "HTTP/1.", "HTTP/.1", "HTTP/1", "http/1.1", "HTTP/1.1 ", "HTTP/9.9",
            "HTTP/1.1\x00", "ICY/1.0", "HTTPS/1.1", "HTTP/11", "HTTP/4294967297.1", "", None, "HTTP/1.1 HTTP/1.1", "RTSP/1.0", "HTTP/-1.1"]
EOLS = ["\r\n"] * 12 + ["\n", "\r", "\r\r\n", "\n\r", "\r\n\r", " \r\n", "\x00\r\n"]
TE_VALUES = ["chunked", "chunked", "Chunked", "chunked, chunked", "gzip, chunked", "chunked, gzip", "identity", "identity, chunked", "chunked;q=1", "\"chunked\"", " chunked ", "chunked\t",
             "x" * 300, "chunked,", ",chunked", "chunked\r\n identity", "xchunked", "chunked, " * 200, "", "gzip", "deflate, chunked", "chunked\x00"]
HDR_NAMES = ["Host", "Content-Length", "Transfer-Encoding", "Connection", "Proxy-Connection", "Expect", "Range", "If-Range", "If-Modified-Since", "If-None-Match", "If-Match",
             "If-Unmodified-Since", "Cache-Control", "Pragma", "Authorization", "Proxy-Authorization", "Via", "X-Forwarded-For", "Forwarded", "Max-Forwards", "Upgrade", "Cookie",
             "Accept-Encoding", "Accept", "TE", "Trailer", "Keep-Alive", "Content-Type", "Content-Encoding", "Content-Range", "Date", "Age", "Expires", "Last-Modified", "ETag",
             "Vary", "Location", "Set-Cookie", "Warning", "Surrogate-Control", "Surrogate-Capability", "CDN-Loop", "Cache-Status", "X-Cache", "Proxy-Authenticate",
             "WWW-Authenticate", "Authentication-Info", "Alt-Svc", "Link", "Retry-After", "Content-Disposition", "Content-Location", "Content-MD5", "HTTP2-Settings", "Public",
             "Negotiate", "Alternates", "X-Accelerator-Vary", "X-Next-Services", "FTP-Command", "FTP-Arguments", "FTP-Pre", "FTP-Status", "FTP-Reason", "Translate", "Unless-Modified-Since",
             "Mime-Version", "Request-Range", "Title", "Other", "X-Squid-Error", "Proxy-Support", "Front-End-Https", "Key", "Origin", "Priority", "Referer", "User-Agent", "Server",
             "From", "Allow", "Accept-Ranges", "Accept-Charset", "Accept-Language", "Content-Language", "Content-Base", "Position", "Hdr-Range"]
DATES = ["Sun, 06 Nov 1994 08:49:37 GMT", "Sunday, 06-Nov-94 08:49:37 GMT", "Sun Nov  6 08:49:37 1994", "Thu, 01 Jan 1970 00:00:00 GMT", "Fri, 31 Dec 9999 23:59:59 GMT", "Tue, 19 Jan 2038 03:14:08 GMT",
         "Sun, 06 Nov 1994 25:61:61 GMT", "Sun, 32 Nov 1994 08:49:37 GMT", "0", "-1", "now", "Sun, 06 Nov 99999999999 08:49:37 GMT", "Sun, 06 Nov 1994 08:49:37 +0000", "06 Nov 1994", "Sun, 06 Foo 1994 08:49:37 GMT",
         "Wednesday, 00-Jan-00 00:00:00 GMT", "Sun, 06 Nov 1994 08:49:37 GMT" + " " * 300, "Mon, 01 Jan 0000 00:00:00 GMT", "Sat, 01 Jan 2000 00:00:00 GMT; length=100", "\x00"]
RANGES = ["bytes=0-0", "bytes=0-", "bytes=-1", "bytes=0-9223372036854775807", "bytes=9223372036854775807-", "bytes=-9223372036854775808", "bytes=5-1", "bytes=0-0,2-2,4-4", "bytes=" + ",".join("%d-%d" % (i, i) for i in range(600)),
          "bytes=0-0," * 3000 + "1-1", "bytes=-0", "bytes=a-b", "bytes 0-1", "bytes=0-1,", "bytes=,", "items=0-1", "bytes=0x1-0x2", "bytes=1-2-3", "bytes= 1 - 2", "bytes=18446744073709551616-", "bytes=0-99999999999999999999", "bytes=--1", "bytes=1-,-1"]
CC_DIRECTIVES = ["max-age", "s-maxage", "max-stale", "min-fresh", "stale-while-revalidate", "stale-if-error", "no-cache", "no-store", "private", "public", "must-revalidate", "proxy-revalidate", "only-if-cached", "no-transform", "immutable", "foo"]


def P(r, x):
    """mutation decision, scaled by the per-stream intensity r.q (0.08 / 0.3 / 1.0)"""
    return r.random() < x * getattr(r, "q", 1.0)


def eol(r):
    return r.choice(EOLS) if P(r, 0.5) else "\r\n"


def rnd_bytes_str(r, n):
    return "".join(chr(r.choice([r.randrange(33, 127), r.randrange(33, 127), r.randrange(128, 256), r.randrange(1, 32)])) for _ in range(n))


def pick_value(r, name, ctx):
    n = name.lower()
    k = r.random() / max(getattr(r, "q", 1.0), 0.01)
    if k < 0.08:
        return r.choice(["", " ", "\t", "\x00", "\x7f", "\xff" * 10, "a\rb", "a\nb", "a\r\n b", "a\r\n\tb", ",", ",,,,", "\"", "\"\\", "(", "=;=;", "%00", "%"])
    if k < 0.14:
        return "v" * r.choice(SIZES)
    if k < 0.18:
        return rnd_bytes_str(r, r.choice([1, 8, 64, 500]))
    if n in ("content-length", "max-forwards", "age", "retry-after", "keep-alive"):
        return r.choice(NUMS)
    if n == "transfer-encoding" or n == "te":
        return r.choice(TE_VALUES)
    if n == "host":
        return r.choice([ctx["hostport"], ctx["hostport"], "127.0.0.1", "127.0.0.1:", "127.0.0.1:99999", "127.0.0.1:80abc", "[::1]", "[::1", "::1", "a" * 300, "a." * 200, "-", ".", "..", "127.1", "0x7f.1", "127.0.0.1:%d, evil" % ctx["port"],
                         "evil.invalid", "127.0.0.1:" + "9" * 30, "user@127.0.0.1", "127.0.0.1:%d " % ctx["port"], "\x00", "127.0.0.1\x00.evil.invalid", "[v1.fe]", "[fe80::1%25eth0]", "[" + "1:" * 60 + "]"])
    if n in ("connection", "proxy-connection", "trailer", "vary", "public", "allow"):
        toks = [r.choice(["close", "keep-alive", "upgrade", "te", "Content-Length", "Transfer-Encoding", "Host", "Connection", "*", "", "x" * 100, r.choice(HDR_NAMES)]) for _ in range(r.choice([1, 1, 2, 5, 300]))]
        return r.choice([", ", ",", " , ", ",,"]).join(toks)
    if n == "expect":
        return r.choice(["100-continue", "100-Continue", "100-continue, foo", "200-ok", "100-continue;q=1", "", "x" * 1000])
    if n in ("range", "request-range", "hdr-range"):
        return r.choice(RANGES)
    if n == "content-range":
        return r.choice(["bytes 0-0/1", "bytes 0-99/100", "bytes */100", "bytes 0-0/*", "bytes 5-1/10", "bytes 0-9223372036854775807/9223372036854775807", "bytes 0-1/18446744073709551616", "bytes -1-2/3", "bytes 0-1/0", "items 0-1/2",
                         "bytes 0-1", "bytes", "bytes 0-1/2/3", "bytes 9223372036854775807-9223372036854775807/9223372036854775807", "bytes a-b/c", "bytes 0 - 1 / 2"])
    if n in ("if-modified-since", "if-unmodified-since", "date", "expires", "last-modified", "unless-modified-since") or (n == "if-range" and r.random() < 0.5):
        return r.choice(DATES)
    if n in ("if-none-match", "if-match", "etag", "if-range"):
        return r.choice(['"a"', 'W/"a"', "*", '"a", "b"', '"a",' * 500 + '"z"', '"unterminated', 'W/', 'w/"a"', '""', '"a" "b"', '"\\""', "a", '"' + "e" * 70000 + '"', '"a"\x00', '*, "a"', 'W/"a", *'])
    if n in ("cache-control", "surrogate-control", "pragma"):
        ds = []
        for _ in range(r.choice([1, 1, 2, 4, 200])):
            d = r.choice(CC_DIRECTIVES)
            if r.random() < 0.7:
                d += r.choice(["=", " = ", "==", "=\"", "=\"%s\"", ";"]).replace("%s", r.choice(NUMS)) if r.random() < 0.3 else "=" + r.choice(NUMS)
            ds.append(d)
        return r.choice([", ", ",", ";", " "]).join(ds)
    if n in ("authorization", "proxy-authorization"):
        cred = base64.b64encode(rnd_bytes_str(r, r.choice([0, 1, 10, 300])).encode("latin1")).decode()
        return r.choice(["Basic " + cred, "Basic", "Basic ", "Basic " + cred[:-1] + "!", "Basic " + "A" * r.choice(SIZES), "basic\t" + cred, "Digest username=\"a\", realm=\"b\", nonce=\"c\", uri=\"/\", response=\"d\"",
                         "Digest " + "x=\"y\"," * 400, "Digest username=\"" + "u" * 9000 + "\"", "Digest nc=zzzzzzzz, qop=auth", "Negotiate " + cred, "NTLM " + cred, "Bearer " + cred, "Negotiate", "NTLM TlRMTVNTUAABAAAA", cred, " ", "Basic Og==", "Basic =",
                         "Digest username=\"a\\\"", "Digest username=a,,,realm"])
    if n in ("www-authenticate", "proxy-authenticate"):
        return r.choice(["Basic realm=\"x\"", "Basic", "Digest realm=\"x\", nonce=\"y\", qop=\"auth\"", "Negotiate", "NTLM", "NTLM " + "A" * 3000, "Basic realm=\"" + "r" * 9000 + "\"", "Foo bar, Basic realm=x", ",,,"])
    if n == "via":
        return ", ".join(r.choice(["1.1 a", "1.0 fred (x)", "HTTP/1.1 b:80", "1.1 verif.test (squid/8.0.0-VCS)", "1.1 " + "h" * 300, "(((", "1.1 a (unterminated", "", "9999999999.1 x"]) for _ in range(r.choice([1, 2, 50])))
    if n in ("x-forwarded-for", "forwarded"):
        return ", ".join(r.choice(["1.2.3.4", "::1", "[::1]:80", "unknown", "256.256.256.256", "1.2.3.4.5", "for=\"[::1]\";proto=http", "a" * 300, "", "1.2.3.4:99999", "\x00"]) for _ in range(r.choice([1, 3, 400])))
    if n == "upgrade":
        return r.choice(["websocket", "h2c", "HTTP/2.0", "websocket, h2c", "a/b/c", "/", "websocket/" + "9" * 30, "", "x" * 1000, "TLS/1.0, HTTP/1.1"])
    if n in ("content-encoding", "accept-encoding"):
        return r.choice(["gzip", "identity", "gzip, gzip, gzip", "br;q=0.x", "*;q=2", "x" * 500, "", "gzip;q=1.0000000000000000000001"])
    if n in ("set-cookie", "cookie"):
        return r.choice(["a=b", "a=b; " * 800, "=" * 100, "a=" + "c" * r.choice(SIZES), "a=b; Expires=" + r.choice(DATES), "\x01\x02"])
    if n == "location" or n == "content-location" or n == "referer" or n == "link":
        return r.choice(["http://127.0.0.1/", "/", "//", "http://[::1", "http://a:b@c:d/", "javascript:1", "http://" + "a" * 70000, "\x00", "http://127.0.0.1:%d/%%zz" % ctx["port"], ""])
    if n in ("surrogate-capability", "cdn-loop", "cache-status", "alt-svc", "warning", "keep-alive", "priority", "key", "alternates", "negotiate"):
        return r.choice(["verif.test", "verif.test; a=b", "a=\"b\", " * 300, "\"", "x;y;z;;;", "110 - \"x\" \"" + r.choice(DATES) + "\"", "199 a \"b", "timeout=" + r.choice(NUMS) + ", max=" + r.choice(NUMS)])
    if n.startswith("ftp-"):
        return r.choice(["USER", "220", "a b c", "\r\n", "x" * 3000])
    return r.choice(["x", "text/html", "*/*", "a, b", "Mozilla/5.0", r.choice(NUMS), r.choice(DATES), "x" * 200])


def gen_headers(r, ctx, base_hdrs, is_response):
    """base_hdrs: list of (name, value) the message needs to make sense; returns a list of raw header lines (str, with eol)"""
    hs = list(base_hdrs)
    nextra = r.choice([0, 0, 1, 2, 3, 6, 12]) if not P(r, 0.03) else r.choice([150, 700, 3000])
    for _ in range(nextra):
        name = r.choice(HDR_NAMES)
        if name in ("Host", "Content-Length", "Transfer-Encoding", "Expect", "Upgrade", "Connection") and not P(r, 0.3):
            name = "X-" + name
        hs.insert(r.randrange(len(hs) + 1), (name, pick_value(r, name, ctx)))
    lines = []
    for name, value in hs:
        nm = name
        if P(r, 0.04):
            nm = r.choice([name.upper(), name.lower(), name + " ", " " + name, name + "\t", name.replace("-", "_"), name + "\x00", "", ":" + name, name * 50, "X-" + "n" * r.choice([100, 5000, 66000]), name + "\xe9",
                           "(" + name + ")", name[:1] + "\r\n" + name[1:]])
        sep = r.choice([":", ":  ", ":\t", " : ", ": \r\n ", ": \r\n\t ", ""]) if P(r, 0.1) else ": "
        if P(r, 0.02):
            value = value + "\r\n " + pick_value(r, name, ctx)          # obs-fold continuation
        lines.append(nm + sep + value + eol(r))
        if P(r, 0.03):
            lines.append(lines[-1])                                      # duplicate
    if P(r, 0.03):
        lines.insert(r.randrange(len(lines) + 1), r.choice(["no colon here\r\n", " leading space: x\r\n", "\x00\r\n", ": empty name\r\n", "\r", "\n", "a" * 70000 + "\r\n", "\xff\xfe: bom\r\n"]))
    return lines


def chunked_body(r, data):
    """grammar-aware (and often invalid) chunked encoding of data"""
    out = []
    pos = 0
    nchunks = r.choice([1, 1, 2, 5, 40])
    for i in range(nchunks):
        rest = len(data) - pos
        sz = rest if i == nchunks - 1 else r.randrange(0, rest + 1) if rest else 0
        if sz == 0 and i != nchunks - 1:
            continue
        size_txt = "%x" % sz
        if P(r, 0.12):
            size_txt = r.choice(["%X" % sz, "0" * r.choice([1, 20, 5000]) + "%x" % sz, "0x%x" % sz, "+%x" % sz, "-%x" % max(sz, 1), " %x" % sz, "%x " % sz, "ffffffffffffffff", "10000000000000000", "7fffffffffffffff", "8000000000000000",
                                   "fffffffffffffffffffffffffff", "g", "", "%x" % (sz + 1), "%x" % max(0, sz - 1), "%d" % sz if sz > 9 else "a", "\x00", "%x\x00" % sz, "1" + "0" * 40])
        ext = ""
        if P(r, 0.2):
            ext = r.choice([";a=b", ";a", ";", ";;", "; a = b", ";a=\"b\"", ";a=\"b\\\"c\"", ";a=\"unterminated", ";" + "e" * r.choice([100, 5000, 70000]), ";a=b" * 2000, " ;a=b", ";a=\"\r\n\"", ";\x00", ";a=\xff", "\t;\ta\t=\tb"])
        out.append(size_txt + ext + eol(r))
        out.append(data[pos:pos + sz].decode("latin1"))
        out.append(r.choice(["\n", "", "\r", "\r\n\r\n", "x\r\n"]) if P(r, 0.07) else "\r\n")
        pos += sz
    last = r.choice(["00000", "0;a=b", "0 ", "", "-0", "0x0", "0" * 3000]) if P(r, 0.1) else "0"
    out.append(last + eol(r))
    if P(r, 0.25):
        for _ in range(r.choice([1, 2, 30])):
            name = r.choice(HDR_NAMES)
            out.append(name + ": " + pick_value(r, name, {"hostport": "x", "port": 1}) + eol(r))
    out.append(r.choice(["", "\n", "\r\n\r\n", "garbage"]) if P(r, 0.1) else "\r\n")
    return "".join(out).encode("latin1", "replace")


def byte_mutate(r, data):
    if not data:
        return data
    b = bytearray(data)
    for _ in range(r.choice([1, 1, 2, 5])):
        k = r.random()
        i = r.randrange(len(b))
        if k < 0.3:
            b[i] = r.choice([0, 0x0d, 0x0a, 0x20, 0x09, 0xff, 0x80, ord(":"), ord(","), ord("\""), ord("%"), r.randrange(256)])
        elif k < 0.5:
            del b[i:i + r.choice([1, 1, 2, 10, 100])]
        elif k < 0.8:
            b[i:i] = r.choice([b"\r\n", b"\n", b"\r", b"\x00", b" ", b"\t", b"\r\n\r\n", b"A" * 100, b"%00", b"\xff\xfe", bytes([r.randrange(256)]) * r.choice([1, 3, 4096])])
        else:
            j = r.randrange(len(b))
            i, j = min(i, j), max(i, j)
            b[i:i] = b[i:j][:5000]
        if not b:
            break
    return bytes(b)


def gen_request_stream(r, ctx):
    """returns bytes: 1..3 (mostly 1) requests, grammar-aware mutated"""
    out = b""
    r.q = r.choice([0.08, 0.3, 1.0])
    for _ in range(r.choice([1, 1, 1, 1, 2, 3])):
        method = r.choice(METHODS) if P(r, 0.5) else r.choice(["GET", "GET", "GET", "POST", "HEAD", "PUT", "CONNECT", "OPTIONS", "TRACE"])
        base_url = f"http://{ctx['hostport']}{ctx['path']}"
        k = r.random()
        if method == "CONNECT" and k < 0.7:
            target = r.choice([ctx["hostport"], "127.0.0.1:1", "127.0.0.1", "127.0.0.1:99999", "[::1]:%d" % ctx["port"], ctx["hostport"] + "/", "evil.invalid:443", ":", "127.0.0.1:" + "1" * 40, "http://" + ctx["hostport"]])
        elif k < 1 - 0.45 * r.q:
            target = base_url
        else:
            target = r.choice([ctx["path"], "*", "/", "", base_url + "/" + "p" * r.choice(SIZES), base_url + "?q=1", base_url + "#frag", base_url + "/%", base_url + "/%zz", base_url + "/%00", base_url + "/a b", base_url + "/\x00", base_url + "/\xff",
                               "http://user:pass@" + ctx["hostport"] + ctx["path"], "http://" + "u" * 3000 + "@" + ctx["hostport"] + "/", "HTTP://" + ctx["hostport"].upper() + ctx["path"], "http:/" + ctx["hostport"], "http:" + ctx["path"], "http://", "http:///x",
                               "http://127.0.0.1:0/", "http://127.0.0.1:65536/", "http://127.0.0.1:-1/", "http://127.0.0.1:80abc/", "http://127.0.0.1:" + "9" * 25 + "/", "http://[::1]:%d%s" % (ctx["port"], ctx["path"]), "http://[::1/", "http://[]/", "http://[v1.x]/",
                               "http://[" + "f:" * 40 + "]/", "http://127.0.0.1.:%d/" % ctx["port"], "http://0x7f000001:%d/" % ctx["port"], "http://2130706433:%d/" % ctx["port"], "http://evil.invalid/", "http://" + "a" * 300 + ".invalid/", "http://" + "a." * 150 + "invalid/",
                               "https://" + ctx["hostport"] + "/", "ftp://user@/", "urn:x:y", "urn:", "cache_object://127.0.0.1/info", "cache_object://127.0.0.1/", "whois://127.0.0.1/x", "gopher://127.0.0.1/", "wais://x/", "foo://bar/", "://", ":",
                               f"http://127.0.0.1:{ctx['sqport']}/squid-internal-mgr/menu", f"http://127.0.0.1:{ctx['sqport']}/squid-internal-mgr/" + r.choice(["info", "mem", "objects", "vm_objects", "filedescriptors", "config", "x" * 300, "", "info?a=b", "menu/", "%00", "index", "utilization", "ipcache", "fqdncache", "idns", "events", "comm_epoll_incoming", "5min", "counters", "pconn", "store_io", "forward", "client_list", "active_requests", "openfd_objects", "storedir", "store_digest", "http_headers", "histograms", "via_headers", "forw_headers", "external_acl", "sbuf", "squidaio_counts", "diskd", "refresh", "delay", "netdb", "asndb", "carp", "userhash", "sourcehash", "server_list", "non_peers", "redirector", "store_id", "basicauthenticator"]),
                               f"http://127.0.0.1:{ctx['sqport']}/squid-internal-static/icons/silk/" + r.choice(["page.png", "../../../etc/passwd", "%2e%2e/", "x" * 3000]), f"http://127.0.0.1:{ctx['sqport']}/squid-internal-dynamic/netdb", f"http://127.0.0.1:{ctx['sqport']}/squid-internal-periodic/store_digest",
                               f"http://verif.test:{ctx['sqport']}/", ctx["path"] + " " + ctx["path"]])
        version = r.choice(VERSIONS) if P(r, 0.3) else r.choice(["HTTP/1.1", "HTTP/1.1", "HTTP/1.0"])
        sp1 = r.choice(["  ", "\t", "", "\x0b", " \t "]) if P(r, 0.07) else " "
        sp2 = r.choice(["  ", "\t", "", "\r", "\x0c"]) if P(r, 0.07) else " "
        line = method + sp1 + target + ((sp2 + version) if version is not None else "") + eol(r)
        if P(r, 0.03):
            line = r.choice(["\r\n", "\n", "\r\n\r\n\r\n", " ", "\x00", "\r"]) + line
        body = b""
        base_h = [("Host", ctx["hostport"]), ("X-Verif-Req", ctx["req_id"])]
        if r.random() < 0.8:
            base_h.append(("Connection", "close"))
        bk = r.random()
        # bodies also on methods that normally carry none (CONNECT with a body, GET/HEAD/TRACE with a body ...)
        if method in ("POST", "PUT", "PATCH", "FROB", "PROPFIND") or bk < 0.1 or (method in ("CONNECT", "GET", "HEAD", "TRACE", "OPTIONS", "DELETE") and bk < 0.3):
            data = make_body(ctx["req_id"], r.choice([0, 1, 10, 1000, 70000]))
            fr = r.random()
            if fr < 0.4:
                body = data
                base_h.append(("Content-Length", str(len(data)) if not P(r, 0.2) else r.choice(NUMS + [str(len(data) + 1), str(max(0, len(data) - 1))])))
            elif fr < 0.85 or r.q < 1:
                body = chunked_body(r, data)
                base_h.append(("Transfer-Encoding", "chunked" if not P(r, 0.25) else r.choice(TE_VALUES)))
                if P(r, 0.15):
                    base_h.append(("Content-Length", r.choice([str(len(data)), str(len(body)), "0", r.choice(NUMS)])))
            else:
                body = data
        if r.random() < 0.08:
            base_h.append(("Expect", "100-continue"))
        if r.random() < 0.05:
            base_h += [("Connection", "Upgrade"), ("Upgrade", "websocket")]
        if P(r, 0.15):
            base_h = [h for h in base_h if h[0] != "Host"]
        lines = gen_headers(r, ctx, base_h, False)
        end = r.choice(["\n", "", "\r", "\r\n\r\n"]) if P(r, 0.07) else "\r\n"
        msg = (line + "".join(lines) + end).encode("latin1", "replace") + body
        out += msg
    if P(r, 0.25):
        out = byte_mutate(r, out)
    if P(r, 0.12) and len(out) > 1:
        out = out[:r.randrange(1, len(out))]
    return out


def gen_response_stream(r, ctx, method):
    r.q = r.choice([0.08, 0.3, 1.0])
    status = r.choice([200, 200, 200, 206, 304, 301, 404, 500]) if not P(r, 0.6) else r.choice([200] * 8 + [206, 204, 304, 301, 302, 303, 307, 308, 400, 401, 403, 404, 407, 412, 416, 417, 500, 502, 503, 504, 100, 101, 102, 103, 199, 0, 99, 600, 999, 1000, 65536, -1])
    ver = "HTTP/1.1" if not P(r, 0.5) else r.choice(["HTTP/1.0", "HTTP/0.9", "HTTP/2.0", "HTTP/1.10", "http/1.1", "ICY", "HTTP/1.", "HTTP", "", "HTTP/1.1\x00", "HTTP/9.9", "HTTP/01.01", "HTTP/4294967297.1"])
    code = str(status) if not P(r, 0.07) else r.choice(["20", "2000", "2OO", "+200", " 200", "200.0", "", "0200", "-200", "٢٠٠", "\x00"])
    reason = "OK" if not P(r, 0.4) else r.choice(["", " ", "x" * r.choice(SIZES), "\x00", "\xff\xfe", "OK\rX: y", "Not Modified", "Partial Content"])
    sp = r.choice(["  ", "\t", ""]) if P(r, 0.07) else " "
    line = ver + sp + code + (" " + reason if not P(r, 0.05) else "") + eol(r)
    data = make_body(ctx["req_id"], r.choice([0, 1, 10, 1000, 5000, 70000, 300000]))
    base_h = [("X-Verif-Rid", "hostile")]
    if r.random() < 0.85:
        base_h.append(("Date", http_date() if not P(r, 0.2) else r.choice(DATES)))
    if r.random() < 0.55:
        base_h.append(("Cache-Control", r.choice(["max-age=3600", "max-age=3600, public", "s-maxage=10", "max-age=" + r.choice(NUMS), "no-cache", "private", "max-age=1, stale-while-revalidate=" + r.choice(NUMS), "public, max-age=3600, immutable"])))
    if r.random() < 0.3:
        base_h.append(("ETag", pick_value(r, "ETag", ctx) if r.random() < 0.3 else '"e%d"' % r.randrange(3)))
    if r.random() < 0.3:
        base_h.append(("Last-Modified", r.choice(DATES) if r.random() < 0.4 else http_date(time.time() - 86400)))
    if r.random() < 0.2:
        base_h.append(("Vary", r.choice(["Accept-Encoding", "*", "Accept-Encoding, User-Agent", "x" * 3000, ", ".join(HDR_NAMES), "", "Accept-Encoding\x00"])))
    if r.random() < 0.1:
        base_h.append(("Expires", r.choice(DATES)))
    if r.random() < 0.08:
        base_h.append(("Age", r.choice(NUMS)))
    if status == 206 or r.random() < 0.05:
        base_h.append(("Content-Range", pick_value(r, "Content-Range", ctx) if r.random() < 0.6 else "bytes 0-%d/%d" % (max(0, len(data) - 1), len(data))))
        if r.random() < 0.2:
            base_h.append(("Content-Type", "multipart/byteranges; boundary=" + r.choice(["x", "", "\"", "b" * 300])))
    body = b""
    fr = r.random()
    if fr < 0.4:
        body = data
        base_h.append(("Content-Length", str(len(data)) if not P(r, 0.25) else r.choice(NUMS + [str(len(data) + 1), str(max(0, len(data) - 1)), str(len(data)) + ", " + str(len(data)), str(len(data)) + ", 1"])))
    elif fr < 0.8:
        body = chunked_body(r, data)
        base_h.append(("Transfer-Encoding", "chunked" if not P(r, 0.25) else r.choice(TE_VALUES)))
        if P(r, 0.15):
            base_h.append(("Content-Length", r.choice([str(len(data)), "0", r.choice(NUMS)])))
    else:
        body = data
    r1 = random.Random("C09:conn:" + str(ctx["req_id"]))
    if r1.random() < 0.15:
        # the response nominates fields it carries itself (registered, end-to-end ones) as hop-by-hop
        have = {k for k, _ in base_h}
        if "Age" not in have and r1.random() < 0.5:
            base_h.append(("Age", "7"))
        if "Expires" not in have and r1.random() < 0.5:
            base_h.append(("Expires", http_date(time.time() + 3600)))
        mine = [k for k, _ in base_h if k not in ("X-Verif-Rid",)]
        if mine:
            base_h.insert(r1.randrange(len(base_h) + 1), ("Connection", ", ".join(r1.sample(mine, r1.randrange(1, min(3, len(mine)) + 1)))))
    lines = gen_headers(r, ctx, base_h, True)
    end = r.choice(["\n", "", "\r", "\r\n\r\n"]) if P(r, 0.07) else "\r\n"
    msg = (line + "".join(lines) + end).encode("latin1", "replace") + body
    pre = b""
    if P(r, 0.12):
        for _ in range(r.choice([1, 2, 5, 40])):
            pre += r.choice([b"HTTP/1.1 100 Continue\r\n\r\n", b"HTTP/1.1 103 Early Hints\r\nLink: </x>; rel=preload\r\n\r\n", b"HTTP/1.1 102 Processing\r\n\r\n", b"HTTP/1.1 101 Switching Protocols\r\nUpgrade: websocket\r\nConnection: Upgrade\r\n\r\n",
                             b"HTTP/1.1 100 Continue\r\n" + b"X-Pad: " + b"p" * 20000 + b"\r\n\r\n", b"HTTP/1.1 199 \r\n\r\n", b"HTTP/1.1 100\r\n\r\n"])
    out = pre + msg
    if P(r, 0.08):
        out += r.choice([b"HTTP/1.1 200 OK\r\nContent-Length: 3\r\n\r\nabc", b"garbage after the message", b"\r\n" * 50, b"\x00" * 100])
    if P(r, 0.2):
        out = byte_mutate(r, out)
    if P(r, 0.12) and len(out) > 1:
        out = out[:r.randrange(1, len(out))]
    return out


def gen_case(seed, n):
    r = random.Random(f"C09:{seed}:{n}")
    c = {"n": n, "seed": seed}
    c["side"] = r.choice(["client", "origin", "origin", "both"])
    c["gseed"] = r.randrange(1 << 62)
    c["nsplits"] = r.choice([0, 0, 0, 1, 3, 20])
    c["delay"] = r.choice([0, 0, 0.001, 0.003])
    c["refetch"] = r.random() < 0.4
    c["client_req"] = r.choice(["GET", "GET", "GET", "HEAD", "RANGE", "COND", "POST"])
    c["abort_kind"] = r.choice(["close", "close", "rst"])
    return c


def run(a, res):
    table = {}
    sent = {}
    lock = threading.Lock()

    def handler(req):
        path = req.target
        if "://" in path:
            path = "/" + path.split("://", 1)[1].partition("/")[2]
        key = "/".join(path.split("/")[:4])
        c = table.get(key)
        if c is None or c["side"] == "client" or req.req_id is None or not req.req_id.endswith(("o", "o2")):
            if req.method == "CONNECT":
                return Resp(200, [], length=0)
            return Resp(200, [("Cache-Control", "max-age=60")], length=50)
        ctx = dict(c["_ctx"], req_id=req.req_id)
        nth = len(sent.get(key, []))
        raw = gen_response_stream(random.Random(f"{c['gseed']}:rsp:{nth}"), ctx, req.method)
        with lock:
            sent.setdefault(key, []).append(len(raw))
        rr = random.Random(c["gseed"] ^ 0x5bd1)
        resp = Resp(raw=raw)
        if c["nsplits"] and len(raw) > 1:
            resp.splits = sorted({rr.randrange(1, len(raw)) for _ in range(c["nsplits"])})
            resp.delay = c["delay"]
        if rr.random() < 0.15:
            resp.abort_at = len(raw)
            resp.abort_kind = c["abort_kind"]
        res.count("hostile_responses_sent")
        return resp

    if a.replay_data and "case" in a.replay_data:
        all_cases = [gen_case(a.replay_data.get("seed", a.seed), a.replay_data["case"])]
    elif a.replay_data and "batch" in a.replay_data:
        s = a.replay_data.get("seed", a.seed)
        all_cases = [gen_case(s, n) for n in range(a.replay_data["batch"] * BATCH, (a.replay_data["batch"] + 1) * BATCH)]
    else:
        all_cases = [gen_case(a.seed, n) for n in range(a.cases)]

    def run_with(pf, cases, rhp="on"):
        conf = (f"cache_mem 32 MB\nmaximum_object_size_in_memory 1 MB\nrequest_header_max_size 16 KB\nreply_header_max_size 16 KB\n"
                "dns_timeout 1 seconds\nconnect_timeout 2 seconds\nclient_request_buffer_max_size 256 KB\nrange_offset_limit 1 MB\n"
                f"pipeline_prefetch {pf}\nrelaxed_header_parser {rhp}\n" + ("http_upgrade_request_protocols OTHER allow all\n" if os.environ.get("C09_UPGRADE", "1") == "1" else ""))
        lab = Lab(a, res, handler=handler, conf=conf, debug=os.environ.get("VERIF_SQUID_DEBUG", "ALL,1"))
        lab.crash_is_violation = True
        sq = lab.sq
        stats_lock = threading.Lock()

        def hostile_client(data, splits, delay, wait=5.0, idle=0.3):
            """send the bytes; read until EOF, or until squid has been silent for `idle` s after its first bytes / for 2 s
            without any; then half-close (squid drops half-closed clients, so not earlier) and wait for EOF.
            returns (nbytes received, ended?, first bytes)"""
            try:
                conn = Conn(sq.port, timeout=5)
            except OSError:
                return -1, False, b""
            conn.send(data, splits, delay)
            t0 = time.time()
            while not conn.eof and time.time() - t0 < wait:
                before = len(conn.raw_in)
                conn._fill(idle if before else 1.5)
                if len(conn.raw_in) == before and not conn.eof:
                    break
            if not conn.eof:
                conn.shutdown_wr()
                conn.wait_eof(wait)
            got = conn.raw_in
            ended = conn.eof
            if not ended:
                conn.rst()
            else:
                conn.close()
            return len(got), ended, got[:16]

        def one(c):
            key = f"/c09/{c['seed']}/{c['n']}"
            ctx = {"hostport": f"127.0.0.1:{lab.org.port}", "port": lab.org.port, "sqport": sq.port, "path": key, "req_id": f"{c['seed']}.{c['n']}.c"}
            c["_ctx"] = ctx
            table[key] = c
            r = random.Random(c["gseed"])
            outcomes = []
            if c["side"] in ("client", "both"):
                if c["side"] == "both":
                    ctx = dict(ctx, req_id=f"{c['seed']}.{c['n']}.o")     # the origin answers this one with a hostile stream, too
                data = gen_request_stream(r, ctx)
                pts = sorted({r.randrange(1, len(data)) for _ in range(c["nsplits"])}) if len(data) > 1 else []
                delay = c["delay"]
                if r.random() < 0.4:
                    # a read boundary exactly between a request head and what follows it (its body or the next request)
                    i = data.find(b"\r\n\r\n")
                    if 0 < i + 4 < len(data):
                        pts = sorted(set(pts) | {i + 4})
                        delay = max(delay, 0.02)
                n, ended, head = hostile_client(data, pts, delay)
                res.count("hostile_request_streams")
                res.count("hostile_request_bytes", len(data))
                outcomes.append(("client", "ended" if ended else "open", head[9:12].decode("latin1") if head.startswith(b"HTTP/") else ("silent" if n == 0 else "other")))
            if c["side"] == "origin":
                for which in (["o", "o2"] if c["refetch"] else ["o"]):
                    rid = f"{c['seed']}.{c['n']}.{which}"
                    hs = [("Connection", "close")]
                    m, body = "GET", None
                    if c["client_req"] == "HEAD":
                        m = "HEAD"
                    elif c["client_req"] == "RANGE":
                        hs.append(("Range", r.choice(["bytes=0-0", "bytes=5-", "bytes=-7", "bytes=0-0,5-9", "bytes=100-200,0-5", "bytes=70000-"])))
                    elif c["client_req"] == "COND":
                        hs.append(r.choice([("If-None-Match", '"e1"'), ("If-Modified-Since", http_date(time.time() - 3600)), ("If-None-Match", "*"), ("If-Range", '"e0"')]))
                        if r.random() < 0.3:
                            hs.append(("Range", "bytes=0-9"))
                    elif c["client_req"] == "POST":
                        m, body = "POST", b"x" * 100
                    if r.random() < 0.2:
                        hs.append(("Accept-Encoding", r.choice(["gzip", "identity", "*"])))
                    n, ended, head = hostile_client(request_bytes(m, lab.url(key), hs, body, "HTTP/1.1", rid), [], 0)
                    outcomes.append(("origin", "ended" if ended else "open", head[9:12].decode("latin1") if head.startswith(b"HTTP/") else ("silent" if n == 0 else "other")))
            for o in outcomes:
                res.count(f"conn_{o[0]}_{o[1]}")
                if o[1] == "open":
                    res.count("connections_open_after_wait")
            res.feature(c["side"], c["client_req"] if c["side"] == "origin" else None, min(c["nsplits"], 3), tuple(outcomes))

        def probe(tag):
            rid = f"{a.seed}.probe.{tag}.p"
            for attempt in range(2):
                try:
                    m = lab.fetch("GET", f"/c09probe/{a.seed}/{tag}/{attempt}", req_id=rid + str(attempt), timeout=15)
                    if m.start is not None and m.status == 200 and m.complete and lab.at_origin(rid + str(attempt)):
                        return True
                except OSError:
                    pass
                time.sleep(0.5)
            return False

        try:
            if not probe(f"start{pf}{rhp}"):
                raise RuntimeError("initial health probe failed: " + sq.tail_log())
            with ThreadPoolExecutor(8) as ex:
                for b0 in range(0, len(cases), BATCH):
                    batch = cases[b0:b0 + BATCH]
                    bno = batch[0]["n"] // BATCH
                    wit = {"seed": batch[0]["seed"], "batch": bno} if len(batch) > 1 else {"seed": batch[0]["seed"], "case": batch[0]["n"]}
                    for c in batch:
                        res.case({k: v for k, v in c.items() if not k.startswith("_")} if c["n"] % 211 == 0 else None)
                    list(ex.map(one, batch))
                    res.count("batches")
                    healthy = lab.check_health(wit)
                    if sq.alive() and not probe(f"b{bno}"):
                        healthy = False
                        res.violation("health-probe-failed", f"an ordinary GET through squid failed twice after batch {bno} (cases {batch[0]['n']}..{batch[-1]['n']}) although the process is alive: {sq.tail_log(600)}", wit)
                    elif sq.alive():
                        res.count("health_probes_ok")
                    if not sq.alive():
                        res.count("squid_restarts")
                        sq.stop()
                        sq.start(init=False)
                        if not probe(f"r{bno}"):
                            raise RuntimeError("squid does not serve after a restart: " + sq.tail_log())
        finally:
            fwd = {q.req_id for q in lab.org.requests if q.req_id and q.req_id.endswith((".c", ".o")) and q.req_id.split(".")[-2].isdigit()}
            res.count("hostile_request_streams_with_a_forwarded_request", len({x for x in fwd if x.endswith(".c")}) + len({x for x in fwd if x.endswith(".o") and table.get("/c09/%s/%s" % tuple(x.split(".")[:2]), {}).get("side") == "both"}))
            lab.finish()

    # batches alternate between a squid that handles pipelined requests one at a time and one that reads ahead
    # (pipeline_prefetch 3): hostile streams are full of pipelined requests and interim responses
    for pf, par, rhp in ((0, 0, "on"), (3, 1, "on"), (0, 2, "off"), (3, 3, "off")):
        mine = [c for c in all_cases if (c["n"] // BATCH) % 4 == par]
        if mine:
            res.count(f"cases_with_pipeline_prefetch_{pf}_relaxed_header_parser_{rhp}", len(mine))
            run_with(pf, mine, rhp)
    cases = all_cases
    if not a.replay_data:
        cn = res.counters
        if cn.get("hostile_request_streams_with_a_forwarded_request", 0) < cn.get("hostile_request_streams", 0) // 10:
            res.inconclusive.append("fewer than 10% of the hostile request streams contained a request that squid forwarded (mutations too destructive)")
        total_conns = sum(v for k, v in cn.items() if k.startswith("conn_"))
        if cn.get("connections_open_after_wait", 0) > total_conns * 0.05:
            res.inconclusive.append(f"{cn.get('connections_open_after_wait')} of {total_conns} hostile connections neither got a response nor were closed within the wait")
        if cn.get("hostile_responses_sent", 0) < len(cases) // 4:
            res.inconclusive.append("too few hostile origin responses were delivered to squid")
        if cn.get("health_probes_ok", 0) < 1:
            res.inconclusive.append("no health probe succeeded")


if __name__ == "__main__":
    base.main_wrapper("C09", run)
