#!/usr/bin/python3
"""C45 http_access decisions are enforced end to end (DESIGN 5.1).

One squid instance per generated access configuration (acl src/dst/dstdomain/port/method + negations,
http_access allow/deny lines, implicit default = opposite of the last line).  Clients bind 127.0.0.2-9,
URL hosts are hosts_file names that map to 127.0.0.10-19 where one origin stub listens on the same three
ports on every address.  A python first-match reference decides allow/deny for each request; the
origin/client logs are judged against it."""
import ipaddress, os, random, socket, threading, time
from concurrent.futures import ThreadPoolExecutor
from lab import base, httpref
from lab.squidproc import Squid, health_events
from lab.origin import Origin, Resp
from lab.client import Conn, request_bytes
from lab.x_start import start_retry

SRCS = ["127.0.0.%d" % i for i in range(2, 10)]
# name -> ip; names chosen so that sloppy suffix matching would be visible (xex.test vs .ex.test, ex.test.evil.test)
HOSTS = [("a.ex.test", "127.0.0.10"), ("b.ex.test", "127.0.0.11"), ("w.b.ex.test", "127.0.0.12"), ("ex.test", "127.0.0.13"),
         ("c.other.test", "127.0.0.14"), ("other.test", "127.0.0.15"), ("deep.x.c.other.test", "127.0.0.16"),
         ("solo", "127.0.0.17"), ("ex.test.evil.test", "127.0.0.18"), ("xex.test", "127.0.0.19")]
HOST_IP = dict(HOSTS)
ORIGIN_IPS = [ip for _, ip in HOSTS]
METHODS = ["GET", "GET", "GET", "HEAD", "POST", "PUT", "DELETE", "OPTIONS", "PATCH", "CONNECT", "XVERIF"]
DOMAIN_VALUES = [".ex.test", ".ex.test", "ex.test", "a.ex.test", ".b.ex.test", "b.ex.test", "w.b.ex.test", ".other.test", "other.test", "c.other.test",
                 ".c.other.test", ".x.c.other.test", "solo", ".test", ".evil.test", "xex.test", "nomatch.test", ".solo", "EX.Test", ".Other.TEST"]


# ------------------------------------------------------------------------------------------------ generator
def ip_i(s):
    return int(ipaddress.IPv4Address(s))


def gen_ip_value(r, lo, hi):
    """one src/dst ACL value over 127.0.0.<lo..hi>; returns (text, first, last) inclusive integer range"""
    k = r.random()
    base_ = ip_i("127.0.0.0")
    if k < 0.35:
        a = r.randrange(lo, hi + 1)
        txt = "127.0.0.%d" % a
        if r.random() < 0.3:
            txt += "/32"
        return txt, base_ + a, base_ + a
    if k < 0.65:
        a = r.randrange(lo, hi + 1)
        b = r.randrange(a, min(hi, a + 5) + 1)
        return "127.0.0.%d-127.0.0.%d" % (a, b), base_ + a, base_ + b
    if k < 0.93:
        bits = r.choice([31, 30, 30, 29, 28])
        size = 1 << (32 - bits)
        a = (r.randrange(lo, hi + 1) // size) * size
        if r.random() < 0.25:
            mask = str(ipaddress.IPv4Address((0xffffffff << (32 - bits)) & 0xffffffff))
            return "127.0.0.%d/%s" % (a, mask), base_ + a, base_ + a + size - 1
        return "127.0.0.%d/%d" % (a, bits), base_ + a, base_ + a + size - 1
    if k < 0.97:
        return "127.0.0.0/8", ip_i("127.0.0.0"), ip_i("127.255.255.255")
    return "10.1.2.0/24", ip_i("10.1.2.0"), ip_i("10.1.2.255")


def gen_config(r, ports):
    acls = []   # dict(name, type, lines=[[value text...]], plus parsed data)
    ntypes = ["src", "src", "dst", "dstdomain", "dstdomain", "port", "method", "method"]
    for i in range(r.randrange(3, 8)):
        t = r.choice(ntypes)
        a = {"name": "x%d%s" % (i, t[:2]), "type": t, "lines": [], "ranges": [], "domains": [], "ports": [], "methods": []}
        for _ in range(r.choice([1, 1, 1, 2])):   # several acl lines with the same name accumulate values
            vals = []
            for _ in range(r.choice([1, 1, 2, 3])):
                if t == "src":
                    txt, lo, hi = gen_ip_value(r, 1, 10)
                    a["ranges"].append((lo, hi)); vals.append(txt)
                elif t == "dst":
                    txt, lo, hi = gen_ip_value(r, 9, 20)
                    a["ranges"].append((lo, hi)); vals.append(txt)
                elif t == "dstdomain":
                    v = r.choice(DOMAIN_VALUES)
                    a["domains"].append(v.lower()); vals.append(v)
                elif t == "port":
                    k = r.random()
                    if k < 0.6:
                        p = r.choice(ports); a["ports"].append((p, p)); vals.append(str(p))
                    elif k < 0.8:
                        p = r.choice(ports); lo = max(1, p - r.randrange(0, 3000)); hi = min(65535, p + r.randrange(0, 3000))
                        a["ports"].append((lo, hi)); vals.append("%d-%d" % (lo, hi))
                    elif k < 0.9:
                        p = r.choice(ports)   # range ending just below / starting just above a used port
                        if r.random() < 0.5:
                            a["ports"].append((1, p - 1)); vals.append("1-%d" % (p - 1))
                        else:
                            a["ports"].append((p + 1, 65535)); vals.append("%d-65535" % (p + 1))
                    else:
                        p = r.choice([80, 443, 21]); a["ports"].append((p, p)); vals.append(str(p))
                else:
                    m = r.choice(["GET", "HEAD", "POST", "PUT", "DELETE", "OPTIONS", "PATCH", "CONNECT", "XVERIF", "TRACE"])
                    a["methods"].append(m); vals.append(m)
            a["lines"].append(vals)
        acls.append(a)
    rules = []
    for _ in range(r.randrange(1, 7)):
        lits = []
        for _ in range(r.choice([1, 1, 2, 2, 3])):
            k = r.random()
            name = "all" if k < 0.06 else r.choice(acls)["name"]
            lits.append([r.random() < 0.35, name])   # [negated, acl name]
        rules.append([r.choice(["allow", "deny"]), lits])
    tail = r.choice(["none", "none", "allow", "deny"])
    if tail != "none":
        rules.append([tail, [[False, "all"]]])
    return acls, rules


def gen_requests(r, ports, nreq):
    reqs = []
    for i in range(nreq):
        name, ip = r.choice(HOSTS + HOSTS[-2:] * 2)   # the look-alike names (xex.test, ex.test.evil.test) more often
        k = r.random()
        if k < 0.10:
            host, literal = ip, True
        elif k < 0.22:
            host, literal = "".join(ch.upper() if r.random() < 0.5 else ch for ch in name), False
        else:
            host, literal = name, False
        reqs.append({"i": i, "src": r.choice(SRCS), "name": name, "ip": ip, "host": host, "literal": literal,
                     "port": r.randrange(len(ports)), "method": r.choice(METHODS), "body": r.choice([0, 1, 300])})
    return reqs


def gen_case(seed, n, nreq):
    r = random.Random(f"C45:{seed}:{n}")
    c = {"n": n, "seed": seed, "cfg_seed": r.randrange(1 << 30), "req_seed": r.randrange(1 << 30), "nreq": nreq}
    return c


# ------------------------------------------------------------------------------------------------ reference
def domain_match(host, value):
    """documented dstdomain semantics: '.d' matches d and every subdomain of d; 'd' matches exactly d; case-insensitive"""
    host = host.lower()
    value = value.lower()
    if value.startswith("."):
        return host == value[1:] or host.endswith(value)
    return host == value


def acl_eval(a, q, ports):
    """True/False, or None when the statement's reference cannot settle it (grey)"""
    t = a["type"]
    if t == "src":
        x = ip_i(q["src"])
        return any(lo <= x <= hi for lo, hi in a["ranges"])
    if t == "dst":
        x = ip_i(q["ip"])
        return any(lo <= x <= hi for lo, hi in a["ranges"])
    if t == "dstdomain":
        if q["literal"]:
            return None    # IP-literal URL: squid matches a reverse-resolved name (or "none"); not part of the statement
        return any(domain_match(q["name"], v) for v in a["domains"])
    if t == "port":
        p = ports[q["port"]]
        return any(lo <= p <= hi for lo, hi in a["ports"])
    if t == "method":
        return q["method"] in a["methods"]
    raise AssertionError(t)


def reference(acls, rules, q, ports):
    """first-match evaluation. returns (decision 'allow'|'deny'|None(grey), index of the deciding rule or -1 for the implicit default)"""
    byname = {a["name"]: a for a in acls}
    for idx, (action, lits) in enumerate(rules):
        val = True
        for neg, name in lits:
            v = True if name == "all" else acl_eval(byname[name], q, ports)
            if v is None:
                if val is True:
                    val = None
                continue
            if neg:
                v = not v
            if not v:
                val = False
                break
        if val is True:
            return action, idx
        if val is None:
            return None, idx
    # documented default: the opposite of the last http_access line
    return ("deny" if rules[-1][0] == "allow" else "allow"), -1


def conf_text(acls, rules, hosts_path):
    out = [f"hosts_file {hosts_path}", "cache deny all"]
    for a in acls:
        for vals in a["lines"]:
            out.append("acl %s %s %s" % (a["name"], a["type"], " ".join(vals)))
    acc = []
    for action, lits in rules:
        acc.append("http_access %s %s" % (action, " ".join(("!" if neg else "") + name for neg, name in lits)))
    return "\n".join(out) + "\n", "\n".join(acc)


# ------------------------------------------------------------------------------------------------ lab pieces
def shared_port_origin(handler, nports):
    """origin stub listening on the SAME nports port numbers on every 127.0.0.10-19 address"""
    org = Origin(handler, hosts=("127.0.0.1",))
    ports = []
    tries = 0
    while len(ports) < nports:
        tries += 1
        if tries > 200:
            raise RuntimeError("cannot find a port free on all origin addresses")
        socks = []
        try:
            s0 = socket.socket(socket.AF_INET, socket.SOCK_STREAM)
            s0.setsockopt(socket.SOL_SOCKET, socket.SO_REUSEADDR, 1)
            s0.bind((ORIGIN_IPS[0], 0))
            p = s0.getsockname()[1]
            socks.append(s0)
            if p < 3100 or p > 62000 or p in ports:
                raise OSError("unsuitable")
            for ip in ORIGIN_IPS[1:]:
                s = socket.socket(socket.AF_INET, socket.SOCK_STREAM)
                s.setsockopt(socket.SOL_SOCKET, socket.SO_REUSEADDR, 1)
                socks.append(s)
                s.bind((ip, p))
        except OSError:
            for s in socks:
                s.close()
            continue
        for s in socks:
            s.listen(128)
            org.listeners.append(s)
            t = threading.Thread(target=org._accept, args=(s,), daemon=True)
            t.start()
            org.threads.append(t)
        ports.append(p)
    return org, ports


def run(a, res):
    nreq = 60 if a.tier == "thorough" else 30
    rids = {}
    lock = threading.Lock()

    def handler(req):
        resp = Resp(200, [("Cache-Control", "no-store")], length=40)
        with lock:
            rids[resp.rid] = req
        return resp

    org, ports = shared_port_origin(handler, 3)
    hosts_path = os.path.join(a.work, "hosts")
    with open(hosts_path, "w") as f:
        f.write("# verif hosts\n" + "".join("%s %s\n" % (ip, name) for name, ip in HOSTS))
    os.chmod(hosts_path, 0o644)
    squids = []
    slock = threading.Lock()

    def one_request(sq, c, q, decision, rule_idx, cfgdesc):
        wit = {"seed": c["seed"], "case": c["n"]}
        res.case({"case": c["n"], "req": q, "expect": decision} if (c["n"] % 5 == 0 and q["i"] == 0) else None)
        rid_ = f"{c['seed']}.{c['n']}.{q['i']}"
        port = ports[q["port"]]
        hostport = f"{q['host']}:{port}"
        path = f"/c45/{c['seed']}/{c['n']}/{q['i']}"
        body = None
        if q["method"] in ("POST", "PUT", "PATCH"):
            body = b"b" * q["body"]
        try:
            conn = Conn(sq.port, src=q["src"], timeout=20)
        except OSError:
            res.count("connect_failed")
            return
        tunnel_status = None
        if q["method"] == "CONNECT":
            conn.send(f"CONNECT {hostport} HTTP/1.1\r\nHost: {hostport}\r\nX-Verif-Req: {rid_}.connect\r\n\r\n".encode())
            m = conn.read_response("CONNECT", timeout=20)
            tunnel_status = m.status
            if m.start is not None and not m.error and m.status == 200:
                conn.send(request_bytes("GET", path, [("Connection", "close")], None, req_id=rid_, host=hostport))
                m2 = conn.read_response("GET", timeout=20)
                m2.via_tunnel = True
                m = m2
        else:
            conn.send(request_bytes(q["method"], f"http://{hostport}{path}", [("Connection", "close")], body, req_id=rid_))
            m = conn.read_response(q["method"], timeout=20)
        conn.close()
        ups = org.seen(rid_)
        desc = f"config:\n{cfgdesc}\nrequest: src={q['src']} {q['method']} host={q['host']} (hosts_file -> {q['ip']}) port={port}; reference: {decision} by " + \
               (f"http_access line #{rule_idx + 1}" if rule_idx >= 0 else "the implicit default (opposite of the last line)")
        if m.timed_out or (m.start is None and not m.error):
            res.count("no_response")
            if ups and decision == "deny":
                res.violation("denied-request-forwarded", desc + "; the origin received the request", wit)
            return
        if m.error:
            res.violation("client-bytes-invalid-http", m.error, wit)
            return
        status = tunnel_status if (q["method"] == "CONNECT" and tunnel_status != 200) else m.status
        if decision is None:
            res.grey("dstdomain-on-ip-literal-host")
            res.count("grey_forwarded" if ups else "grey_not_forwarded")
            return
        feat = [decision, q["method"] if q["method"] in ("CONNECT", "GET", "XVERIF") else "other", q["literal"], q["host"] != q["name"] and not q["literal"]]
        if decision == "allow":
            rid = m.header("X-Verif-Rid")
            with lock:
                served = rids.get(rid) if rid else None
            if not ups:
                res.violation("allowed-request-not-forwarded", desc + f"; observed: status {status}, X-Squid-Error={m.header('X-Squid-Error')}, origin never saw the request", wit)
                return
            if len(ups) > 1:
                res.note("allowed request seen %d times at the origin" % len(ups))
            up = ups[0]
            if up.host_ip != q["ip"] or up.port != port:
                res.violation("forwarded-to-wrong-destination", desc + f"; arrived at {up.host_ip}:{up.port}", wit)
                return
            exp_method = "GET" if q["method"] == "CONNECT" else q["method"]
            if up.method != exp_method:
                res.violation("forwarded-method-changed", desc + f"; origin saw method {up.method}", wit)
                return
            if status != 200 or served is None or served.req_id != rid_:
                res.violation("allowed-request-wrong-response", desc + f"; client got status {status} rid {rid} (minted for {served.req_id if served else None})", wit)
                return
            res.count("allowed_forwarded")
            res.feature(*feat)
        else:
            if ups:
                res.violation("denied-request-forwarded", desc + f"; observed: origin received it ({ups[0].method} {ups[0].target} on {ups[0].host_ip}:{ups[0].port}), client status {status}", wit)
                return
            if m.header("X-Verif-Rid"):
                res.violation("denied-request-got-origin-response", desc + f"; client got origin response {m.header('X-Verif-Rid')}", wit)
                return
            xerr = m.header("X-Squid-Error", "")
            if status != 403 or not xerr.startswith("ERR_ACCESS_DENIED"):
                res.violation("denied-request-wrong-error", desc + f"; expected 403 ERR_ACCESS_DENIED, observed status {status} X-Squid-Error={xerr!r}", wit)
                return
            res.count("denied_403")
            res.feature(*feat)

    def one(c):
        r = random.Random(c["cfg_seed"])
        acls, rules = gen_config(r, ports)
        reqs = gen_requests(random.Random(c["req_seed"]), ports, c["nreq"])
        conf, acc = conf_text(acls, rules, hosts_path)
        cfgdesc = "\n".join(l for l in (conf + acc).splitlines() if l.startswith(("acl", "http_access")))
        try:
            sq = start_retry(lambda: Squid(a.work, conf=conf, http_access=acc))
        except RuntimeError as e:
            # a generated configuration the real squid refuses to load is a generator problem, not a verdict
            res.harness_failure.append(f"case {c['n']}: squid did not start with generated config:\n{cfgdesc}\n{str(e)[-1200:]}")
            return
        with slock:
            squids.append(sq)
        try:
            decisions = [reference(acls, rules, q, ports) for q in reqs]
            kinds = set(d for d, _ in decisions)
            res.feature("cfg", tuple(sorted(set(a_["type"] for a_ in acls))), len(rules), tuple(sorted(str(k) for k in kinds)))
            with ThreadPoolExecutor(4) as ex:
                list(ex.map(lambda qd: one_request(sq, c, qd[0], qd[1][0], qd[1][1], cfgdesc), zip(reqs, decisions)))
            # late arrivals: a denied request must not show up at the origin afterwards either
            time.sleep(0.15)
            for q, (d, idx) in zip(reqs, decisions):
                if d == "deny" and org.seen(f"{c['seed']}.{c['n']}.{q['i']}"):
                    res.violation("denied-request-forwarded", f"config:\n{cfgdesc}\nrequest {q} reached the origin although the reference denies it (rule {idx})", {"seed": c["seed"], "case": c["n"]})
            for w in sq.log_text().splitlines():
                if "WARNING: Merging overlapping" in w:
                    res.count("acl_values_merged")
                elif "WARNING: Ignoring" in w:
                    res.count("acl_values_subsumed")
            ok = health_events(sq, res, judge=True, witness={"seed": c["seed"], "case": c["n"]})
            if not sq.alive():
                res.violation("crash:squid-exited", "squid exited during the workload: " + sq.tail_log(), {"seed": c["seed"], "case": c["n"]})
        finally:
            sq.stop()
            health_events(sq, res, judge=True, witness={"seed": c["seed"], "case": c["n"]})

    if a.replay_data and "case" in a.replay_data:
        cases = [gen_case(a.replay_data.get("seed", a.seed), a.replay_data["case"], nreq)]
    else:
        cases = [gen_case(a.seed, n, nreq) for n in range(a.cases)]
    try:
        with ThreadPoolExecutor(2) as ex:
            list(ex.map(one, cases))
    finally:
        for sq in squids:
            sq.stop()
        org.stop()
    res.count("origin_requests", org.count())
    res.count("configs", len(cases))
    if not a.replay_data:
        if res.counters.get("allowed_forwarded", 0) < 3 * len(cases) or res.counters.get("denied_403", 0) < 3 * len(cases):
            res.inconclusive.append("too few allowed (%d) or denied (%d) requests observed" % (res.counters.get("allowed_forwarded", 0), res.counters.get("denied_403", 0)))


if __name__ == "__main__":
    base.main_wrapper("C45", run)
