#!/usr/bin/python3
"""C20 Successful unsafe requests invalidate cached responses (DESIGN 5.1).

Per case fresh URLs U (request target), T and T2 (same host, may be named by Location / Content-Location) and O
(other host 127.0.0.2). Steps: GET each twice (second GET must be a hit: proof that the response was cached, else the
URL is not judged); send the unsafe (or, as control, a safe / no) request to U, the origin answering with the case's
status and Location/Content-Location forms; GET every URL again.

Oracle: after a 2xx/3xx response to POST/PUT/DELETE/PATCH/extension method, a follow-up GET must not be answered with
a response cached before that request unless the origin was contacted for it -- for U and for every same-host URL
named in Location/Content-Location. Nothing is demanded for other-host URLs, after error statuses or safe methods
(those hits are the evidence that caching worked). Sub-workload `vary`: U has variants (Vary: X-Sel); all variants
cached before the unsafe request fall under the same rule."""
import random, time
from lab import base
from lab.lab import Lab, run_cases, Resp
from lab.x_cachelab import path_of, body_rid, RidBook, liveness_conf

UNSAFE = ["POST", "POST", "PUT", "DELETE", "PATCH", "FOOBAR", "MKCOL"]
SAFE = ["OPTIONS", None]
STATUS = [200, 200, 201, 204, 302, 303, 404, 500]
FORMS = ["abs-path", "rel-segment", "absolute", "dot-segments", "network-path", "other-host"]


def gen_case(seed, n):
    r = random.Random(f"C20:{seed}:{n}")
    c = {"n": n, "seed": seed}
    c["method"] = r.choice(UNSAFE) if r.random() < 0.85 else r.choice(SAFE)
    c["status"] = r.choice(STATUS)
    named = []
    for hdr in r.sample(["Location", "Content-Location"], r.choice([0, 1, 1, 1, 2])):
        form = r.choice(["abs-path", "abs-path", "rel-segment", "rel-segment", "absolute", "absolute", "dot-segments", "network-path", "other-host", "other-host"])
        named.append([hdr, form, "o" if form == "other-host" else ("t" if not named else "t2")])
    c["named"] = named
    c["vary"] = r.random() < 0.15
    c["vary_mid"] = r.random() < 0.6       # in vary cases: fetch another variant first after the unsafe request
    c["etag"] = r.random() < 0.4
    c["reval304"] = r.random() < 0.5
    c["body"] = r.choice([0, 10, 3000])
    c["hdr_case"] = r.random() < 0.3
    return c


def run(a, res):
    table = {}
    book = RidBook()

    def handler(req):
        ent = table.get(path_of(req))
        if ent is None:
            return Resp(404, length=5)
        c, role, lab_ = ent
        if req.method in ("GET", "HEAD"):
            hs = [("Cache-Control", "max-age=3600")]
            if c["etag"]:
                hs.append(("ETag", '"e%s"' % role))
            if c["vary"] and role == "u":
                hs.append(("Vary", "X-Sel"))
            cond = any(h.lower() in ("if-none-match", "if-modified-since") for h, _ in req.headers)
            if cond and c["reval304"]:
                return book.add(Resp(304, hs, body=b"", framing="none"), req_id=req.req_id, t=base.tick())
            return book.add(Resp(200, hs, length=60), req_id=req.req_id, t=base.tick())
        # the unsafe / control request
        hs = []
        base_path = f"/c20/{c['seed']}/{c['n']}"
        for hdr, form, tgt in c["named"]:
            if form == "abs-path":
                v = f"{base_path}/{tgt}"
            elif form == "rel-segment":
                v = tgt
            elif form == "absolute":
                v = f"http://127.0.0.1:{lab_.org.ports[0]}{base_path}/{tgt}"
            elif form == "dot-segments":
                v = f"../{c['n']}/{tgt}" if c["n"] % 2 else f"./{tgt}"
            elif form == "network-path":
                v = f"//127.0.0.1:{lab_.org.ports[0]}{base_path}/{tgt}"
            else:
                v = f"http://127.0.0.2:{lab_.org.ports[1]}{base_path}/o"
            hs.append((hdr.upper() if c["hdr_case"] else hdr, v))
        st = c["status"]
        return book.add(Resp(st, hs, length=0 if st == 204 else 20, framing="cl"), req_id=req.req_id, t=base.tick())

    lab = Lab(a, res, handler=handler, conf="cache_mem 32 MB\n" + liveness_conf(), origin_hosts=("127.0.0.1", "127.0.0.2"))

    def one(c):
        wit = {"seed": c["seed"], "case": c["n"]}
        bp = f"/c20/{c['seed']}/{c['n']}"
        for role in ("u", "t", "t2", "o"):
            table[f"{bp}/{role}"] = (c, role, lab)
        urls = {"u": lab.url(bp + "/u"), "t": lab.url(bp + "/t"), "t2": lab.url(bp + "/t2"),
                "o": lab.url(bp + "/o", port=lab.org.ports[1], host="127.0.0.2")}
        seq = [0]

        def get(role, sel=None):
            seq[0] += 1
            rid = f"{c['seed']}.{c['n']}.{seq[0]}"
            hs = [("X-Sel", sel)] if sel is not None else []
            m = lab.fetch("GET", None, hs, req_id=rid, url=urls[role])
            ups = lab.at_origin(rid)
            if m.start is None or m.error:
                if m.error:
                    res.violation("client-bytes-invalid-http", m.error, wit)
                return None, ups
            return body_rid(m.body), ups

        # ---- phase 1: cache and confirm
        slots = [("u", "a"), ("u", "b")] if c["vary"] else [("u", None)]
        slots += [("t", None), ("t2", None), ("o", None)]
        cached = {}
        for role, sel in slots:
            r1, _ = get(role, sel)
            r2, ups2 = get(role, sel)
            if r1 is not None and r1 == r2 and not ups2:
                cached[(role, sel)] = r1
                res.count("cached_confirmed")
            else:
                res.count("not_cached")
        old = set(cached.values())
        # ---- phase 2: the unsafe (or control) request
        inval = False
        if c["method"] is not None:
            seq[0] += 1
            rid = f"{c['seed']}.{c['n']}.{seq[0]}"
            body = None
            if c["method"] in ("POST", "PUT", "PATCH"):
                body = b"x" * c["body"]
            m = lab.fetch(c["method"], None, [], body=body, req_id=rid, url=urls["u"])
            if m.start is None or m.error or not m.complete:
                res.count("unsafe_no_response")
                res.feature(c["method"], c["status"], "noresp")
                return
            if not lab.at_origin(rid) or m.header("X-Verif-Rid") is None:
                res.count("unsafe_not_forwarded_%s" % m.status)
                res.feature(c["method"], c["status"], "notfwd", m.status)
                return
            res.count("unsafe_forwarded" if c["method"] not in ("OPTIONS",) else "safe_forwarded")
            inval = c["method"] not in ("OPTIONS",) and 200 <= m.status < 400
        # ---- phase 3: follow-up GETs
        must = {}
        if inval:
            must["u"] = "target"
            for hdr, form, tgt in c["named"]:
                if form != "other-host":
                    must.setdefault(tgt, form)
        order = list(slots)
        if c["vary"] and c["vary_mid"]:
            order = [("u", "c")] + order        # a new variant first: re-creates squid's Vary marker object
        outcomes = []
        for role, sel in order:
            rid_got, ups = get(role, sel)
            if (role, sel) not in cached and sel != "c":
                continue
            if rid_got is None:
                outcomes.append((role, "noresp"))
                continue
            stale = rid_got in old
            if stale and not ups:
                if role in must:
                    why = must[role]
                    key = "cached-response-served-after-unsafe-request:" + why + (":variant" if sel is not None else "")
                    res.violation(key, f"{c['method']} {urls['u']} answered {c['status']} with {c['named']}; the following GET of role '{role}' (X-Sel={sel}) "
                                       f"was served {rid_got}, cached before the unsafe request, without contacting the origin", wit)
                    outcomes.append((role, "STALE-HIT"))
                else:
                    res.count("hits_not_requiring_invalidation")
                    outcomes.append((role, "hit"))
                    if role == "o" and any(f == "other-host" for _, f, _ in c["named"]) and inval:
                        res.count("other_host_not_invalidated")
            elif stale and ups:
                res.count("old_body_after_revalidation")
                outcomes.append((role, "revalidated"))
            else:
                outcomes.append((role, "miss"))
                if role in must:
                    res.count("invalidated_then_refetched")
                    if role != "u":
                        res.count("named_url_refetched:" + must[role])
                elif role == "o" and any(f == "other-host" for _, f, _ in c["named"]) and inval:
                    res.count("other_host_invalidated")
        res.feature(c["method"], c["status"], tuple((h, f) for h, f, _ in c["named"]), c["vary"], c["vary_mid"], tuple(outcomes))

    try:
        run_cases(a, res, gen_case, one, threads=8)
    finally:
        lab.finish()
    if not a.replay_data:
        if res.counters.get("hits_not_requiring_invalidation", 0) < max(1, a.cases // 10):
            res.inconclusive.append("too few control hits: caching did not demonstrably work")
        if res.counters.get("invalidated_then_refetched", 0) < max(1, a.cases // 10):
            res.inconclusive.append("too few invalidations observed")


if __name__ == "__main__":
    base.main_wrapper("C20", run)
