#!/usr/bin/python3
"""C46 Proxy authentication gates forwarding and never mixes identities (DESIGN 5.1).

One squid instance per case with `auth_param basic program` = the logging stub helper
(lab/helpers/linehelper.py mode basic: OK iff password == pw(user), PRNG latency, out-of-order replies,
fragmented writes but never at the channel id -- that is C47/F10).  Concurrent clients send valid / wrong /
missing / garbled / password-less Basic credentials on separate and shared connections; several requests of
the SAME user with right and wrong passwords are in flight together (the shared cached user record).
Oracle: forwarded => the request's own credentials are valid; anything else => 407 and never at the origin;
the user name squid attributes to a request (access.log %un, and %un injected upstream with
request_header_add) is the user of that request's own header."""
import base64, importlib.util, json, os, random, threading, time
from concurrent.futures import ThreadPoolExecutor
from lab import base, httpref
from lab.squidproc import Squid, health_events, chown_nobody
from lab.origin import Origin, Resp
from lab.client import Conn, request_bytes
from lab.x_start import start_retry

HELPER = "/verif/lab/helpers/linehelper.py"
_spec = importlib.util.spec_from_file_location("linehelper", HELPER)
linehelper = importlib.util.module_from_spec(_spec)
_spec.loader.exec_module(linehelper)
pw = linehelper.pw


def b64(s):
    return base64.b64encode(s.encode()).decode()


def gen_case(seed, n):
    r = random.Random(f"C46:{seed}:{n}")
    c = {"n": n, "seed": seed}
    c["concurrency"] = r.choice([0, 1, 4, 20, 20])
    c["children"] = r.choice([1, 2, 4]) if c["concurrency"] else r.choice([2, 4, 6])
    c["ttl"] = r.choice(["2 hours", "2 hours", "1 second", "5 seconds"])
    h = {"mode": "basic", "seed": r.randrange(1 << 30), "concurrent": c["concurrency"] > 0, "avoid_id_cuts": True}
    h["max_latency"] = r.choice([0.05, 0.15, 0.4])
    h["hold_prob"] = r.choice([0.0, 0.1])
    h["hold_latency"] = 0.8
    h["frag_prob"] = r.choice([0.0, 0.3])
    h["idsplit_prob"] = 0.0
    h["pause"] = [0.005, 0.02]
    h["crlf_prob"] = 0.0
    h["join_prob"] = r.choice([0.0, 0.4])
    h["reorder"] = c["concurrency"] > 0
    c["helper"] = h
    # ---- scripts: each is one client connection sending its requests one after the other
    scripts = []
    k = 0

    def req(user, kind, password=None):
        nonlocal k
        k += 1
        q = {"i": k, "user": user, "kind": kind}
        if kind == "valid":
            q["auth"] = "Basic " + b64(f"{user}:{pw(user)}")
        elif kind == "wrong":
            q["auth"] = "Basic " + b64(f"{user}:{password}")
            q["password"] = password
        elif kind == "missing":
            q["auth"] = None
        elif kind == "nopassword":
            q["auth"] = "Basic " + b64(user)              # no colon at all
        elif kind == "emptypassword":
            q["auth"] = "Basic " + b64(user + ":")
        elif kind == "garbled":
            # derived from WRONG credentials, so that no decoder leniency can make them valid
            good = b64(f"{user}:not-{pw(user)}")
            form = r.choice(["illegal", "truncated", "padding", "scheme"])
            if form == "illegal":
                p = r.randrange(len(good))
                good = good[:p] + r.choice("*!$%") + good[p:]
            elif form == "truncated":
                good = good[:r.randrange(1, 6)]
            elif form == "padding":
                good = "=" + good
            q["auth"] = ("Basic " + good) if form != "scheme" else ("Bogus " + good)
        return q

    window = r.choice([0.02, 0.1, 0.3])
    r1 = random.Random(f"C46:uq:{seed}:{n}")
    c["window"] = window
    ngroups = 14
    for g in range(ngroups):
        user = f"u{n}g{g}"
        base_t = r.uniform(0.0, 1.2)
        wrongs = ["bad-a", "bad-a", "bad-b"]
        kinds = []
        # the shared-record situations: a valid request in flight, wrong-password requests of the same user around it,
        # several of them carrying the SAME wrong password
        shape = r.choice(["v-w-w", "w-v-w", "mixed", "mixed", "all-valid", "all-wrong"])
        m = r.randrange(4, 9)
        for j in range(m):
            if shape == "all-valid":
                kd = "valid"
            elif shape == "all-wrong":
                kd = "wrong"
            elif shape == "v-w-w":
                kd = "valid" if j == 0 else r.choice(["wrong", "wrong", "valid"])
            elif shape == "w-v-w":
                kd = "wrong" if j == 0 else ("valid" if j == 1 else r.choice(["wrong", "wrong", "valid"]))
            else:
                kd = r.choice(["valid", "wrong"])
            kinds.append(kd)
        offs = sorted(r.uniform(0, window) for _ in range(m))
        for kd, off in zip(kinds, offs):
            pwd = r.choice(wrongs)
            if kd == "wrong" and r1.random() < 0.3:
                pwd = "uq-%d-%d" % (g, len(scripts))       # a wrong password that only this one request ever presents
            scripts.append({"t": base_t + off, "reqs": [req(user, kd, pwd)], "group": g})
    for j in range(16):
        user = f"u{n}m{j}"
        scripts.append({"t": r.uniform(0, 1.5), "reqs": [req(user, r.choice(["missing", "garbled", "garbled", "nopassword", "emptypassword", "valid", "wrong"]), "bad-x")], "group": None})
    # shared (keep-alive) connections carrying several identities one after the other
    for j in range(8):
        rs = []
        for _ in range(r.randrange(3, 6)):
            g = r.randrange(ngroups)
            who = r.choice([f"u{n}g{g}", f"u{n}k{j}", f"u{n}k{j}b"])
            rs.append(req(who, r.choice(["valid", "valid", "wrong", "missing", "garbled"]), r.choice(["bad-a", "bad-k"])))
        scripts.append({"t": r.uniform(0, 1.5), "reqs": rs, "group": None, "shared": True})
    # epilogue, long after the concurrent phase: one connection per group doing valid, a NEVER-before-seen wrong password, valid.
    # Strictly sequential, so this wrong password is never in flight together with another lookup of the user: accepting it
    # cannot be the shared-record race.
    for g in range(ngroups):
        user = f"u{n}g{g}"
        scripts.append({"t": 6.0 + 0.03 * g, "reqs": [req(user, "valid"), req(user, "wrong", f"late-fresh-{g}"), req(user, "valid")], "group": g, "shared": True, "epilogue": True})
    c["scripts"] = scripts
    return c


def read_jsonl(path):
    out = []
    try:
        for l in open(path, "rb").read().decode("latin1").splitlines():
            try:
                out.append(json.loads(l))
            except ValueError:
                pass
    except OSError:
        pass
    return out


def run(a, res):
    lock = threading.Lock()

    def handler(req):
        return Resp(200, [("Cache-Control", "no-store")], length=30)

    org = Origin(handler)
    squids = []

    def one(c):
        wit = {"seed": c["seed"], "case": c["n"]}
        kids, conc = c["children"], c["concurrency"]
        conf = ("cache deny all\n"
                f"auth_param basic program {HELPER} {{W}}/helper.json\n"
                f"auth_param basic children {kids} startup={kids} idle=1 concurrency={conc} queue-size=5000\n"
                "auth_param basic realm verif\n"
                f"auth_param basic credentialsttl {c['ttl']}\n"
                "acl authed proxy_auth REQUIRED\n"
                "logformat vf %{X-Verif-Req}>h %un %>Hs\n"
                "access_log stdio:{W}/access2.log vf\n"
                'request_header_add X-Verif-User "%un" all\n')

        def prepare(sq):
            hlog = f"{sq.work}/helper.log"
            open(hlog, "w").close()
            chown_nobody(hlog)
            hcfg = dict(c["helper"])
            hcfg["log"] = hlog
            json.dump(hcfg, open(f"{sq.work}/helper.json", "w"))
            os.chmod(f"{sq.work}/helper.json", 0o644)

        sq = start_retry(lambda: Squid(a.work, conf=conf, http_access="http_access allow authed\nhttp_access deny all"), prepare)
        hlog = f"{sq.work}/helper.log"
        with lock:
            squids.append(sq)
        try:
            judge_case(c, sq, hlog, wit)
            time.sleep(0.1)
            health_events(sq, res, judge=True, witness=wit)
            if not sq.alive():
                res.violation("crash:squid-exited", "squid exited during the workload: " + sq.tail_log(), wit)
        finally:
            sq.stop()
            health_events(sq, res, judge=True, witness=wit)

    def judge_case(c, sq, hlog, wit):
        t0 = time.time() + 0.2
        results = {}     # i -> (Message, t_send, t_done)

        def run_script(s):
            delay = t0 + s["t"] - time.time()
            if delay > 0:
                time.sleep(delay)
            conn = None
            for q in s["reqs"]:
                rid_ = f"{c['seed']}.{c['n']}.{q['i']}"
                url = f"http://127.0.0.1:{org.port}/c46/{c['seed']}/{c['n']}/{q['i']}"
                hs = [("Proxy-Authorization", q["auth"])] if q["auth"] is not None else []
                last = q is s["reqs"][-1]
                if last:
                    hs.append(("Connection", "close"))
                try:
                    if conn is None or conn.eof:
                        conn = Conn(sq.port, timeout=30)
                except OSError:
                    res.count("connect_failed")
                    return
                ts = time.time()
                conn.send(request_bytes("GET", url, hs, None, req_id=rid_))
                m = conn.read_response("GET", timeout=30)
                with lock:
                    results[q["i"]] = (m, ts, time.time())
                if m.start is None or m.error or conn.eof or not m.complete:
                    conn.close()
                    conn = None
            if conn is not None:
                conn.close()

        with ThreadPoolExecutor(48) as ex:
            list(ex.map(run_script, c["scripts"]))
        time.sleep(0.2)
        hrecs = read_jsonl(hlog)
        if not any(x["ev"] == "start" for x in hrecs):
            res.harness_failure.append(f"case {c['n']}: auth helper stub never started: " + sq.tail_log(600))
            return
        hq = [x for x in hrecs if x["ev"] == "req"]
        hr = [x for x in hrecs if x["ev"] == "reply"]
        res.count("helper_queries", len(hq))
        res.count("helper_said_OK", sum(1 for x in hr if x["reply"] == "OK"))
        res.count("helper_said_ERR", sum(1 for x in hr if x["reply"] == "ERR"))
        pos = {x["payload"] + "@%d" % k: k for k, x in enumerate(hq)}
        order_req = [x["payload"] for x in hq]
        order_rep = [x["payload"] for x in hr]
        first_pos = {}
        for k, p in enumerate(order_req):
            first_pos.setdefault(p, k)
        res.count("helper_replies_out_of_order", sum(1 for k in range(1, len(order_rep)) if first_pos.get(order_rep[k], 0) < first_pos.get(order_rep[k - 1], 0)))
        userlog = {}
        for l in open(f"{sq.work}/access2.log", "rb").read().decode("latin1").splitlines() if os.path.exists(f"{sq.work}/access2.log") else []:
            p = l.split(" ")
            if len(p) >= 3:
                userlog.setdefault(p[0], []).append((p[1], p[2]))
        allq = [(s, q) for s in c["scripts"] for q in s["reqs"]]
        valid_users = {}
        for s, q in allq:
            if q["kind"] == "valid":
                valid_users.setdefault(q["user"], []).append(q["i"])

        def helper_history(user):
            t_base = t0
            out = []
            for x in hrecs:
                if x["ev"] in ("req", "reply") and x["payload"].split(" ")[0] == user:
                    out.append("%+.3fs helper %s %s %s" % (x["wall"] - t_base, "<-" if x["ev"] == "req" else "->", x["payload"], x.get("reply", "")))
            for s, q in allq:
                if q["user"] == user and q["i"] in results:
                    m, ts, td = results[q["i"]]
                    out.append("%+.3fs client request #%d (%s%s) sent; %+.3fs status %s" % (ts - t_base, q["i"], q["kind"], ":" + q.get("password", "") if q["kind"] == "wrong" else "", td - t_base, m.status))
            return "\n".join(sorted(out, key=lambda l: float(l.split("s", 1)[0])))

        for s, q in allq:
            res.case({"case": c["n"], "concurrency": c["concurrency"], "children": c["children"], "ttl": c["ttl"], "helper": c["helper"]} if (q["i"] == 1 and c["n"] % 4 == 0) else None)
            rid_ = f"{c['seed']}.{c['n']}.{q['i']}"
            if q["i"] not in results:
                res.count("not_run")
                continue
            m, ts, td = results[q["i"]]
            ups = org.seen(rid_)
            kind = q["kind"]
            shared = bool(s.get("shared"))
            desc = (f"basic auth helper concurrency={c['concurrency']} children={c['children']} credentialsttl={c['ttl']}; request {rid_} user={q['user']} credentials={kind}"
                    + (f" (password {q['password']!r}, the valid one is {pw(q['user'])!r})" if kind == "wrong" else "") + f" Proxy-Authorization: {q['auth']}")
            if m.start is None or m.error or m.timed_out:
                res.count("no_response")
                if ups and kind != "valid":
                    res.violation("invalid-credentials-forwarded", desc + "; the origin received the request", wit)
                continue
            feat = [kind, shared, min(c["concurrency"], 2), c["ttl"] == "2 hours"]
            # ---- identity attributed by squid
            logged = userlog.get(rid_, [])
            for un, st in logged:
                if un != "-" and kind != "garbled" and un != q["user"]:
                    res.violation("logged-under-other-identity", desc + f"; access.log attributes the request to user {un!r} (status {st})", wit)
            if kind != "valid":
                if ups:
                    # the shared cached user record situation: this user also sent its valid password in this instance.
                    # (variants seen: woken from the record's wait queue by another password's OK; arriving between that OK
                    # and its own password's ERR; and, later, served from the record cached as (wrong password, Ok))
                    mixed = q["user"] in valid_users
                    overlap = any(results[i][1] <= td and ts <= results[i][2] for i in valid_users.get(q["user"], []) if i in results)
                    res.count("wrong_password_forwarded_while_valid_in_flight" if overlap else "wrong_password_forwarded_no_valid_in_flight")
                    # the known shared-record defect needs THIS wrong password to have been in flight together with the user's valid
                    # one at some point (it is then stored in the shared record next to another lookup's OK); a wrong password
                    # that never overlapped a valid lookup and is accepted anyway is a different failure
                    raced = False
                    if kind == "wrong" and mixed:
                        same = [x for (_s2, x) in allq if x["user"] == q["user"] and x.get("password") == q.get("password") and x["i"] in results]
                        for x in same:
                            xs, xd = results[x["i"]][1], results[x["i"]][2]
                            if any(results[i][1] <= xd and xs <= results[i][2] for i in valid_users.get(q["user"], []) if i in results):
                                raced = True
                    # on the unchanged tree every password that reaches the shared record resets it to Unchecked and is put to the
                    # helper (by this request or by an earlier one with the same password) before anything can be accepted under it;
                    # (squid queues lookups for busy helpers, so the stub may see the query only later): a wrong password accepted although the
                    # helper was NEVER asked about exactly these credentials during the whole instance is another failure
                    simple = kind == "wrong" and all(ch.isalnum() or ch in "-_." for ch in q["user"] + q.get("password", ""))
                    asked = (not simple) or any(x["payload"].strip() == f"{q['user']} {q['password']}" for x in hq)
                    if raced and not asked:
                        res.violation("rejected-credentials-forwarded:same-user:helper-never-asked-about-these-credentials",
                                      desc + f"; expected 407 and nothing at the origin; observed: the origin received it, client status {m.status}, and the helper was never asked about "
                                      f"{q['user']}:{q['password']} at any time.\nhistory of this user (helper queries/replies and client requests):\n" + helper_history(q["user"]), wit)
                        continue
                    key = ("rejected-credentials-forwarded:same-user-mixed-passwords" if raced else "rejected-credentials-forwarded:same-user:password-never-in-flight-with-valid-one") if (kind == "wrong" and mixed) else \
                          ("rejected-credentials-forwarded" if kind == "wrong" else f"{kind}-credentials-forwarded")
                    res.violation(key, desc + f"; expected 407 and nothing at the origin; observed: the origin received it (X-Verif-User={ups[0].header('X-Verif-User')!r}), client status {m.status}.\n"
                                  "history of this user (helper queries/replies and client requests):\n" + helper_history(q["user"]), wit)
                    continue
                if m.status != 407 or not any(v.lower().startswith("basic") for v in m.header_all("Proxy-Authenticate")):
                    res.violation("no-407-challenge", desc + f"; expected a 407 challenge; observed status {m.status} Proxy-Authenticate={m.header_all('Proxy-Authenticate')}", wit)
                    continue
                res.count("challenged_407")
                res.feature(*feat, "407")
            else:
                if not ups:
                    # the statement does not promise that valid credentials are accepted; counted, floor-checked below
                    res.count("valid_credentials_rejected_%s" % m.status)
                    res.grey("valid-credentials-not-forwarded")
                    continue
                xu = ups[0].header("X-Verif-User")
                if xu is not None and xu != q["user"]:
                    res.violation("forwarded-under-other-identity", desc + f"; the upstream request carries X-Verif-User: {xu!r} (squid's %un for it)", wit)
                    continue
                if m.status != 200:
                    res.note(f"valid request forwarded but client status {m.status}")
                res.count("valid_forwarded")
                res.feature(*feat, "fwd")

    if a.replay_data and "case" in a.replay_data:
        cases = [gen_case(a.replay_data.get("seed", a.seed), a.replay_data["case"])]
    else:
        cases = [gen_case(a.seed, n) for n in range(a.cases)]
    try:
        with ThreadPoolExecutor(2) as ex:
            list(ex.map(one, cases))
    finally:
        for sq in squids:
            sq.stop()
        org.stop()
    res.count("origin_requests", org.count())
    res.count("instances", len(cases))
    if not a.replay_data:
        if res.counters.get("valid_forwarded", 0) < 10 * len(cases) or res.counters.get("challenged_407", 0) < 10 * len(cases):
            res.inconclusive.append("too few valid-forwarded (%d) or challenged (%d) requests" % (res.counters.get("valid_forwarded", 0), res.counters.get("challenged_407", 0)))
        if res.counters.get("helper_queries", 0) == 0:
            res.inconclusive.append("the auth helper was never consulted")


if __name__ == "__main__":
    base.main_wrapper("C46", run)
