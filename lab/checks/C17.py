#!/usr/bin/python3
"""C17 Completed disk cache entries survive a clean restart (DESIGN 5.1).

Instances: ufs, aufs, diskd, rock (non-SMP) with ample space.  A case is the history of ONE URL over several rounds;
a round is a short sequence of store (GET + `Cache-Control: no-cache`: the origin serves a new version), plain GET
and PURGE operations.  After each round the check waits until store.log shows the SWAPOUT of the URL's last version,
stops squid cleanly (SIGTERM, exit code 0), restarts it on the same directories, waits for the index rebuild to finish
and refetches every URL.

Oracle: a URL whose last version (a) was completely received by the client, (b) has a SWAPOUT line of exactly its
body length in store.log with no later RELEASE of that swap file, and (c) was not PURGEd afterwards, must be answered
after the restart without any origin contact, with that version's rid, status and identical, complete bytes.
Not counted: versions without a SWAPOUT line / with a RELEASE (never completely stored or evicted), unclean stops.
Not judged (grey): a PURGEd URL that is served from cache after the restart (the statement does not speak about it)."""
import random, threading, time, re, os
from concurrent.futures import ThreadPoolExecutor
from lab import base, httpref
from lab.squidproc import Squid, health_events
from lab.origin import Origin, Resp, make_body
from lab.client import Conn, request_bytes, fetch

COMMON = ("acl PURGE method PURGE\n"
          "cache_mem 1 MB\n"
          "maximum_object_size 2 MB\n"
          "cache_store_log stdio:{W}/store.log\n")
INSTANCES = {
    "ufs":   ["cache_dir ufs {W}/ufs 64 4 8"],
    "aufs":  ["cache_dir aufs {W}/aufs 64 4 8"],
    "diskd": ["cache_dir diskd {W}/diskd 64 4 8"],
    "rock":  ["cache_dir rock {W}/rock 64 slot-size=%(slot)d"],
    # two cache_dirs holding different numbers of entries (the second one only takes small objects): the clean-log
    # writer walks all cache_dirs round-robin at shutdown
    "ufs-two-dirs": ["cache_dir ufs {W}/ufsA 64 4 8", "cache_dir ufs {W}/ufsB 64 4 8 max-size=16384"],
}
ORDER = ["ufs", "aufs", "diskd", "rock", "ufs-two-dirs"]
STATUSES = [200, 200, 200, 200, 200, 203, 410, 301]      # 404 is only negatively cached (never swapped out)
ROUNDS = {"quick": 2, "thorough": 3}


def pick_len(r):
    k = r.random()
    if k < 0.08:
        return r.choice([0, 1, 2, 17])
    if k < 0.45:
        return max(0, r.randrange(1, 24) * 4096 + r.randrange(-400, 60))
    if k < 0.80:
        return r.randrange(0, 30000)
    return r.randrange(30000, 300000)


def gen_case(seed, n, nrounds=3):
    r = random.Random(f"C17:{seed}:{n}")
    c = {"n": n, "seed": seed, "inst": ORDER[n % len(ORDER)], "oseed": r.randrange(1 << 30)}
    rounds = []
    for ri in range(3):     # always draw 3 rounds so that a case is the same in every tier; use the first nrounds
        ops = []
        if ri == 0 or r.random() < 0.75:
            for _ in range(r.choice([1, 1, 2, 3])):
                ops.append(r.choice(["store", "store", "store", "get", "purge"]))
            if ri == 0:
                ops[0] = "store"
            elif r.random() < 0.3:
                ops = ["get", "store"]      # read the rebuilt entry, then replace it
        rounds.append(ops)
    c["rounds"] = rounds[:nrounds]
    return c


class StoreLog:
    """incremental reader of squid's store.log: which swap files are completely written and not released"""
    LINE = re.compile(r"^\s*\d+\.\d+ (\w+)\s+(-?\d+) ([0-9A-F]{8}) (\S+)\s+(\S+)\s+\S+\s+\S+\s+\S+ \S+ (\S+)/(\S+) (\S+) (\S+)$")

    def __init__(self, path):
        self.path = path
        self.pos = 0
        self.ondisk = {}        # (dirn, filen) -> (url, objlen)
        self.swapouts = {}      # url -> set(objlen) currently on disk
        self.counts = {}
        self.released_urls = {}  # url -> count of RELEASE of a disk file that belonged to url
        self.key_of = {}         # url -> store key (hex) as logged
        self.last_swapout = {}   # url -> sequence number of its last SWAPOUT line
        self.swapout_seq = 0
        self.rock_anchors = None  # number of anchors of the rock map (set by the instance runner)

    def rock_anchor(self, url):
        """index of the rock map anchor of this URL's key: Ipc::StoreMap::nameByKey() = (k[0] + k[1]) % entryLimit"""
        key = self.key_of.get(url)
        if not key or not self.rock_anchors:
            return None
        b = bytes.fromhex(key)
        return ((int.from_bytes(b[:8], "little") + int.from_bytes(b[8:16], "little")) & 0xFFFFFFFFFFFFFFFF) % self.rock_anchors

    def evicted_by_anchor_collision(self, url):
        """rock keeps ONE entry per anchor: a later swapout of another key with the same anchor silently replaces this one
        (no store.log line is written for that); returns the other URL or None"""
        a0 = self.rock_anchor(url)
        if a0 is None:
            return None
        for other, seq in self.last_swapout.items():
            if other != url and seq > self.last_swapout.get(url, 0) and self.rock_anchor(other) == a0:
                return other
        return None

    def shares_anchor_with(self, url):
        """another key that was swapped out under the same rock anchor at any time (its slots may still be on disk)"""
        a0 = self.rock_anchor(url)
        if a0 is None:
            return None
        for other in self.last_swapout:
            if other != url and self.rock_anchor(other) == a0:
                return other
        return None

    def poll(self):
        try:
            f = open(self.path, "rb")
        except OSError:
            return
        f.seek(self.pos)
        data = f.read()
        f.close()
        end = data.rfind(b"\n")
        if end < 0:
            return
        self.pos += end + 1
        for l in data[:end].decode("latin1").split("\n"):
            m = self.LINE.match(l)
            if not m:
                continue
            tag, dirn, filen, key, status, clen, objlen, method, url = m.groups()
            self.counts[tag] = self.counts.get(tag, 0) + 1
            k = (dirn, filen)
            if tag == "SWAPOUT":
                old = self.ondisk.pop(k, None)
                if old:
                    self._drop(old)
                try:
                    n = int(objlen)
                except ValueError:
                    continue
                self.ondisk[k] = (url, n)
                self.swapouts.setdefault(url, set()).add(n)
                self.key_of[url] = key
                self.swapout_seq += 1
                self.last_swapout[url] = self.swapout_seq
            elif tag == "RELEASE" and filen != "FFFFFFFF":
                old = self.ondisk.pop(k, None)
                if old:
                    self._drop(old)
                    self.released_urls[old[0]] = self.released_urls.get(old[0], 0) + 1

    def _drop(self, old):
        s = self.swapouts.get(old[0])
        if s:
            s.discard(old[1])

    def stored(self, url, n):
        return n in self.swapouts.get(url, ())


def run(a, res):
    nrounds = ROUNDS.get(a.tier, 2)
    table = {}          # path -> url state
    versions = {}       # rid -> dict
    vlock = threading.Lock()

    def handler(req):
        path = "/" + req.target.split("://", 1)[-1].split("/", 1)[-1]
        u = table.get(path)
        if u is None:
            return Resp(404, length=3)
        c = u["case"]
        with vlock:
            u["nver"] += 1
            k = u["nver"]
            r = random.Random(f"C17v:{c['oseed']}:{k}")
            status = r.choice(STATUSES)
            n = pick_len(r)
            while n in u["lens"]:       # body length identifies the version of a URL in store.log
                n += 1
            u["lens"].add(n)
        framing = r.choice(["cl", "cl", "cl", "chunked", "chunked", "close"])
        resp = Resp(status, None, length=n, framing=framing, chunks=[r.choice([1, 100, 4096, 5000, 65536]) for _ in range(4)])
        resp.headers = [("Content-Type", "application/octet-stream"), ("Cache-Control", "max-age=86400"),
                        ("ETag", '"%s-%d"' % (resp.rid, n))]
        if status == 301:
            resp.headers.append(("Location", "http://127.0.0.1:1/moved/" + resp.rid))
        if r.random() < 0.2:
            wire_len = len(resp.serialize())
            resp.splits = sorted(r.randrange(1, max(2, wire_len)) for _ in range(r.randrange(1, 4)))
            resp.delay = 0.01
        v = {"rid": resp.rid, "path": path, "status": status, "len": n, "framing": framing, "req_id": req.req_id, "delivered": False, "t": base.tick()}
        with vlock:
            versions[resp.rid] = v
            u["events"].append(("version", resp.rid))
        return resp

    org = Origin(handler)

    def do(sq, method, path, req_id, headers=()):
        try:
            return fetch(sq.port, method, f"http://127.0.0.1:{org.port}{path}", headers, None, req_id, timeout=40)
        except OSError:
            res.count("connect_failed")
            return None

    def path_of(c):
        return f"/c17/{c['seed']}/{c['n']}/{c['inst']}"

    def play_round(c, sq, ri):
        path = path_of(c)
        u = table[path]
        for i, op in enumerate(c["rounds"][ri]):
            req_id = f"{c['seed']}.{c['n']}.r{ri}.{i}"
            if op == "purge":
                m = do(sq, "PURGE", path, req_id)
                if m is not None and m.start is not None and m.status in (200, 404):
                    with vlock:
                        u["events"].append(("purge", m.status))
                else:
                    with vlock:
                        u["events"].append(("unknown", "purge failed"))
                res.count("op_purge")
                continue
            m = do(sq, "GET", path, req_id, [("Cache-Control", "no-cache")] if op == "store" else [])
            res.count("op_" + op)
            note_delivery(m)

    def note_delivery(m):
        if m is None or m.start is None or m.error:
            return
        rid = m.header("X-Verif-Rid")
        v = versions.get(rid)
        if v is not None and m.complete and m.body == make_body(rid, v["len"]):
            v["delivered"] = True

    def expectation(u):
        """(rid | None, why) from the URL's event list"""
        ev = u["events"]
        if not ev:
            return None, "nothing"
        kind, x = ev[-1]
        if kind == "purge":
            return None, "purged"
        if kind != "version":
            return None, "unknown"
        return x, "version"

    def verify(c, sq, slog, ri, clean):
        path = path_of(c)
        u = table[path]
        wit = {"seed": c["seed"], "case": c["n"]}
        inst = c["inst"]
        rid, why = expectation(u)
        req_id = f"{c['seed']}.{c['n']}.v{ri}"
        shape = tuple(c["rounds"][ri])
        if rid is None and why != "purged":
            res.count("not_counted:" + why)
            do_get = do(sq, "GET", path, req_id)
            note_delivery(do_get)
            return
        v = versions.get(rid) if rid else None
        counted = True
        if rid is not None:
            url = f"http://127.0.0.1:{org.port}{path}"
            if not v["delivered"]:
                counted = False
                res.count("not_counted:version-not-completely-delivered")
            elif not slog.stored(url, v["len"]):
                counted = False
                res.count("not_counted:no-swapout-or-released")
            elif not clean:
                counted = False
                res.count("not_counted:unclean-stop")
        m = do(sq, "GET", path, req_id)
        note_delivery(m)
        if m is None or m.start is None or m.error:
            res.count("verify_no_response")
            if m is not None and m.error:
                res.violation("client-bytes-invalid-http", f"[{inst}] {m.error}", wit)
            return
        got = m.header("X-Verif-Rid")
        contacted = len(org.seen(req_id)) > 0
        if rid is None:     # purged before the restart
            if got is not None and not contacted:
                res.grey("purged-url-served-from-cache-after-restart:" + inst)
            else:
                res.count("purged_stays_gone")
                res.feature(inst, shape, "purged-gone", nontrivial=False)
            return
        if not counted:
            return
        res.count("judged")
        res.count("judged:" + inst)
        feat = (inst, ri, shape, v["status"], v["framing"], min(v["len"], 140000) // 8192)
        if contacted and inst == "rock":
            thief = slog.evicted_by_anchor_collision(url)
            if thief:
                # evicted: the property excludes evicted entries. (rock's map is a hash without chaining)
                res.count("rock_entries_replaced_by_a_colliding_key")
                res.grey("rock-anchor-collision")
                return
        if contacted:
            with vlock:
                prior = [versions[x]["len"] for k, x in u["events"] if k == "version" and x != rid and versions[x]["t"] < v["t"]]
            # coarse sub-key: did this version replace earlier versions of the same URL in this cache_dir?
            sub = ":overwritten-url" if prior else ":first-version"
            other = slog.shares_anchor_with(url) if inst == "rock" else None
            if other:
                # this entry was the LAST one written under its anchor (otherwise it would have been grey above), but an
                # earlier entry of a colliding key left its slots on disk: the rebuild sees two keys for one anchor
                sub = ":anchor-shared-with-another-key"
            res.violation("lost-after-clean-restart:" + inst + sub,
                          f"[{inst}] round {ri}: version {rid} ({v['status']}, {v['len']} body bytes, origin framing {v['framing']}) had a SWAPOUT line and no RELEASE, "
                          f"squid stopped with exit code 0, but after the restart the request went to the origin (client got rid {got}, status {m.status}); "
                          f"history {c['rounds']}; body lengths of the earlier versions of this URL: {prior}", wit)
            return
        if got != rid:
            res.violation("other-version-after-clean-restart:" + inst,
                          f"[{inst}] round {ri}: expected the last stored version {rid}, cache served {got} (status {m.status}) without contacting the origin; history {c['rounds']}", wit)
            return
        if m.status != v["status"] or not m.complete or m.body != make_body(rid, v["len"]) or m.header("ETag") != '"%s-%d"' % (rid, v["len"]):
            res.violation("hit-differs-after-clean-restart:" + inst,
                          f"[{inst}] round {ri}: hit for {rid} after restart: status {m.status} (origin {v['status']}), complete={m.complete}, {len(m.body)} body bytes (origin {v['len']}), ETag {m.header('ETag')}", wit)
            return
        res.count("survived")
        res.count("survived:" + inst)
        res.feature(*feat, "survived")

    def wait_swapouts(cases, slog, limit=25.0):
        t0 = time.time()
        while True:
            slog.poll()
            pending = []
            for c in cases:
                u = table[path_of(c)]
                rid, why = expectation(u)
                if rid and versions[rid]["delivered"] and not slog.stored(f"http://127.0.0.1:{org.port}{path_of(c)}", versions[rid]["len"]):
                    pending.append(versions[rid])
            if not pending or time.time() - t0 > limit:
                for v in pending:
                    res.count("no_swapout:%s:%s:%s" % (v["status"], v["framing"], "len0" if v["len"] == 0 else "len>0"))
                return len(pending)
            time.sleep(0.2)

    def wait_rebuilt(sq, want, limit=90.0):
        t0 = time.time()
        while time.time() - t0 < limit:
            if sq.log_text().count("Finished rebuilding storage from disk") >= want:
                return True
            if not sq.alive():
                return False
            time.sleep(0.2)
        return False

    def clean_stop(sq):
        """what an administrator does: SIGTERM to the squid process only (its helpers are not signalled), wait for exit"""
        import signal, subprocess
        rc = None
        try:
            os.kill(sq.proc.pid, signal.SIGTERM)
            rc = sq.proc.wait(timeout=40)
        except (OSError, subprocess.TimeoutExpired) as e:
            rc = None
            res.note("clean_stop: " + repr(e)[:200])
        sq.stop()       # reaps stragglers of the session; kills if the wait above timed out
        return rc

    def run_instance(name, cases):
        seed = cases[0]["seed"]
        r = random.Random(f"C17:{seed}:inst:{name}")
        cds = [cd % {"slot": r.choice([4096, 8192, 16384])} for cd in INSTANCES[name]]
        sq = Squid(a.work, conf=COMMON, cache_dirs=cds)
        wit = {"seed": seed, "case": cases[0]["n"]}
        slog = StoreLog(sq.work + "/store.log")
        if name == "rock":
            slot = int(cds[0].split("slot-size=")[1])
            slog.rock_anchors = (64 * 1024 * 1024 - 16384) // slot       # Rock::SwapDir::entryLimitActual() for a 64 MB cache_dir
        for c in cases:
            table[path_of(c)] = {"case": c, "nver": 0, "lens": set(), "events": []}
        try:
            sq.start(timeout=150)
            starts = 1
            if not wait_rebuilt(sq, starts):
                res.inconclusive.append(f"[{name}] initial (empty) rebuild did not finish")
                return
            for ri in range(nrounds):
                with ThreadPoolExecutor(4) as ex:
                    list(ex.map(lambda c: play_round(c, sq, ri), cases))
                pending = wait_swapouts(cases, slog)
                res.count("swapout_wait_pending", pending)
                healthy = health_events(sq, res, judge=True, witness=wit) and sq.alive()
                rc = clean_stop(sq)
                clean = healthy and rc == 0
                if not clean:
                    res.count("unclean_stop:" + name)
                    res.note(f"[{name}] stop was not clean: rc={rc}")
                slog.poll()
                sq.start(init=False, timeout=150)
                starts += 1
                res.count("restarts")
                if not wait_rebuilt(sq, starts):
                    res.inconclusive.append(f"[{name}] rebuild after restart {ri} did not finish in time")
                    return
                with ThreadPoolExecutor(4) as ex:
                    list(ex.map(lambda c: verify(c, sq, slog, ri, clean), cases))
                slog.poll()
            time.sleep(0.2)
            health_events(sq, res, judge=True, witness=wit)
            if not sq.alive():
                res.violation("crash:squid-exited", f"[{name}] squid exited during the workload: " + sq.tail_log(), wit)
        finally:
            sq.stop()
        health_events(sq, res, judge=True, witness=wit)
        if name == "rock":
            seen = {}
            for url_ in slog.key_of:
                seen.setdefault(slog.rock_anchor(url_), []).append(url_)
            res.count("rock_keys_swapped_out", len(slog.key_of))
            res.count("rock_anchors_shared_by_several_keys", sum(1 for v_ in seen.values() if len(v_) > 1))
        for k, n in slog.counts.items():
            res.count(f"storelog:{name}:{k}", n)
        res.note(f"instance {name}: {cds}")

    if a.replay_data and "case" in a.replay_data:
        cases = [gen_case(a.replay_data.get("seed", a.seed), a.replay_data["case"], nrounds)]
    else:
        cases = [gen_case(a.seed, n, nrounds) for n in range(a.cases)]
    for c in cases:
        res.case({"case": c["n"], "inst": c["inst"], "rounds": c["rounds"]} if c["n"] % 41 == 0 else None)
    groups = {}
    for c in cases:
        groups.setdefault(c["inst"], []).append(c)
    try:
        with ThreadPoolExecutor(2) as ex:
            list(ex.map(lambda kv: run_instance(*kv), [(k, groups[k]) for k in ORDER if k in groups]))
    finally:
        org.stop()
    res.count("origin_requests", org.count())
    if not a.replay_data:
        for k in groups:
            if res.counters.get("judged:" + k, 0) < max(1, len(groups[k]) // 4):
                res.inconclusive.append(f"too few judged entries on {k}: {res.counters.get('judged:' + k, 0)} of {len(groups[k])} URLs")


if __name__ == "__main__":
    base.main_wrapper("C17", run)
