"""Run the real (ASan+UBSan, -DSQUID_VERIF) squid binary from the build cache, uninstalled, as `nobody`."""
import os, socket, subprocess, time, signal, glob, re, shutil, pwd, struct, mmap, itertools
from . import base

_uniq = itertools.count(1)


def free_port(host="127.0.0.1", udp=False):
    s = socket.socket(socket.AF_INET, socket.SOCK_DGRAM if udp else socket.SOCK_STREAM)
    s.bind((host, 0))
    p = s.getsockname()[1]
    s.close()
    return p


def chown_nobody(path):
    pw = pwd.getpwnam("nobody")
    os.chown(path, pw.pw_uid, pw.pw_gid)


class Squid:
    """One squid instance. conf: extra squid.conf text placed before the default http_access rules.
    smp: number of workers (0 => -N non-SMP)."""

    def __init__(self, work, conf="", smp=0, name=None, cache_dirs=(), clock=False, env=None, http_access="http_access allow all",
                 http_port_opts="", extra_ports=(), access_log=None, debug="ALL,1", delay=None):
        self.n = next(_uniq)
        self.work = os.path.join(work, f"sq{self.n}")
        os.makedirs(self.work, exist_ok=True)
        os.chmod(work, 0o755)
        chown_nobody(self.work)
        self.name = name or f"v{os.getpid()}x{self.n}"
        self.smp = smp
        self.port = free_port()
        self.extra_ports = [free_port() for _ in extra_ports]
        self.conf_path = f"{self.work}/squid.conf"
        self.cache_log = f"{self.work}/cache.log"
        self.access_log = f"{self.work}/access.log"
        self.pidfile = f"{self.work}/squid.pid"
        self.cache_dirs = list(cache_dirs)
        self.proc = None
        self.env_extra = env or {}
        self.clock_path = None
        self.clock_mm = None
        if clock:
            self.clock_path = f"{self.work}/clock"
            with open(self.clock_path, "wb") as f:
                f.write(struct.pack("<q", 0))
            os.chmod(self.clock_path, 0o644)
        src = base.BUILD
        lines = [
            f"http_port 127.0.0.1:{self.port} {http_port_opts}".rstrip(),
        ]
        for p, o in zip(self.extra_ports, extra_ports):
            lines.append(f"http_port 127.0.0.1:{p} {o}".rstrip())
        lines += [
            "cache_effective_user nobody",
            f"pid_filename {self.pidfile}",
            f"cache_log {self.cache_log}",
            access_log if access_log is not None else f"access_log stdio:{self.access_log}",
            f"coredump_dir {self.work}",
            f"mime_table {src}/src/mime.conf.default",
            f"icon_directory {src}/icons",
            f"error_directory {src}/errors/templates",
            f"err_page_stylesheet {src}/errors/errorpage.css",
            f"unlinkd_program {src}/src/unlinkd",
            f"diskd_program {src}/src/DiskIO/DiskDaemon/diskd",
            f"logfile_daemon {src}/src/log/file/log_file_daemon",
            "memory_pools off",
            "hosts_file none",
            "shutdown_lifetime 0 seconds",
            "visible_hostname verif.test",
            "dns_nameservers 127.0.0.1",
            "pinger_enable off",
            f"debug_options {debug}",
            "via on",
            "forwarded_for on",
        ]
        if smp:
            lines.append(f"workers {smp}")
        for cd in self.cache_dirs:
            lines.append(cd.replace("{W}", self.work))
        lines.append(conf.replace("{W}", self.work).replace("{SRC}", src))
        lines.append(http_access)
        open(self.conf_path, "w").write("\n".join(lines) + "\n")
        os.chmod(self.conf_path, 0o644)

    # ------------------------------------------------------------------ lifecycle
    def _env(self):
        e = dict(os.environ)
        e["ASAN_OPTIONS"] = f"abort_on_error=1:detect_leaks=0:verify_asan_link_order=0:log_path={self.work}/asan:detect_stack_use_after_return=0"
        if os.environ.get("VERIF_ASAN_EXTRA"):      # triage aid, e.g. handle_abort=1 for a stack trace of an assertion
            e["ASAN_OPTIONS"] += ":" + os.environ["VERIF_ASAN_EXTRA"]
        e["UBSAN_OPTIONS"] = f"print_stacktrace=1:log_path={self.work}/ubsan"
        if self.clock_path:
            e["SQUID_VERIF_CLOCK"] = self.clock_path
        e.update(self.env_extra)
        return e

    def _cmd(self, *extra):
        return [f"{base.BUILD}/src/squid", "-f", self.conf_path, "-n", self.name] + list(extra)

    def init_dirs(self):
        if not self.cache_dirs:
            return
        for cd in self.cache_dirs:
            parts = cd.replace("{W}", self.work).split()
            d = parts[2]
            os.makedirs(d, exist_ok=True)
            chown_nobody(d)
        r = subprocess.run(self._cmd("-z", "-N"), env=self._env(), stdout=subprocess.PIPE, stderr=subprocess.STDOUT, timeout=120)
        open(f"{self.work}/z.out", "ab").write(r.stdout)
        if r.returncode:
            raise RuntimeError("squid -z failed: " + r.stdout.decode("latin1")[-800:] + self.tail_log())

    def start(self, init=True, timeout=90, extra_args=(), tries=4):
        """start and wait (log based) until squid accepts connections on ITS port. If another process took the
        probed port in the meantime (squid: 'Unable to open HTTP Socket' / 'Address already in use') a new port is
        chosen and the start repeated: a harness retry, not an event (DESIGN 4.3)."""
        if init and self.cache_dirs and not getattr(self, "_inited", False):
            self.init_dirs()
            self._inited = True
        last = ""
        for attempt in range(tries):
            try:
                before = self.log_text().count("Accepting HTTP Socket connections at")
                self._start_once(timeout, extra_args, before)
                return self
            except RuntimeError as e:
                last = str(e)
                log = self.log_text()
                self.stop(kill=True)
                lost = any(x in log[-6000:] + last for x in ("Unable to open HTTP Socket", "Address already in use", "Cannot open HTTP Port", "No such file or directory", "Permission denied", "did not open its port"))
                if not lost or "Bungled" in last:
                    raise
                # new port, rewrite conf
                old = self.port
                self.port = free_port()
                conf = open(self.conf_path).read().replace(f"127.0.0.1:{old}", f"127.0.0.1:{self.port}")
                open(self.conf_path, "w").write(conf)
                self.start_retries = getattr(self, "start_retries", 0) + 1
                time.sleep(0.5 + attempt)
        raise RuntimeError(f"squid could not be started after {tries} attempts: {last}")

    def _start_once(self, timeout, extra_args, before):
        args = (["--foreground"] if self.smp else ["-N"]) + list(extra_args)
        self.out = open(f"{self.work}/stdout.txt", "ab")
        self.proc = subprocess.Popen(self._cmd(*args), env=self._env(), stdout=self.out, stderr=subprocess.STDOUT,
                                     start_new_session=True, cwd=self.work)
        want = before + (self.smp if self.smp else 1)
        t0 = time.time()
        while time.time() - t0 < timeout:
            if self.proc.poll() is not None:
                raise RuntimeError(f"squid exited rc={self.proc.returncode} during start: " + self.tail_log())
            if self.log_text().count("Accepting HTTP Socket connections at") >= want:
                break
            time.sleep(0.05)
        else:
            raise RuntimeError("squid did not open its port: " + self.tail_log())
        if self.smp:
            time.sleep(0.5)

    def alive(self):
        return self.proc is not None and self.proc.poll() is None

    def pids(self):
        """all processes of this instance (session)"""
        if not self.proc:
            return []
        out = subprocess.run(["ps", "-o", "pid=", "-s", str(self.proc.pid)], capture_output=True, text=True).stdout.split()
        return [int(x) for x in out]

    def stop(self, kill=False, timeout=25):
        if not self.proc:
            return None
        rc = self.proc.poll()
        if rc is None:
            try:
                os.killpg(self.proc.pid, signal.SIGKILL if kill else signal.SIGTERM)
            except ProcessLookupError:
                pass
            try:
                rc = self.proc.wait(timeout=timeout)
            except subprocess.TimeoutExpired:
                try:
                    os.killpg(self.proc.pid, signal.SIGKILL)
                except ProcessLookupError:
                    pass
                rc = self.proc.wait()
                self.stop_timed_out = True
        # reap stragglers of the session (SMP kids, helpers)
        try:
            os.killpg(self.proc.pid, signal.SIGKILL)
        except (ProcessLookupError, PermissionError):
            pass
        self.last_rc = rc
        self.proc = None
        try:
            self.out.close()
        except Exception:
            pass
        return rc

    def cleanup_ipc(self):
        """after a SIGKILL: remove stale pid file, shm segments and UDS of this service name"""
        for p in [self.pidfile] + glob.glob(f"/dev/shm/{self.name}-*") + glob.glob(f"{base.PREFIX}/var/run/squid/{self.name}-*"):
            try:
                os.unlink(p)
            except OSError:
                pass

    # ------------------------------------------------------------------ observation
    def tail_log(self, n=1500):
        try:
            return open(self.cache_log, "rb").read().decode("latin1")[-n:]
        except OSError:
            try:
                return open(f"{self.work}/stdout.txt", "rb").read().decode("latin1")[-n:]
            except OSError:
                return ""

    def sanitizer_reports(self):
        """list of (kind, text) from ASan / UBSan log files of all processes of this instance.
        ASan and UBSan share one runtime and ONE report file per process: whichever reports first opens it (under its own
        log_path), and later reports of the other kind land in the same file. Every file is therefore parsed for both kinds."""
        reps = []
        for f in sorted(glob.glob(f"{self.work}/asan.*") + glob.glob(f"{self.work}/ubsan.*")):
            t = open(f, "rb").read().decode("latin1")
            if not t.strip():
                continue
            rest = t
            for m in re.finditer(r"(?ms)^(?:=+\n)?==\d+==ERROR: (?:AddressSanitizer|LeakSanitizer).*?(?:^==\d+==ABORTING\n|\Z)", t):
                reps.append(("asan", m.group(0)))
                rest = rest.replace(m.group(0), "")
            for blk in re.split(r"(?m)^(?=\S+:\d+:\d+: runtime error:)", rest):
                if "runtime error:" in blk:
                    reps.append(("ubsan", blk))
                elif blk.strip() and os.path.basename(f).startswith("asan.") and "AddressSanitizer" in blk:
                    reps.append(("asan", blk))      # anything else ASan wrote (e.g. a deadly-signal report without the ERROR line)
        return reps

    def fatal_lines(self):
        out = []
        try:
            for l in open(self.cache_log, "rb").read().decode("latin1").splitlines():
                if "FATAL:" in l or "assertion failed" in l or "Squid Cache (Version" in l and False:
                    out.append(l)
        except OSError:
            pass
        return out

    def log_text(self):
        try:
            return open(self.cache_log, "rb").read().decode("latin1")
        except OSError:
            return ""

    def access_lines(self):
        try:
            return open(self.access_log, "rb").read().decode("latin1").splitlines()
        except OSError:
            return []

    def set_clock(self, offset_s):
        """H1: advance squid's notion of now by offset_s seconds (monotone, >= 0)"""
        with open(self.clock_path, "r+b") as f:
            f.write(struct.pack("<q", int(offset_s)))

    def mgr(self, action, timeout=20, password=None):
        s = socket.create_connection(("127.0.0.1", self.port), timeout=timeout)
        auth = ""
        if password is not None:
            import base64
            auth = "Authorization: Basic " + base64.b64encode(("user:" + password).encode()).decode() + "\r\n"
        s.sendall(f"GET /squid-internal-mgr/{action} HTTP/1.1\r\nHost: 127.0.0.1:{self.port}\r\n{auth}Connection: close\r\n\r\n".encode())
        data = b""
        s.settimeout(timeout)
        try:
            while True:
                b = s.recv(65536)
                if not b:
                    break
                data += b
        except socket.timeout:
            pass
        s.close()
        return data.decode("latin1")

    def fd_count(self):
        """open descriptors of the (single, -N) squid process"""
        try:
            return len(os.listdir(f"/proc/{self.proc.pid}/fd"))
        except OSError:
            return -1


def crash_key(text):
    """stable key of an ASan report / assertion: kind + first two Squid frames"""
    kind = "abort"
    m = re.search(r"ERROR: AddressSanitizer: ([\w-]+)", text)
    if m:
        kind = m.group(1)
    else:
        m = re.search(r"assertion failed: ([^\n]+)", text)
        if m:
            kind = "assert:" + m.group(1).strip()[:80]
        else:
            m = re.search(r"FATAL: ([^\n]+)", text)
            if m:
                kind = "fatal:" + re.sub(r"\d+", "N", m.group(1).strip())[:60]
    frames = []
    for fm in re.finditer(r"#\d+ 0x[0-9a-f]+ in (\S+) ([^\s:]+):(\d+)", text):
        fn, path = fm.group(1), fm.group(2)
        if "libsanitizer" in path or path.startswith("/usr/") or path.startswith("/build/"):
            continue
        frames.append(fn.split("(")[0])
        if len(frames) >= 2:
            break
    return "crash:" + kind + ":" + ">".join(frames)


def health_events(sq, res, memory_kinds_only=True, judge=True, witness=None):
    """Process-level monitor (DESIGN 4.3). Returns True if healthy. Reports:
    ASan report / assertion / FATAL / unexpected exit -> violation key crash:...;
    UBSan memory-kind report -> violation key ubsan:<kind>:<file:line>; arithmetic kinds -> notes."""
    ok = True
    for kind, text in sq.sanitizer_reports():
        if kind == "asan":
            ok = False
            if judge:
                res.violation(crash_key(text), "AddressSanitizer report in squid:\n" + text[:3000], witness)
        else:
            m = re.match(r"(\S+?):(\d+):\d+: runtime error: ([^\n]+)", text)
            where = (os.path.basename(m.group(1)) + ":" + m.group(2)) if m else "?"
            msg = m.group(3) if m else text[:100]
            memkind = any(k in msg for k in ("out of bounds", "null pointer", "misaligned", "insufficient space", "pointer index", "applying", "member access within", "load of address", "store to address", "member call on"))
            if "null pointer passed as argument" in msg:
                memkind = False  # memcpy(dst, nullptr, 0) class: no byte accessed (DESIGN 7.2)
            if memkind and judge:
                ok = False
                res.violation("ubsan:" + where, "UBSan memory-kind report in squid: " + text[:1500], witness)
            else:
                res.note("ubsan note: " + where + " " + msg[:120])
    fl = [l for l in sq.fatal_lines()]
    # start-up failures caused by the (loaded, shared) machine rather than by squid: harness failure, not a verdict
    env = [l for l in fl if any(x in l for x in ("failed to open db file", "Unable to open HTTP Socket", "registration timed out", "Cannot open HTTP Port"))]
    if env:
        # the master restarts such a kid; the run goes on. Counted, visible in the evidence, never a verdict.
        res.count("environmental_startup_fatal", len(env))
        res.note("environmental squid start-up failure (kid restarted by the master): " + re.sub(r"^\S+ \S+ ", "", env[0])[:200])
        fl = [l for l in fl if l not in env]
    if fl:
        ok = False
        if judge:
            res.violation(crash_key("\n".join(fl)), "squid logged: " + "\n".join(fl[:5]), witness)
    return ok
