"""Raw HTTP client driver: sends exact bytes with chosen segmentation, reads by framing with the strict parser."""
import socket, time, struct, select
from . import httpref
from .base import tick


class Conn:
    def __init__(self, port, host="127.0.0.1", src=None, timeout=15):
        self.sock = socket.socket(socket.AF_INET, socket.SOCK_STREAM)
        if src:
            self.sock.bind((src, 0))
        self.sock.settimeout(timeout)
        self.sock.connect((host, port))
        self.sock.setsockopt(socket.IPPROTO_TCP, socket.TCP_NODELAY, 1)
        self.buf = b""
        self.raw_in = b""
        self.raw_out = b""
        self.eof = False
        self.reset = False
        self.timeout = timeout
        self.interim = []

    def send(self, data, splits=None, delay=0.0):
        """send data, split at the given byte offsets, sleeping `delay` between writes. Returns bytes sent (may stop early on error)."""
        cuts = sorted(set(x for x in (splits or []) if 0 < x < len(data))) + [len(data)]
        pos = 0
        for cut in cuts:
            if cut <= pos:
                continue
            try:
                self.sock.sendall(data[pos:cut])
            except OSError:
                self.send_error = True
                return pos
            self.raw_out += data[pos:cut]
            pos = cut
            if delay and cut != len(data):
                time.sleep(delay)
        return pos

    def _fill(self, timeout):
        """read more bytes; returns False on EOF/reset/timeout"""
        if self.eof:
            return False
        r, _, _ = select.select([self.sock], [], [], timeout)
        if not r:
            return False
        try:
            b = self.sock.recv(262144)
        except ConnectionResetError:
            self.eof = True
            self.reset = True
            return False
        except OSError:
            self.eof = True
            return False
        if not b:
            self.eof = True
            return False
        self.buf += b
        self.raw_in += b
        return True

    def read_response(self, method="GET", timeout=None, skip_interim=True):
        """Read ONE response (skipping 1xx) by its own framing. Returns httpref.Message with extra attrs:
        timed_out, reset, t_done."""
        deadline = time.time() + (timeout if timeout is not None else self.timeout)
        while True:
            m = httpref.parse_message(self.buf, True, self.eof, req_method=method)
            if m.error:
                break
            if m.start is not None and m.complete and m.framing != "close":
                if skip_interim and m.status // 100 == 1 and m.status != 101:
                    self.interim.append(m)
                    self.buf = self.buf[m.consumed:]
                    continue
                break
            if m.start is not None and m.framing == "close" and self.eof:
                break
            if self.eof:
                break
            left = deadline - time.time()
            if left <= 0:
                m.timed_out = True
                break
            self._fill(min(left, 1.0))
        if not hasattr(m, "timed_out"):
            m.timed_out = False
        m.reset = self.reset
        m.closed = self.eof
        m.t_done = tick()
        if m.framing == "close" and m.start is not None:
            m.complete = self.eof and not self.reset
        if m.error is None and m.start is not None and (m.complete or self.eof):
            self.buf = self.buf[m.consumed:]
        return m

    def read_all(self, timeout=5.0):
        """read until EOF or timeout; returns all bytes still buffered + read"""
        deadline = time.time() + timeout
        while not self.eof and time.time() < deadline:
            self._fill(min(1.0, max(0.0, deadline - time.time())))
        d = self.buf
        self.buf = b""
        return d

    def wait_eof(self, timeout=5.0):
        deadline = time.time() + timeout
        while not self.eof and time.time() < deadline:
            self._fill(min(0.5, max(0.0, deadline - time.time())))
        return self.eof

    def shutdown_wr(self):
        try:
            self.sock.shutdown(socket.SHUT_WR)
        except OSError:
            pass

    def rst(self):
        try:
            self.sock.setsockopt(socket.SOL_SOCKET, socket.SO_LINGER, struct.pack("ii", 1, 0))
        except OSError:
            pass
        self.close()

    def close(self):
        try:
            self.sock.close()
        except OSError:
            pass


def request_bytes(method, url, headers=(), body=None, version="HTTP/1.1", req_id=None, host=None, chunked=None):
    """serialize a request. url: absolute-form target. chunked: list of chunk sizes to use chunked coding."""
    hs = []
    if host is None:
        # derive from url
        h = url.split("://", 1)[-1].split("/", 1)[0]
        host = h
    if host is not False:
        hs.append(("Host", host))
    if req_id:
        hs.append(("X-Verif-Req", req_id))
    hs += list(headers)
    wire = b""
    if body is not None:
        if chunked:
            hs.append(("Transfer-Encoding", "chunked"))
            pos = 0
            for sz in chunked:
                if pos >= len(body):
                    break
                sz = max(1, min(sz, len(body) - pos))
                wire += ("%x\r\n" % sz).encode() + body[pos:pos + sz] + b"\r\n"
                pos += sz
            if pos < len(body):
                wire += ("%x\r\n" % (len(body) - pos)).encode() + body[pos:] + b"\r\n"
            wire += b"0\r\n\r\n"
        else:
            hs.append(("Content-Length", str(len(body))))
            wire = body
    head = "%s %s %s\r\n" % (method, url, version) + "".join("%s: %s\r\n" % kv for kv in hs) + "\r\n"
    return head.encode("latin1") + wire


def fetch(port, method, url, headers=(), body=None, req_id=None, timeout=15, version="HTTP/1.1", src=None, close=True):
    """one transaction on a fresh connection"""
    c = Conn(port, src=src, timeout=timeout)
    hs = list(headers)
    if close and version == "HTTP/1.1":
        hs.append(("Connection", "close"))
    c.send(request_bytes(method, url, hs, body, version, req_id))
    m = c.read_response(method, timeout)
    c.close()
    return m
