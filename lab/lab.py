"""Lab: one squid + one origin + client helpers + end-of-run process monitors, for e2e checks."""
import random, threading, time
from concurrent.futures import ThreadPoolExecutor
from . import base, httpref
from .squidproc import Squid, health_events
from .origin import Origin, Resp, make_body, http_date
from .client import Conn, request_bytes, fetch


class Lab:
    def __init__(self, a, res, conf="", handler=None, origin_hosts=("127.0.0.1",), origin_ports=1, start=True, **squid_kw):
        self.a = a
        self.res = res
        self.org = Origin(handler, hosts=origin_hosts, nports=origin_ports)
        self.sq = Squid(a.work, conf=conf, **squid_kw)
        self.crash_is_violation = True
        if start:
            self.sq.start()

    def url(self, path, port=None, host="127.0.0.1"):
        return f"http://{host}:{port or self.org.port}{path}"

    def fetch(self, method, path, headers=(), body=None, req_id=None, timeout=20, version="HTTP/1.1", src=None, url=None):
        return fetch(self.sq.port, method, url or self.url(path), headers, body, req_id, timeout, version, src)

    def conn(self, timeout=20, src=None):
        return Conn(self.sq.port, src=src, timeout=timeout)

    def at_origin(self, req_id):
        return self.org.seen(req_id)

    def check_health(self, witness=None):
        ok = health_events(self.sq, self.res, judge=self.crash_is_violation, witness=witness or {"seed": self.a.seed})
        if not self.sq.alive() and self.sq.proc is not None:
            ok = False
            if self.crash_is_violation:
                self.res.violation("crash:squid-exited", "squid exited during the workload: " + self.sq.tail_log(), witness or {"seed": self.a.seed})
            else:
                self.res.harness_failure.append("squid exited: " + self.sq.tail_log())
        return ok

    def restart(self):
        self.sq.stop()
        self.sq.start(init=False)

    def finish(self):
        try:
            if self.sq.proc is not None:
                self.check_health()
        finally:
            self.sq.stop()
            self.org.stop()
        health_events(self.sq, self.res, judge=self.crash_is_violation, witness={"seed": self.a.seed})
        self.res.count("origin_requests", self.org.count())


def run_cases(a, res, gen_case, one, threads=8, sample_every=23):
    """standard driver: cases = gen_case(seed, n) for n < a.cases (or the single replayed case); one(case) judges it"""
    if a.replay_data and "case" in a.replay_data:
        cases = [gen_case(a.replay_data.get("seed", a.seed), a.replay_data["case"])]
    else:
        cases = [gen_case(a.seed, n) for n in range(a.cases)]

    def wrapped(c):
        res.case(c if (c.get("n", 0) % sample_every == 0) else None)
        one(c)

    if threads <= 1:
        for c in cases:
            wrapped(c)
    else:
        with ThreadPoolExecutor(threads) as ex:
            list(ex.map(wrapped, cases))
    return cases
