"""Scriptable ICAP server stub (RFC 3507) for the C60 lab check: REQMOD + RESPMOD + OPTIONS, Preview (incl. ieof),
204 inside/outside preview, 100 Continue, 200 with an adapted message, ICAP error statuses, garbage, and connection
faults (close / RST / stall) at scripted points.  Records exactly what it received and sent, on the lab's logical clock.

The behaviour of one ICAP transaction is a *plan* (dict) returned by plan_for(tx):
  action   '204' | '200' | 'error' | 'garbage'
  when     'early'   respond right after the ICAP head + encapsulated HTTP heads (before reading any body byte that is
                     not already in the preview; nothing of the body is read)
           'preview' respond at the end of the preview without sending 100 Continue (only meaningful if Preview was sent;
                     otherwise treated as 'after_all')
           'after_all' send 100 Continue if needed, read the whole body, then respond
  status   ICAP status for action 'error'
  adapted  dict(kind 'res'|'req', head=bytes (complete HTTP head incl. blank line), body=bytes|None (None => null-body))
  chunks   list of chunk sizes for the adapted body
  splits   byte offsets at which the serialized ICAP response is split into separate writes
  fault    None | dict(kind 'close'|'rst'|'stall', at 'accepted'|'after_head'|'after_preview'|'after_100'|'after_all'|
                       'in_icap_head'|'in_http_head'|'in_body'|'before_last_chunk', frac=0..1, stall=seconds)
  conn_close  add 'Connection: close' and close after the response
  garbage  bytes to send for action 'garbage'
"""
import socket, struct, threading, time, itertools, re
from .base import tick


class Eof(Exception):
    pass


class Reader:
    def __init__(self, sock, raw):
        self.s = sock
        self.buf = b""
        self.raw = raw

    def _fill(self):
        b = self.s.recv(65536)
        if not b:
            raise Eof()
        self.buf += b
        self.raw += b

    def until(self, sep, limit=1 << 20):
        while True:
            i = self.buf.find(sep)
            if i >= 0:
                out = self.buf[:i + len(sep)]
                self.buf = self.buf[i + len(sep):]
                return out
            if len(self.buf) > limit:
                raise Eof()
            self._fill()

    def exact(self, n):
        while len(self.buf) < n:
            self._fill()
        out = self.buf[:n]
        self.buf = self.buf[n:]
        return out


class IcapTx:
    """one ICAP request as the stub saw it"""
    _seq = itertools.count(1)

    def __init__(self):
        self.id = next(IcapTx._seq)
        self.t = tick()
        self.t_wall = time.time()
        self.method = None
        self.uri = None
        self.service = None
        self.headers = []
        self.enc = []
        self.req_hdr = b""
        self.res_hdr = b""
        self.has_body = False
        self.body = bytearray()       # decoded virgin body bytes received
        self.body_complete = False    # saw the terminating zero chunk of the whole body
        self.preview = None           # Preview: n
        self.preview_bytes = None     # bytes that arrived inside the preview
        self.ieof = False
        self.allow204 = False
        self.sent = bytearray()
        self.sent_100 = False
        self.events = []
        self.plan = None
        self.effective = None         # what was really answered: '204','200','error:N','garbage','fault:<at>', ...
        self.fault_fired = None
        self.first_response_byte_sent = False
        self.cid = None
        self.wall_request_read = None     # wall clock when the stub had read all it wanted and started to answer
        self.wall_response_done = None
        self.key = None               # scenario key assigned by plan_for

    def header(self, name, default=None):
        n = name.lower()
        for k, v in self.headers:
            if k.lower() == n:
                return v
        return default

    def http_request_line(self):
        return self.req_hdr.split(b"\r\n", 1)[0]


def serialize_icap_200(adapted, chunks=None, istag=b'"verif-1"', conn_close=False):
    """returns (icap_head, http_head, body_wire_without_last_chunk, last_chunk)"""
    head = adapted["head"]
    body = adapted.get("body")
    kind = adapted.get("kind", "res")
    if body is None:
        enc = b"%s-hdr=0, null-body=%d" % (kind.encode(), len(head))
    else:
        enc = b"%s-hdr=0, %s-body=%d" % (kind.encode(), kind.encode(), len(head))
    icap = b"ICAP/1.0 200 OK\r\nISTag: " + istag + b"\r\nServer: verif-icap\r\n" + (b"Connection: close\r\n" if conn_close else b"") + b"Encapsulated: " + enc + b"\r\n\r\n"
    parts = []
    last = b""
    if body is not None:
        pos = 0
        sizes = list(chunks or [])
        if len(body) > 8192:
            sizes = [max(sz, 512) for sz in sizes]      # keep the number of chunks (and the stub's CPU time) bounded
        i = 0
        while pos < len(body):
            sz = sizes[i % len(sizes)] if sizes else len(body)
            sz = max(1, min(sz, len(body) - pos))
            parts.append(b"%x\r\n" % sz)
            parts.append(body[pos:pos + sz])
            parts.append(b"\r\n")
            pos += sz
            i += 1
        last = b"0\r\n\r\n"
    return icap, head, b"".join(parts), last


class IcapServer:
    def __init__(self, plan_for, options_for=None, host="127.0.0.1"):
        self.plan_for = plan_for
        self.options_for = options_for or (lambda service: {"preview": None, "allow204": True})
        self.lock = threading.Lock()
        self.txs = []
        self.options_seen = 0
        self.conn_seq = itertools.count(1)
        self.stopping = False
        self.ls = socket.socket(socket.AF_INET, socket.SOCK_STREAM)
        self.ls.setsockopt(socket.SOL_SOCKET, socket.SO_REUSEADDR, 1)
        self.ls.bind((host, 0))
        self.ls.listen(256)
        self.port = self.ls.getsockname()[1]
        threading.Thread(target=self._accept, daemon=True).start()

    def stop(self):
        self.stopping = True
        try:
            self.ls.close()
        except OSError:
            pass

    def by_key(self, key):
        with self.lock:
            return [t for t in self.txs if t.key == key]

    # ------------------------------------------------------------------ plumbing
    def _accept(self):
        while not self.stopping:
            try:
                c, _ = self.ls.accept()
            except OSError:
                return
            c.setsockopt(socket.IPPROTO_TCP, socket.TCP_NODELAY, 1)
            threading.Thread(target=self._serve, args=(c, next(self.conn_seq)), daemon=True).start()

    @staticmethod
    def _rst(c):
        try:
            c.setsockopt(socket.SOL_SOCKET, socket.SO_LINGER, struct.pack("ii", 1, 0))
        except OSError:
            pass
        c.close()

    def _do_fault(self, c, tx, f, at):
        tx.fault_fired = at
        tx.effective = "fault:" + at
        tx.events.append((tick(), "fault", f["kind"], at))
        if f["kind"] == "stall":
            time.sleep(f.get("stall", 4.0))
            c.close()
        elif f["kind"] == "rst":
            self._rst(c)
        else:
            # orderly close: FIN, then drain what the peer still sends (closing with unread data would turn into a RST)
            try:
                c.shutdown(socket.SHUT_WR)
                c.settimeout(3)
                while c.recv(65536):
                    pass
            except OSError:
                pass
            c.close()

    def _send(self, c, tx, data, splits=None, delay=0.0):
        cuts = sorted(set(x for x in (splits or []) if 0 < x < len(data))) + [len(data)]
        pos = 0
        for cut in cuts:
            if cut <= pos:
                continue
            c.sendall(data[pos:cut])
            tx.sent += data[pos:cut]
            if data:
                tx.first_response_byte_sent = True
            pos = cut
            if delay and cut != len(data):
                time.sleep(delay)

    def _read_chunks(self, rd, tx, stop_at_zero=True):
        """read chunks up to and including a zero chunk; returns the extension string of the zero chunk"""
        while True:
            line = rd.until(b"\r\n")
            m = re.match(rb"([0-9A-Fa-f]+)\s*(;[^\r]*)?\r\n", line)
            if not m:
                raise Eof()
            n = int(m.group(1), 16)
            if n == 0:
                ext = m.group(2) or b""
                rd.until(b"\r\n")        # no trailers expected: the blank line
                return ext
            tx.body += rd.exact(n)
            if rd.exact(2) != b"\r\n":
                raise Eof()

    # ------------------------------------------------------------------ one connection
    def _serve(self, c, cid):
        c.settimeout(60)
        raw = bytearray()
        rd = Reader(c, raw)
        try:
            while True:
                try:
                    head = rd.until(b"\r\n\r\n")
                except Eof:
                    return
                lines = head[:-4].split(b"\r\n")
                sl = lines[0].split(b" ")
                tx = IcapTx()
                tx.cid = cid
                tx.method = sl[0].decode("latin1")
                tx.uri = sl[1].decode("latin1") if len(sl) > 1 else ""
                tx.service = "/" + tx.uri.split("://", 1)[-1].split("/", 1)[-1] if "/" in tx.uri.split("://", 1)[-1] else "/"
                tx.service = tx.service.split("?", 1)[0]
                for l in lines[1:]:
                    k, _, v = l.partition(b":")
                    tx.headers.append((k.decode("latin1"), v.strip().decode("latin1")))
                if tx.method == "OPTIONS":
                    o = self.options_for(tx.service)
                    with self.lock:
                        self.options_seen += 1
                    meth = b"REQMOD" if o.get("method") == "REQMOD" else b"RESPMOD"
                    resp = b"ICAP/1.0 200 OK\r\nMethods: " + meth + b'\r\nService: verif-icap\r\nISTag: "verif-1"\r\nEncapsulated: null-body=0\r\nMax-Connections: 1000\r\nOptions-TTL: 36000\r\n'
                    if o.get("allow204"):
                        resp += b"Allow: 204\r\n"
                    if o.get("preview") is not None:
                        resp += b"Preview: %d\r\nTransfer-Preview: *\r\n" % o["preview"]
                    resp += b"\r\n"
                    c.sendall(resp)
                    continue
                # ---- Encapsulated
                encv = tx.header("Encapsulated", "")
                for part in encv.split(","):
                    if "=" in part:
                        n, _, off = part.strip().partition("=")
                        tx.enc.append((n.strip(), int(off)))
                body_off = tx.enc[-1][1] if tx.enc else 0
                tx.has_body = bool(tx.enc) and tx.enc[-1][0] in ("req-body", "res-body")
                hdr_bytes = rd.exact(body_off)
                for i, (n, off) in enumerate(tx.enc[:-1]):
                    end = tx.enc[i + 1][1]
                    if n == "req-hdr":
                        tx.req_hdr = hdr_bytes[off:end]
                    elif n == "res-hdr":
                        tx.res_hdr = hdr_bytes[off:end]
                pv = tx.header("Preview")
                tx.preview = int(pv) if pv is not None else None
                tx.allow204 = "204" in [x.strip() for x in (tx.header("Allow", "") or "").split(",")]
                plan = self.plan_for(tx) or {"action": "204", "when": "after_all"}
                tx.plan = plan
                with self.lock:
                    self.txs.append(tx)
                f = plan.get("fault")
                if f and f["at"] in ("accepted", "after_head"):
                    self._do_fault(c, tx, f, f["at"])
                    return
                when = plan.get("when", "after_all")
                in_preview = False
                if tx.has_body and tx.preview is not None:
                    ext = self._read_chunks(rd, tx)
                    tx.preview_bytes = len(tx.body)
                    tx.ieof = b"ieof" in ext
                    in_preview = True
                    if tx.ieof:
                        tx.body_complete = True
                    if f and f["at"] == "after_preview":
                        self._do_fault(c, tx, f, "after_preview")
                        return
                elif f and f["at"] == "after_preview":
                    f = dict(f, at="after_all")
                if when == "preview" and not in_preview:
                    when = "after_all"
                respond_now = when == "early" or (when == "preview" and in_preview)
                if not respond_now and tx.has_body and not tx.body_complete:
                    if in_preview:
                        self._send(c, tx, b"ICAP/1.0 100 Continue\r\n\r\n")
                        tx.sent_100 = True
                        in_preview = False
                        if f and f["at"] == "after_100":
                            self._do_fault(c, tx, f, "after_100")
                            return
                    self._read_chunks(rd, tx)
                    tx.body_complete = True
                if f and f["at"] == "after_100":
                    f = dict(f, at="after_all")
                if f and f["at"] == "after_all":
                    self._do_fault(c, tx, f, "after_all")
                    return
                # ---- respond
                tx.wall_request_read = time.time()
                action = plan.get("action", "204")
                if action == "204" and not (in_preview or tx.allow204):
                    action = "200"          # a 204 here would violate RFC 3507: answer with the adapted message instead
                close_after = bool(plan.get("conn_close"))
                if action == "204":
                    tx.effective = "204"
                    self._send(c, tx, b'ICAP/1.0 204 No Content\r\nISTag: "verif-1"\r\n' + (b"Connection: close\r\n" if close_after else b"") + b"Encapsulated: null-body=0\r\n\r\n", plan.get("splits"))
                elif action == "error":
                    st = plan.get("status", 500)
                    tx.effective = "error:%d" % st
                    self._send(c, tx, b'ICAP/1.0 %d Verif Error\r\nISTag: "verif-1"\r\n' % st + (b"Connection: close\r\n" if close_after else b"") + b"Encapsulated: null-body=0\r\n\r\n", plan.get("splits"))
                elif action == "garbage":
                    tx.effective = "garbage"
                    self._send(c, tx, plan.get("garbage", b"SMTP 220 hello\r\n\r\n"))
                    c.close()
                    return
                else:
                    tx.effective = "200"
                    icap, hh, wire, last = serialize_icap_200(plan["adapted"], plan.get("chunks"), conn_close=close_after)
                    full = icap + hh + wire + last
                    cut = None
                    if f:
                        fr = f.get("frac", 0.5)
                        if f["at"] == "in_icap_head":
                            cut = max(1, int(len(icap) * fr))
                            cut = min(cut, len(icap) - 1)
                        elif f["at"] == "in_http_head":
                            cut = len(icap) + min(max(1, int(len(hh) * fr)), len(hh) - 1)
                        elif f["at"] == "in_body":
                            cut = len(icap) + len(hh) + int(len(wire) * fr)
                        elif f["at"] == "before_last_chunk":
                            cut = len(icap) + len(hh) + len(wire)
                    if cut is not None:
                        self._send(c, tx, full[:cut], plan.get("splits"))
                        tx.cut_at = cut
                        tx.cut_body_wire = max(0, cut - len(icap) - len(hh))
                        self._do_fault(c, tx, f, f["at"])
                        tx.effective = "200-cut:" + f["at"]
                        return
                    self._send(c, tx, full, plan.get("splits"), plan.get("delay", 0.0))
                tx.wall_response_done = time.time()
                tx.events.append((tick(), "responded", tx.effective))
                if close_after:
                    try:
                        c.shutdown(socket.SHUT_WR)
                        c.settimeout(3)
                        while c.recv(65536):
                            pass
                    except OSError:
                        pass
                    c.close()
                    return
                # answered before the whole request was read: drain the rest so the connection can be reused
                if tx.has_body and not tx.body_complete:
                    try:
                        if in_preview and not tx.ieof:
                            pass        # squid will not send more after a final answer inside the preview
                        elif not in_preview:
                            self._read_chunks(rd, tx)
                            tx.body_complete = True
                    except Eof:
                        return
        except (OSError, Eof, ValueError, IndexError):
            pass
        finally:
            try:
                c.close()
            except OSError:
                pass
