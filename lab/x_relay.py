"""Helpers shared by the relay checks C02/C03/C05/C06: start a Lab robustly while the build cache may be re-linked by a
concurrent `vbuild` (the squid binary disappears or is not executable for up to a minute; start-up is slow under load)."""
import os, time
from . import base
from .lab import Lab


def _binary_ready(path):
    try:
        st = os.stat(path)
    except OSError:
        return False
    return os.access(path, os.X_OK) and st.st_size > 1000000 and time.time() - st.st_mtime > 3.0


def start_lab(a, res, attempts=5, **kw):
    """Lab(a, res, **kw) with retries: a failed start (binary missing/being linked, port not opened in time) is a harness
    retry, not an event"""
    last = None
    path = f"{base.BUILD}/src/squid"
    for i in range(attempts):
        t0 = time.time()
        while not _binary_ready(path) and time.time() - t0 < 300:
            time.sleep(1.0)
        lab = None
        try:
            lab = Lab(a, res, start=False, **kw)
            lab.sq.start(timeout=90)
            return lab
        except (RuntimeError, OSError) as e:
            last = e
            if lab is not None:
                try:
                    lab.sq.stop(kill=True)
                except Exception:
                    pass
                lab.org.stop()
            time.sleep(3.0 + 5 * i)
    raise RuntimeError(f"squid did not start after {attempts} attempts: {last}")
