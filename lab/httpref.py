"""Strict RFC 9112 reference parsing of HTTP/1.x messages (used as the oracle's view of bytes on the wire).
Nothing here tolerates anything: bare LF, whitespace before colon, bad chunk syntax, CL+TE all raise Strict."""
import re

TCHAR = set(b"!#$%&'*+-.^_`|~0123456789abcdefghijklmnopqrstuvwxyzABCDEFGHIJKLMNOPQRSTUVWXYZ")


class Strict(Exception):
    pass


class Incomplete(Exception):
    pass


def parse_head(data, is_response):
    """data: bytes starting at a message. Returns (start tuple, [(name,value)], head_len). Raises Incomplete/Strict."""
    end = data.find(b"\r\n\r\n")
    if end < 0:
        # detect definite violations early? keep simple
        raise Incomplete()
    head = data[:end]
    lines = head.split(b"\r\n")
    for l in lines:
        if b"\n" in l or b"\r" in l:
            raise Strict("bare CR or LF in head")
        if b"\0" in l:
            raise Strict("NUL in head")
    sl = lines[0]
    if is_response:
        m = re.fullmatch(rb"HTTP/(\d)\.(\d) (\d{3}) ([\t \x21-\x7e\x80-\xff]*)", sl)
        if not m:
            raise Strict("bad status line %r" % sl[:60])
        start = (int(m.group(3)), m.group(4), (int(m.group(1)), int(m.group(2))))
    else:
        m = re.fullmatch(rb"([!#$%&'*+\-.^_`|~0-9A-Za-z]+) ([\x21-\x7e\x80-\xff]+) HTTP/(\d)\.(\d)", sl)
        if not m:
            raise Strict("bad request line %r" % sl[:60])
        start = (m.group(1), m.group(2), (int(m.group(3)), int(m.group(4))))
    hdrs = []
    for l in lines[1:]:
        if l[:1] in (b" ", b"\t"):
            raise Strict("obs-fold")
        c = l.find(b":")
        if c <= 0:
            raise Strict("no colon in field line %r" % l[:60])
        name = l[:c]
        if any(ch not in TCHAR for ch in name):
            raise Strict("bad field name %r" % name[:40])
        hdrs.append((name.decode("latin1"), l[c + 1:].strip(b" \t").decode("latin1")))
    return start, hdrs, end + 4


def get_all(hdrs, name):
    n = name.lower()
    return [v for k, v in hdrs if k.lower() == n]


def get(hdrs, name, default=None):
    v = get_all(hdrs, name)
    return v[0] if v else default


def framing(hdrs, is_response, status=None, req_method=None):
    """returns ('none'|'cl'|'chunked'|'close', length). Strict: CL+TE, differing CLs, bad CL, TE != chunked-last raise."""
    te = get_all(hdrs, "Transfer-Encoding")
    cl = get_all(hdrs, "Content-Length")
    if is_response:
        if req_method == "HEAD" or (status is not None and (status // 100 == 1 or status in (204, 304))):
            return ("none", 0)
        if req_method == "CONNECT" and status is not None and status // 100 == 2:
            return ("none", 0)
    if te and cl:
        raise Strict("both Transfer-Encoding and Content-Length")
    if te:
        codings = [c.strip().lower() for v in te for c in v.split(",")]
        if codings[-1] != "chunked" or codings.count("chunked") != 1:
            if is_response:
                return ("close", None)
            raise Strict("request Transfer-Encoding without final chunked")
        if codings != ["chunked"]:
            raise Strict("unsupported transfer codings %r" % codings)
        return ("chunked", None)
    if cl:
        vals = set()
        for v in cl:
            for p in v.split(","):
                p = p.strip()
                if not re.fullmatch(r"\d+", p):
                    raise Strict("bad Content-Length %r" % v)
                vals.add(int(p))
        if len(vals) != 1:
            raise Strict("conflicting Content-Length")
        return ("cl", vals.pop())
    return ("close", None) if is_response else ("none", 0)


def parse_chunked(data):
    """strict chunked-body parse of bytes. Returns (body, consumed, trailers). Raises Incomplete / Strict."""
    pos = 0
    body = bytearray()
    while True:
        e = data.find(b"\r\n", pos)
        if e < 0:
            if len(data) - pos > 4096:
                raise Strict("chunk-size line too long")
            if re.search(rb"[^0-9A-Fa-f;=\"\\ \t!#$%&'*+\-.^_`|~\w\r]", data[pos:]):
                raise Strict("bad chunk size line %r" % data[pos:pos + 40])
            raise Incomplete()
        line = data[pos:e]
        m = re.fullmatch(rb"([0-9A-Fa-f]+)((?:[ \t]*;[ \t]*[!#$%&'*+\-.^_`|~0-9A-Za-z]+(?:[ \t]*=[ \t]*(?:[!#$%&'*+\-.^_`|~0-9A-Za-z]+|\"(?:[^\"\\\r\n]|\\.)*\"))?)*)", line)
        if not m:
            raise Strict("bad chunk size line %r" % line[:60])
        size = int(m.group(1), 16)
        pos = e + 2
        if size == 0:
            # trailer section
            trailers = []
            while True:
                e = data.find(b"\r\n", pos)
                if e < 0:
                    raise Incomplete()
                l = data[pos:e]
                pos = e + 2
                if not l:
                    return bytes(body), pos, trailers
                c = l.find(b":")
                if c <= 0 or any(ch not in TCHAR for ch in l[:c]):
                    raise Strict("bad trailer line %r" % l[:60])
                trailers.append((l[:c].decode("latin1"), l[c + 1:].strip().decode("latin1")))
        if len(data) < pos + size + 2:
            # partial chunk data: whatever arrived is a body prefix
            got = data[pos:pos + size]
            raise IncompleteChunk(bytes(body) + got)
        body += data[pos:pos + size]
        if data[pos + size:pos + size + 2] != b"\r\n":
            raise Strict("chunk data not followed by CRLF")
        pos += size + 2


class IncompleteChunk(Incomplete):
    def __init__(self, prefix):
        self.prefix = prefix


def chunked_prefix(data):
    """best-effort decoded body prefix of an incomplete (but so far valid) chunked stream; raises Strict if invalid"""
    try:
        b, _, _ = parse_chunked(data)
        return b, True
    except IncompleteChunk as e:
        return e.prefix, False
    except Incomplete:
        # need to decode complete chunks so far
        pos = 0
        body = bytearray()
        while True:
            e = data.find(b"\r\n", pos)
            if e < 0:
                return bytes(body), False
            m = re.match(rb"([0-9A-Fa-f]+)", data[pos:e])
            if not m:
                return bytes(body), False
            size = int(m.group(1), 16)
            p2 = e + 2
            if size == 0:
                return bytes(body), False
            chunk = data[p2:p2 + size]
            body += chunk
            if len(chunk) < size or len(data) < p2 + size + 2:
                return bytes(body), False
            pos = p2 + size + 2


class Message:
    """one parsed message off a byte stream"""
    def __init__(self):
        self.start = None
        self.headers = []
        self.body = b""
        self.raw = b""
        self.framing = None
        self.complete = False       # satisfied its own framing
        self.error = None           # Strict text if the bytes are not valid HTTP
        self.closed = False         # stream ended (EOF/RST) while/after reading this message
        self.trailers = []
        self.head_len = 0
        self.consumed = 0

    @property
    def status(self):
        return self.start[0] if self.start else None

    def header(self, name, default=None):
        return get(self.headers, name, default)

    def header_all(self, name):
        return get_all(self.headers, name)


def parse_message(data, is_response, eof, req_method=None):
    """Parse ONE message from the start of data. eof: the stream ended after data.
    Returns Message with consumed bytes; msg.complete False + no error means 'need more' (or visibly truncated if eof)."""
    m = Message()
    m.closed = eof
    try:
        m.start, m.headers, m.head_len = parse_head(data, is_response)
    except Incomplete:
        m.raw = data
        return m
    except Strict as e:
        m.error = str(e)
        m.raw = data
        return m
    try:
        kind, length = framing(m.headers, is_response, m.start[0] if is_response else None, req_method)
    except Strict as e:
        m.error = str(e)
        m.raw = data
        return m
    m.framing = kind
    rest = data[m.head_len:]
    if kind == "none":
        m.complete = True
        m.consumed = m.head_len
    elif kind == "cl":
        m.body = rest[:length]
        if len(rest) >= length:
            m.complete = True
        m.consumed = m.head_len + min(len(rest), length)
    elif kind == "chunked":
        try:
            m.body, used, m.trailers = parse_chunked(rest)
            m.complete = True
            m.consumed = m.head_len + used
        except Incomplete:
            try:
                m.body, _ = chunked_prefix(rest)
            except Strict as e:
                m.error = str(e)
            m.consumed = len(data)
        except Strict as e:
            m.error = str(e)
            m.consumed = len(data)
    else:  # close-delimited
        m.body = rest
        m.consumed = len(data)
        m.complete = eof  # complete only by clean close; caller decides whether the close was clean
    m.raw = data[:m.consumed]
    return m
