"""Shared helpers of the cache-semantics lab checks (C11-C15, C20): reference Cache-Control list parsing,
header rendering noise, path/rid bookkeeping. Nothing here talks to squid."""
import re, threading

TOKEN_RE = re.compile(r"[!#$%&'*+\-.^_`|~0-9A-Za-z]+")


def path_of(req):
    """URL path of an origin-side request record (origin-form or absolute-form target)"""
    t = req.target
    if "://" in t:
        t = t.split("://", 1)[1]
        t = "/" + t.split("/", 1)[1] if "/" in t else "/"
    return t


def split_list(value):
    """RFC 9110 5.6.1 #rule split of one field value honouring quoted-strings; returns stripped non-empty members"""
    out, cur, q, esc = [], [], False, False
    for ch in value:
        if q:
            cur.append(ch)
            if esc:
                esc = False
            elif ch == "\\":
                esc = True
            elif ch == '"':
                q = False
        elif ch == '"':
            q = True
            cur.append(ch)
        elif ch == ",":
            out.append("".join(cur))
            cur = []
        else:
            cur.append(ch)
    out.append("".join(cur))
    return [x.strip(" \t") for x in out if x.strip(" \t")]


def parse_cc(values):
    """values: list of Cache-Control field values. Returns {directive-name-lower: [arg or None, ...]}.
    A member that is not token[=token|quoted-string] is kept under its raw text with key '?' (never a known directive)."""
    d = {}
    for v in values:
        for item in split_list(v):
            m = TOKEN_RE.match(item)
            if not m:
                d.setdefault("?", []).append(item)
                continue
            name = m.group(0).lower()
            rest = item[m.end():]
            if rest == "":
                d.setdefault(name, []).append(None)
            elif rest.startswith("="):
                arg = rest[1:]
                if len(arg) >= 2 and arg[0] == '"' and arg[-1] == '"':
                    arg = re.sub(r"\\(.)", r"\1", arg[1:-1])
                d.setdefault(name, []).append(arg)
            else:
                d.setdefault("?", []).append(item)
    return d


def rand_case(s, r):
    return "".join(ch.upper() if r.random() < 0.5 else ch.lower() for ch in s)


def render_list(r, items, name, noise=True):
    """distribute list members over 1..3 field lines of `name` with random separators/OWS/empty members/casing of the
    field name. Directive text itself is left to the caller."""
    if not items:
        return []
    nlines = 1 if not noise else r.choice([1, 1, 1, 2, 3])
    nlines = min(nlines, len(items))
    buckets = [[] for _ in range(nlines)]
    for i, it in enumerate(items):
        # keep order: contiguous split
        buckets[min(nlines - 1, i * nlines // len(items))].append(it)
    out = []
    for b in buckets:
        if not b:
            continue
        parts = list(b)
        if noise:
            for _ in range(r.choice([0, 0, 0, 1])):
                parts.insert(r.randrange(len(parts) + 1), "")
            sep = r.choice([",", ", ", ", ", " , ", ",\t", " ,"])
        else:
            sep = ", "
        v = sep.join(parts)
        out.append((rand_case(name, r) if noise else name, v))
    return out


_BODY_RID = re.compile(rb"^\[(r\d+)\]")


def body_rid(body):
    m = _BODY_RID.match(body or b"")
    return m.group(1).decode() if m else None


class RidBook:
    """rid -> info about the origin response that carried it"""
    def __init__(self):
        self.lock = threading.Lock()
        self.d = {}

    def add(self, resp, **info):
        info["resp"] = resp
        with self.lock:
            self.d[resp.rid] = info
        return resp

    def get(self, rid):
        with self.lock:
            return self.d.get(rid)


def liveness_conf():
    """squid.conf text injected by the validation protocol (liveness test: a misconfiguration that breaks the
    property, e.g. `refresh_pattern . 0 20% 4320 ignore-no-store`). Empty in normal runs."""
    import os
    return os.environ.get("VERIF_LIVENESS_CONF", "").replace("\\n", "\n") + "\n"
