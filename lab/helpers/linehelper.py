#!/usr/bin/python3
"""Line-protocol helper stub executed BY squid (as user nobody) for the e2e lab checks C46/C47.

usage: linehelper.py <config.json>

config keys (all optional except mode/log):
  mode        "rewrite" | "extacl" | "basic"
  log         path of the JSON-lines log this stub appends to (one os.write per record)
  seed        PRNG seed; every decision about one request derives from sha1(seed|request payload) or a
              PRNG seeded with (seed, helper pid start order is NOT used) so that it does not depend on timing
  concurrent  true => the first token of each request line is a channel id that is echoed in the reply
  max_latency seconds; per-request latency is PRNG in [0, max_latency]
  hold_prob   probability that a request gets a long latency hold_latency instead (keeps low channel ids busy)
  hold_latency seconds
  idsplit_prob   probability that a reply is written split INSIDE its channel id digits or right after them
  avoid_id_cuts  true => no write boundary ever falls inside or right after the channel id (the rest still fragments)
  frag_prob      probability that a reply is written in 2-4 PRNG fragments (anywhere in the line)
  pause       [lo, hi] seconds slept between the fragments of one reply
  crlf_prob   probability that a reply ends in CRLF instead of LF
  join_prob   probability that a due reply is written together with the following due reply in ONE write
  bogus_prob  probability that a reply is preceded (same write) by a reply on an unknown numeric channel
  dup_prob    probability that a reply is preceded (same write) by a second reply for an already answered channel
  reorder     true => replies are released by due time (out of order); false => strictly in request order
  fixed_latency  {substring: seconds}: exact latency for request payloads containing the substring (directed scenarios)
  port        origin port (rewrite mode builds absolute URLs from the request URL itself; unused)

Reply functions (the check recomputes nothing: it reads the logged reply of each request and, independently,
verifies that the reply names the request's own URL/key):
  rewrite: request payload "URL extras..." ; kind from sha1: 70% OK rewrite-url=<URL with /c47/ -> /rw/ + /<token>>,
           10% ERR, 10% OK (no change), 10% OK status=302 url=<URL with /c47/ -> /rd/ + /<token>>
  extacl:  payload "key ..." ; sha1 bit => "OK user=u<token>" or "ERR"
  basic:   payload "user password" (rfc1738-escaped); OK iff password == pw(user) (see pw()); else ERR
"""
import sys, os, json, time, threading, heapq, hashlib, random, urllib.parse


def H(*parts):
    return hashlib.sha1("|".join(str(p) for p in parts).encode()).hexdigest()


def token(url):
    return H("tok", url)[:10]


def pw(user):
    """the one valid password of a user (C46)"""
    return "pw-" + H("pw", user)[:8]


def main():
    cfg = json.load(open(sys.argv[1]))
    mode = cfg["mode"]
    seed = cfg.get("seed", 0)
    concurrent = bool(cfg.get("concurrent", True))
    logfd = os.open(cfg["log"], os.O_WRONLY | os.O_APPEND | os.O_CREAT, 0o666)
    pid = os.getpid()
    loglock = threading.Lock()
    t0 = time.time()

    def log(**kw):
        kw["pid"] = pid
        kw["wall"] = round(time.time(), 4)
        with loglock:
            os.write(logfd, (json.dumps(kw) + "\n").encode())

    log(ev="start", mode=mode, concurrent=concurrent)
    heap = []
    cv = threading.Condition()
    state = {"seq": 0, "eof": False, "answered": [], "inflight": 0}
    fifo_order = not cfg.get("reorder", True)

    def reply_for(payload):
        toks = payload.split(" ")
        if mode == "rewrite":
            url = toks[0]
            k = int(H(seed, "kind", url)[:4], 16) % 10
            if k < 7:
                u = url.replace("/c47/", "/rw/", 1) + "/" + token(url)
                q = '"' if int(H(seed, "q", url)[:2], 16) % 2 else ""
                return "OK rewrite-url=%s%s%s" % (q, u, q)
            if k == 7:
                return "ERR"
            if k == 8:
                return "OK"
            u = url.replace("/c47/", "/rd/", 1) + "/" + token(url)
            return 'OK status=302 url="%s"' % u
        if mode == "extacl":
            key = toks[0]
            if int(H(seed, "acl", key)[:4], 16) % 2:
                return "OK user=u%s" % token(key)
            return "ERR"
        if mode == "basic":
            user = urllib.parse.unquote(toks[0]) if toks else ""
            password = urllib.parse.unquote(toks[1]) if len(toks) > 1 else ""
            return "OK" if password == pw(user) else "ERR"
        return "BH message=\"bad mode\""

    def writer():
        r = random.Random("%s:%s:writer" % (seed, cfg.get("instance", 0)))
        while True:
            with cv:
                while True:
                    if heap:
                        due = heap[0][0]
                        now = time.time()
                        if due <= now:
                            break
                        cv.wait(min(0.5, due - now))
                    elif state["eof"]:
                        return
                    else:
                        cv.wait(0.5)
                items = [heapq.heappop(heap)]
                while heap and heap[0][0] <= time.time() and r.random() < cfg.get("join_prob", 0.3) and len(items) < 4:
                    items.append(heapq.heappop(heap))
            # one write group: the replies in items are concatenated; only the LAST one may be fragmented with pauses
            blob = b""
            recs = []
            for _, _, chan, payload, rep in items:
                pre = ""
                if concurrent:
                    if r.random() < cfg.get("bogus_prob", 0.0):
                        # an unknown channel: a huge number, channel 0 (never assigned while it was not seen in a request),
                        # or a reply whose channel-ID field is missing altogether (squid reads that as channel 0)
                        k = r.random()
                        if k < 0.5:
                            bid = r.randrange(1000000, 2000000000)
                            pre += "%d %s\n" % (bid, bogus_reply(payload, "bogus"))
                        elif k < 0.75 and 0 not in state.get("seen_ids", ()):
                            bid = 0
                            pre += "0 %s\n" % bogus_reply(payload, "bogus")
                        else:
                            bid = -1
                            pre += " %s\n" % bogus_reply(payload, "bogus")
                        recs.append({"ev": "bogus", "id": bid})
                    if state["answered"] and r.random() < cfg.get("dup_prob", 0.0):
                        did = r.choice(state["answered"])
                        pre += "%d %s\n" % (did, bogus_reply(payload, "dup"))
                        recs.append({"ev": "dup", "id": did})
                eol = "\r\n" if r.random() < cfg.get("crlf_prob", 0.0) else "\n"
                line = (("%s " % chan) if concurrent else "") + rep + eol
                recs.append({"ev": "reply", "id": chan, "payload": payload, "reply": rep, "pre": len(pre), "line": line})
                blob_start = len(blob) + len(pre)
                blob += (pre + line).encode()
            last = recs[-1]
            cuts = []
            chan_s = str(last["id"]) if concurrent else ""
            avoid = bool(cfg.get("avoid_id_cuts", False))
            if concurrent and not avoid and r.random() < cfg.get("idsplit_prob", 0.0):
                # inside the digits of a multi-digit id, or right after the last digit (before the space)
                cuts = [blob_start + r.randrange(1, len(chan_s) + 1)]
            elif r.random() < cfg.get("frag_prob", 0.0):
                n = r.choice([1, 1, 2, 3])
                first = blob_start + 1 + (len(chan_s) if (concurrent and avoid) else 0)
                cuts = sorted(set(r.randrange(first, len(blob)) for _ in range(n))) if len(blob) - first > 0 else []
            if concurrent and cuts and cuts[0] - blob_start <= len(chan_s):
                last["idsplit"] = cuts[0] - blob_start   # first write ends inside / right after the channel id digits
            frags = []
            pos = 0
            lo, hi = cfg.get("pause", [0.01, 0.04])
            for cut in cuts + [len(blob)]:
                if cut <= pos:
                    continue
                frags.append(blob[pos:cut].decode("latin1"))
                pos = cut
            last["frags"] = frags
            for rec in recs:
                if rec["ev"] == "reply":
                    rec["t_write"] = round(time.time(), 4)
                log(**rec)
            try:
                for i, f in enumerate(frags):
                    os.write(1, f.encode("latin1"))
                    if i + 1 < len(frags):
                        time.sleep(r.uniform(lo, hi))
            except OSError:
                return
            with cv:
                for rec in recs:
                    if rec["ev"] == "reply":
                        if concurrent:
                            state["answered"].append(rec["id"])
                            del state["answered"][:-50]
                        state["inflight"] -= 1
            log(ev="written", ids=[rec["id"] for rec in recs if rec["ev"] == "reply"])

    def bogus_reply(payload, what):
        if mode == "rewrite":
            url = payload.split(" ")[0]
            base_ = url.split("/c47/")[0] if "/c47/" in url else "http://127.0.0.1"
            return "OK rewrite-url=%s/bogus/%s" % (base_, what)
        if mode == "extacl":
            return "OK user=bogus-%s" % what
        return "OK"

    th = threading.Thread(target=writer, daemon=True)
    th.start()
    buf = b""
    while True:
        try:
            b = os.read(0, 65536)
        except OSError:
            b = b""
        if not b:
            break
        buf += b
        while b"\n" in buf:
            line, buf = buf.split(b"\n", 1)
            text = line.decode("latin1").rstrip("\r")
            chan = None
            payload = text
            if concurrent:
                sp = text.split(" ", 1)
                try:
                    chan = int(sp[0])
                except ValueError:
                    log(ev="badline", line=text)
                    continue
                payload = sp[1] if len(sp) > 1 else ""
            rr = random.Random("%s:lat:%s" % (seed, payload))
            if rr.random() < cfg.get("hold_prob", 0.0):
                lat = cfg.get("hold_latency", 1.0) * rr.uniform(0.7, 1.0)
            elif rr.random() < 0.2:
                lat = 0.0
            else:
                lat = rr.uniform(0.0, cfg.get("max_latency", 0.2))
            for sub, secs in (cfg.get("fixed_latency") or {}).items():
                if sub in payload:
                    lat = float(secs)     # directed scenarios: exact latency for payloads containing this substring
            rep = reply_for(payload)
            state.setdefault("seen_ids", set()).add(chan)
            log(ev="req", id=chan, payload=payload, latency=round(lat, 4))
            with cv:
                state["seq"] += 1
                state["inflight"] += 1
                due = time.time() + lat
                key = state["seq"] if fifo_order else due
                if fifo_order:
                    # strictly in request order, but still delayed: due time is monotone
                    due = max(due, state.get("last_due", 0.0))
                    state["last_due"] = due
                    key = due
                heapq.heappush(heap, (key, state["seq"], chan, payload, rep))
                cv.notify()
    with cv:
        state["eof"] = True
        cv.notify()
    th.join(timeout=5)
    log(ev="exit")


if __name__ == "__main__":
    main()
