"""Scriptable origin stub. Records exactly what it received and sent, on the lab's logical clock.
Every response gets a unique response id (rid) in a header and (for generated bodies) inside the body."""
import socket, threading, time, random, struct, itertools, email.utils
from . import httpref
from .base import tick

_rid = itertools.count(1)
_rid_lock = threading.Lock()


def new_rid():
    with _rid_lock:
        return "r%d" % next(_rid)


def make_body(rid, n):
    """rid-prefixed PRNG bytes, regenerable from (rid, n)"""
    if n <= 0:
        return b""
    pre = ("[" + rid + "]").encode()
    rest = random.Random("body:" + rid).randbytes(max(0, n - len(pre)))
    return (pre + rest)[:n]


def http_date(t=None):
    return email.utils.formatdate(time.time() if t is None else t, usegmt=True)


class Resp:
    def __init__(self, status=200, headers=None, body=None, length=None, framing="cl", reason=None, version="HTTP/1.1", **kw):
        self.status = status
        self.reason = reason if reason is not None else {200: "OK", 204: "No Content", 206: "Partial Content", 301: "Moved", 302: "Found", 304: "Not Modified",
                                                        404: "Not Found", 410: "Gone", 412: "Precondition Failed", 416: "Range Not Satisfiable", 500: "Internal Error", 503: "Unavailable"}.get(status, "Status")
        self.headers = list(headers or [])
        self.rid = kw.pop("rid", None) or new_rid()
        self.body = body if body is not None else make_body(self.rid, length if length is not None else 100)
        self.framing = framing           # 'cl' | 'chunked' | 'close' | 'none'
        self.version = version
        self.add_date = kw.pop("add_date", True)
        self.date = kw.pop("date", None)
        self.chunks = kw.pop("chunks", None)          # list of chunk sizes
        self.chunk_ext = kw.pop("chunk_ext", None)    # list of ext strings per chunk
        self.trailers = kw.pop("trailers", None)
        self.splits = kw.pop("splits", None)          # byte offsets where the serialized response is split into writes
        self.delay = kw.pop("delay", 0.0)             # seconds between writes
        self.delay_before = kw.pop("delay_before", 0.0)
        self.abort_at = kw.pop("abort_at", None)      # send only this many bytes, then end the connection
        self.abort_kind = kw.pop("abort_kind", "close")  # 'close' | 'rst'
        self.close_after = kw.pop("close_after", False)
        self.raw = kw.pop("raw", None)                # exact bytes instead of a serialized message
        self.declared_length = kw.pop("declared_length", None)  # lie in Content-Length
        self.interim = kw.pop("interim", None)        # list of raw 1xx heads to send first
        self.on_sent = kw.pop("on_sent", None)
        self.meta = kw

    def serialize(self, head_only=False):
        if self.raw is not None:
            return self.raw
        lines = ["%s %d %s" % (self.version, self.status, self.reason)]
        hs = list(self.headers)
        names = {k.lower() for k, _ in hs}
        if self.add_date and "date" not in names:
            hs.append(("Date", self.date or http_date()))
        hs.append(("X-Verif-Rid", self.rid))
        body = b"" if head_only else self.body
        wire = b""
        if self.framing == "cl":
            hs.append(("Content-Length", str(self.declared_length if self.declared_length is not None else len(self.body))))
            wire = body
        elif self.framing == "chunked":
            hs.append(("Transfer-Encoding", "chunked"))
            if not head_only:
                sizes = self.chunks or ([len(body)] if body else [])
                pos = 0
                i = 0
                for sz in sizes:
                    if pos >= len(body):
                        break
                    sz = max(1, min(sz, len(body) - pos))
                    ext = (self.chunk_ext[i % len(self.chunk_ext)] if self.chunk_ext else "")
                    wire += ("%x%s\r\n" % (sz, ext)).encode() + body[pos:pos + sz] + b"\r\n"
                    pos += sz
                    i += 1
                if pos < len(body):
                    wire += ("%x\r\n" % (len(body) - pos)).encode() + body[pos:] + b"\r\n"
                wire += b"0\r\n"
                for k, v in (self.trailers or []):
                    wire += ("%s: %s\r\n" % (k, v)).encode()
                wire += b"\r\n"
        elif self.framing == "close":
            hs.append(("Connection", "close"))
            wire = body
        else:
            wire = b""
        head = "\r\n".join(lines + ["%s: %s" % kv for kv in hs]) + "\r\n\r\n"
        return head.encode("latin1") + wire


class Origin:
    def __init__(self, handler=None, hosts=("127.0.0.1",), nports=1, backlog=256):
        self.handler = handler or (lambda req: Resp(404, length=10))
        self.on_accept = None       # fn(connrec) -> None | ('close',) | ('rst',) | ('read_close', k) | ('stall', secs) | ('read_all_close',) | ('read_all_rst',)
        self.events = []
        self.requests = []          # parsed request records in arrival order
        self.lock = threading.Lock()
        self.listeners = []
        self.ports = []
        self.conn_seq = itertools.count(1)
        self.stopping = False
        self.threads = []
        self.conns = []
        for h in hosts:
            for _ in range(nports):
                s = socket.socket(socket.AF_INET, socket.SOCK_STREAM)
                s.setsockopt(socket.SOL_SOCKET, socket.SO_REUSEADDR, 1)
                s.bind((h, 0))
                s.listen(backlog)
                self.listeners.append(s)
                self.ports.append(s.getsockname()[1])
                t = threading.Thread(target=self._accept, args=(s,), daemon=True)
                t.start()
                self.threads.append(t)
        self.port = self.ports[0]
        self.host = hosts[0]

    def log(self, ev, **kw):
        kw["ev"] = ev
        kw["t"] = tick()
        kw["wall"] = time.time()
        with self.lock:
            self.events.append(kw)
        return kw

    def _accept(self, ls):
        while not self.stopping:
            try:
                c, addr = ls.accept()
            except OSError:
                return
            cid = next(self.conn_seq)
            rec = {"cid": cid, "port": ls.getsockname()[1], "host": ls.getsockname()[0], "peer": addr, "raw_in": bytearray(), "raw_out": bytearray(), "nreq": 0, "closed": None}
            with self.lock:
                self.conns.append(rec)
            self.log("accept", cid=cid, port=rec["port"])
            t = threading.Thread(target=self._serve, args=(c, rec), daemon=True)
            t.start()

    @staticmethod
    def _rst(c):
        try:
            c.setsockopt(socket.SOL_SOCKET, socket.SO_LINGER, struct.pack("ii", 1, 0))
        except OSError:
            pass
        c.close()

    def _serve(self, c, rec):
        cid = rec["cid"]
        c.settimeout(60)
        buf = b""
        try:
            act = self.on_accept(rec) if self.on_accept else None
            if act:
                self.log("fault", cid=cid, action=act[0])
                if act[0] == "close":
                    c.close(); rec["closed"] = "origin"; return
                if act[0] == "rst":
                    self._rst(c); rec["closed"] = "origin-rst"; return
                if act[0] == "read_close" or act[0] == "read_rst":
                    want = act[1]
                    while len(buf) < want:
                        b = c.recv(min(65536, want - len(buf)))
                        if not b:
                            break
                        buf += b
                        rec["raw_in"] += b
                    self.log("partial_read", cid=cid, nbytes=len(buf), data=bytes(buf))
                    (self._rst if act[0] == "read_rst" else socket.socket.close)(c)
                    rec["closed"] = "origin"
                    return
                if act[0] == "stall":
                    time.sleep(act[1])
                    c.close(); rec["closed"] = "origin"; return
            while True:
                # ---- read one request head
                while True:
                    try:
                        start, hdrs, hl = httpref.parse_head(buf, False)
                        break
                    except httpref.Incomplete:
                        pass
                    except httpref.Strict as e:
                        self.log("bad_request", cid=cid, error=str(e), data=bytes(buf[:2000]))
                        rec["closed"] = "origin"
                        c.close()
                        return
                    b = c.recv(65536)
                    if not b:
                        if buf:
                            self.log("partial_request", cid=cid, data=bytes(buf))
                        rec["closed"] = "peer"
                        self.log("close", cid=cid, by="peer")
                        c.close()
                        return
                    buf += b
                    rec["raw_in"] += b
                req = httpref.Message()
                req.start, req.headers, req.head_len = start, hdrs, hl
                req.method = start[0].decode("latin1")
                req.target = start[1].decode("latin1")
                req.cid = cid
                req.port = rec["port"]
                req.host_ip = rec["host"]
                req.req_id = httpref.get(hdrs, "X-Verif-Req")
                req.raw_head = buf[:hl]
                req.seq_on_conn = rec["nreq"]
                rec["nreq"] += 1
                req.t_recv = tick()
                req.wall_recv = time.time()
                req.body_error = None
                req.body_complete = True
                req.raw_body_wire = b""
                rest = buf[hl:]
                try:
                    kind, length = httpref.framing(hdrs, False)
                except httpref.Strict as e:
                    kind, length = "invalid", None
                    req.body_error = str(e)
                req.framing = kind
                with self.lock:
                    self.requests.append(req)
                self.log("request_head", cid=cid, req_id=req.req_id, method=req.method, target=req.target)
                # handler may want to act before the body is read (100-continue etc.)
                resp = None
                pre = getattr(self.handler, "before_body", None)
                req.sock = c   # lets before_body() tune the socket (e.g. a small receive buffer for a slow reader)
                if pre:
                    r0 = pre(req)
                    if r0 is not None:
                        c.sendall(r0)
                        rec["raw_out"] += r0
                # ---- read request body
                if kind == "cl":
                    while len(rest) < length:
                        if getattr(req, "recv_pause", 0):
                            time.sleep(req.recv_pause)
                        b = c.recv(getattr(req, "recv_size", 65536))
                        if not b:
                            req.body_complete = False
                            break
                        rest += b
                        rec["raw_in"] += b
                    req.body = rest[:length]
                    req.raw_body_wire = rest[:length]
                    buf = rest[length:]
                elif kind == "chunked":
                    while True:
                        try:
                            # (a chunked message always ends in CRLF: do not re-parse megabytes after every read)
                            if len(rest) > 262144 and not rest.endswith(b"\r\n") and not getattr(c, "_eof", False):
                                raise httpref.Incomplete()
                            body, used, trailers = httpref.parse_chunked(rest)
                            req.body = body
                            req.trailers = trailers
                            req.raw_body_wire = rest[:used]
                            buf = rest[used:]
                            break
                        except httpref.Incomplete:
                            if getattr(req, "recv_pause", 0):
                                time.sleep(req.recv_pause)      # a slow reader (set by handler.before_body)
                            b = c.recv(getattr(req, "recv_size", 65536))
                            if not b:
                                req.body_complete = False
                                try:
                                    req.body, _ = httpref.chunked_prefix(rest)
                                except httpref.Strict as e:
                                    req.body_error = str(e)
                                    req.body = b""
                                req.raw_body_wire = rest
                                buf = b""
                                break
                            rest += b
                            rec["raw_in"] += b
                        except httpref.Strict as e:
                            req.body_error = str(e)
                            req.body = b""
                            req.raw_body_wire = rest
                            req.body_complete = False
                            buf = b""
                            break
                else:
                    req.body = b""
                    buf = rest
                req.t_body = tick()
                self.log("request", cid=cid, req_id=req.req_id, method=req.method, target=req.target, complete=req.body_complete)
                if not req.body_complete or req.body_error:
                    rec["closed"] = "peer" if not req.body_error else "origin"
                    self.log("close", cid=cid, by=rec["closed"], why="body incomplete/invalid")
                    c.close()
                    return
                # ---- respond
                resp = self.handler(req)
                req.resp = resp
                if resp is None:
                    rec["closed"] = "origin"
                    c.close()
                    return
                if resp.delay_before:
                    time.sleep(resp.delay_before)
                for ih in (resp.interim or []):
                    c.sendall(ih)
                    rec["raw_out"] += ih
                data = resp.serialize(head_only=(req.method == "HEAD"))
                if resp.abort_at is not None:
                    data = data[:resp.abort_at]
                cuts = sorted(set(x for x in (resp.splits or []) if 0 < x < len(data)))
                pos = 0
                req.t_resp_start = tick()
                req.wall_resp_start = time.time()
                try:
                    for cut in cuts + [len(data)]:
                        if cut > pos:
                            c.sendall(data[pos:cut])
                            rec["raw_out"] += data[pos:cut]
                            pos = cut
                            if resp.delay and cut != len(data):
                                time.sleep(resp.delay)
                except OSError as e:
                    self.log("send_error", cid=cid, req_id=req.req_id, error=str(e), sent=pos)
                    req.sent = pos
                    rec["closed"] = "peer"
                    c.close()
                    return
                req.sent = pos
                req.t_resp_done = tick()
                req.wall_resp_done = time.time()
                self.log("response_done", cid=cid, req_id=req.req_id, rid=resp.rid, status=resp.status, nbytes=pos)
                if resp.on_sent:
                    resp.on_sent(req)
                if resp.abort_at is not None:
                    if resp.abort_kind == "rst":
                        self._rst(c)
                    else:
                        c.close()
                    rec["closed"] = "origin-abort"
                    self.log("close", cid=cid, by="origin", why="abort")
                    return
                conn_close = any("close" in v.lower() for v in httpref.get_all(hdrs, "Connection"))
                if resp.framing == "close" or resp.close_after or conn_close or start[2] == (1, 0) or resp.raw is not None and resp.meta.get("raw_close", True):
                    try:
                        c.shutdown(socket.SHUT_WR)
                        # drain until peer closes so our close is clean (no RST on unread data)
                        c.settimeout(2)
                        while c.recv(65536):
                            pass
                    except OSError:
                        pass
                    c.close()
                    rec["closed"] = "origin"
                    self.log("close", cid=cid, by="origin")
                    return
        except (OSError, socket.timeout) as e:
            self.log("conn_error", cid=cid, error=repr(e))
            rec["closed"] = "error"
            try:
                c.close()
            except OSError:
                pass

    # ------------------------------------------------------------------ queries
    def seen(self, req_id):
        with self.lock:
            return [r for r in self.requests if r.req_id == req_id]

    def by_target(self, target):
        with self.lock:
            return [r for r in self.requests if r.target == target]

    def count(self):
        with self.lock:
            return len(self.requests)

    def stop(self):
        self.stopping = True
        for l in self.listeners:
            try:
                l.close()
            except OSError:
                pass
