/*
 * wkill.so -- LD_PRELOAD write interposer for the C16 crash-consistency check.
 *
 * Counts every write-family call (write, pwrite, pwrite64, writev, pwritev) that targets a file opened under one of the
 * cache directories, in ONE sequence shared by all processes of a squid instance (squid -N, SMP kids/diskers, diskd,
 * unlinkd: the preload is inherited through the environment), logs each counted write, and at the N-th one optionally
 * writes only a PRNG-chosen prefix and then SIGKILLs every process that registered itself plus the own process group.
 *
 * Environment:
 *   WKILL_PREFIX   colon-separated absolute path prefixes; files opened under them are "cache files"
 *   WKILL_COUNTER  counter file (8-byte little-endian counter at offset 0), serialised with lockf() + a process mutex
 *   WKILL_LOG      log file; one line per counted write; the fatal one ends with "(INJECTED)"
 *   WKILL_AT       N >= 1: kill at the N-th counted write; 0/unset: count only
 *   WKILL_PARTIAL  1: at write N first really write a PRNG-chosen strict prefix of the data (uniform / within the first 256 bytes / sector-aligned)
 *   WKILL_SEED     PRNG seed for the prefix length
 *   WKILL_DUMP     optional file: every counted write is appended as a record {n, wall time, offset, length, path tail, DATA}
 *                  (in sequence order, under the counter lock), so that the exact file state after any prefix of the write
 *                  sequence can be reconstructed offline
 * Side files: <counter>.pids (pids of all processes that loaded the library), <counter>.dead (created at the kill; a
 * process that is started with WKILL_AT>0 after that -- e.g. a kid revived by the SMP master -- exits at once).
 *
 * Cache-file descriptors are remembered at open()/openat()/creat() time by path (a per-write readlink of
 * /proc/self/fd was found to miss writes in the prototype), forgotten at close(), and followed through dup*().
 * Needs ASAN_OPTIONS=verify_asan_link_order=0 when the target is an ASan binary.
 */
#define _GNU_SOURCE
#include <dlfcn.h>
#include <errno.h>
#include <fcntl.h>
#include <pthread.h>
#include <signal.h>
#include <stdarg.h>
#include <stdint.h>
#include <stdio.h>
#include <stdlib.h>
#include <string.h>
#include <sys/types.h>
#include <sys/uio.h>
#include <time.h>
#include <unistd.h>

#define MAXFD 65536
#define MAXPFX 8

static unsigned char is_cache_fd[MAXFD];
static char fd_path[MAXFD][96]; /* tail of the path, for the log */

static ssize_t (*real_write)(int, const void *, size_t);
static ssize_t (*real_pwrite)(int, const void *, size_t, off_t);
static ssize_t (*real_pwrite64)(int, const void *, size_t, off64_t);
static ssize_t (*real_writev)(int, const struct iovec *, int);
static ssize_t (*real_pwritev)(int, const struct iovec *, int, off_t);
static int (*real_open)(const char *, int, ...);
static int (*real_open64)(const char *, int, ...);
static int (*real_openat)(int, const char *, int, ...);
static int (*real_openat64)(int, const char *, int, ...);
static int (*real_creat)(const char *, mode_t);
static int (*real_creat64)(const char *, mode_t);
static int (*real_close)(int);
static int (*real_dup)(int);
static int (*real_dup2)(int, int);
static int (*real_dup3)(int, int, int);

static const char *prefixes[MAXPFX];
static size_t prefix_len[MAXPFX];
static int nprefix;
static const char *counter_path, *log_path;
static uint64_t kill_at;
static int partial;
static uint64_t seed;
static int counter_fd = -1, log_fd = -1, dump_fd = -1;
static const char *dump_path;
static pid_t fds_pid;
static pthread_mutex_t mu = PTHREAD_MUTEX_INITIALIZER;
static int ready;

static void resolve(void)
{
    if (real_write)
        return;
    real_write = dlsym(RTLD_NEXT, "write");
    real_pwrite = dlsym(RTLD_NEXT, "pwrite");
    real_pwrite64 = dlsym(RTLD_NEXT, "pwrite64");
    real_writev = dlsym(RTLD_NEXT, "writev");
    real_pwritev = dlsym(RTLD_NEXT, "pwritev");
    real_open = dlsym(RTLD_NEXT, "open");
    real_open64 = dlsym(RTLD_NEXT, "open64");
    real_openat = dlsym(RTLD_NEXT, "openat");
    real_openat64 = dlsym(RTLD_NEXT, "openat64");
    real_creat = dlsym(RTLD_NEXT, "creat");
    real_creat64 = dlsym(RTLD_NEXT, "creat64");
    real_close = dlsym(RTLD_NEXT, "close");
    real_dup = dlsym(RTLD_NEXT, "dup");
    real_dup2 = dlsym(RTLD_NEXT, "dup2");
    real_dup3 = dlsym(RTLD_NEXT, "dup3");
}

static void side_path(char *out, size_t n, const char *suffix)
{
    snprintf(out, n, "%s%s", counter_path ? counter_path : "/tmp/wkill", suffix);
}

__attribute__((constructor)) static void wkill_init(void)
{
    resolve();
    const char *p = getenv("WKILL_PREFIX");
    counter_path = getenv("WKILL_COUNTER");
    log_path = getenv("WKILL_LOG");
    dump_path = getenv("WKILL_DUMP");
    const char *at = getenv("WKILL_AT");
    kill_at = at ? strtoull(at, NULL, 10) : 0;
    partial = getenv("WKILL_PARTIAL") && atoi(getenv("WKILL_PARTIAL")) > 0;
    seed = getenv("WKILL_SEED") ? strtoull(getenv("WKILL_SEED"), NULL, 10) : 1;
    if (p && *p) {
        char *copy = strdup(p);
        for (char *tok = strtok(copy, ":"); tok && nprefix < MAXPFX; tok = strtok(NULL, ":")) {
            prefixes[nprefix] = tok;
            prefix_len[nprefix] = strlen(tok);
            nprefix++;
        }
    }
    if (!counter_path || !nprefix)
        return; /* inert */
    char path[4096];
    if (kill_at) {
        side_path(path, sizeof(path), ".dead");
        if (access(path, F_OK) == 0)
            _exit(137); /* the instance has crashed already: nothing may run (or write) after the crash point */
    }
    side_path(path, sizeof(path), ".pids");
    int fd = real_open(path, O_WRONLY | O_APPEND | O_CREAT, 0666);
    if (fd >= 0) {
        char line[32];
        int n = snprintf(line, sizeof(line), "%d\n", (int)getpid());
        if (real_write(fd, line, n) < 0) {
        }
        real_close(fd);
    }
    ready = 1;
}

static int matches(const char *path)
{
    if (!ready || !path)
        return 0;
    for (int i = 0; i < nprefix; i++)
        if (strncmp(path, prefixes[i], prefix_len[i]) == 0)
            return 1;
    return 0;
}

static void remember(int fd, const char *path)
{
    if (fd < 0 || fd >= MAXFD)
        return;
    if (matches(path)) {
        size_t l = strlen(path);
        const char *tail = l >= sizeof(fd_path[0]) ? path + l - (sizeof(fd_path[0]) - 1) : path;
        snprintf(fd_path[fd], sizeof(fd_path[0]), "%s", tail);
        is_cache_fd[fd] = 1;
    } else {
        is_cache_fd[fd] = 0;
    }
}

static void open_side_files(void)
{
    /* (re)open per process: lockf() locks belong to the process, and a forked child must not share file offsets */
    if (counter_fd >= 0 && fds_pid == getpid())
        return;
    counter_fd = real_open(counter_path, O_RDWR | O_CREAT, 0666);
    log_fd = log_path ? real_open(log_path, O_WRONLY | O_APPEND | O_CREAT, 0666) : -1;
    dump_fd = (dump_path && *dump_path) ? real_open(dump_path, O_WRONLY | O_APPEND | O_CREAT, 0666) : -1;
    if (dump_fd >= 0 && dump_fd < MAXFD)
        is_cache_fd[dump_fd] = 0;
    fds_pid = getpid();
    /* keep them out of the way of the application's small descriptors and out of our own table */
    if (counter_fd >= 0 && counter_fd < MAXFD)
        is_cache_fd[counter_fd] = 0;
    if (log_fd >= 0 && log_fd < MAXFD)
        is_cache_fd[log_fd] = 0;
}

static uint64_t splitmix(uint64_t x)
{
    x += 0x9e3779b97f4a7c15ULL;
    x = (x ^ (x >> 30)) * 0xbf58476d1ce4e5b9ULL;
    x = (x ^ (x >> 27)) * 0x94d049bb133111ebULL;
    return x ^ (x >> 31);
}

static void die_now(void)
{
    char path[4096];
    side_path(path, sizeof(path), ".dead");
    int fd = real_open(path, O_WRONLY | O_CREAT, 0666);
    if (fd >= 0)
        real_close(fd);
    side_path(path, sizeof(path), ".pids");
    FILE *f = fopen(path, "r");
    if (f) {
        int pid;
        while (fscanf(f, "%d", &pid) == 1)
            if (pid > 1 && pid != (int)getpid())
                kill(pid, SIGKILL);
        fclose(f);
    }
    kill(0, SIGKILL);
    raise(SIGKILL);
    _exit(137);
}

/* Returns -1 when the write proceeds normally, else the number of bytes of the prefix to write before dying. */
struct dump_head {
    uint64_t magic, n;
    double wall;
    int64_t off;
    uint64_t len;
    char path[96];
};

static void dump_record(uint64_t n, int fd, long long off, const struct iovec *iov, int cnt, size_t len)
{
    struct dump_head h;
    struct timespec ts;
    memset(&h, 0, sizeof(h));
    h.magic = 0x574b494c4c445031ULL; /* "WKILLDP1" */
    h.n = n;
    clock_gettime(CLOCK_REALTIME, &ts);
    h.wall = (double)ts.tv_sec + ts.tv_nsec / 1e9;
    h.off = off >= 0 ? off : (long long)lseek(fd, 0, SEEK_CUR); /* O_APPEND files: the log-structured swap.state; see reader */
    h.len = len;
    snprintf(h.path, sizeof(h.path), "%s", fd_path[fd]);
    if (real_write(dump_fd, &h, sizeof(h)) < 0)
        return;
    for (int i = 0; i < cnt; i++)
        if (iov[i].iov_len && real_write(dump_fd, iov[i].iov_base, iov[i].iov_len) < 0)
            return;
}

static long long account(int fd, size_t len, long long off, const char *kind, const struct iovec *iov, int cnt)
{
    long long verdict = -1;
    pthread_mutex_lock(&mu);
    open_side_files();
    uint64_t n = 0;
    if (counter_fd >= 0) {
        while (lockf(counter_fd, F_LOCK, 0) != 0 && errno == EINTR) {
        }
        unsigned char b[8] = {0};
        if (pread(counter_fd, b, 8, 0) == 8)
            for (int i = 7; i >= 0; i--)
                n = (n << 8) | b[i];
        n++;
        for (int i = 0; i < 8; i++)
            b[i] = (unsigned char)(n >> (8 * i));
        if (real_pwrite(counter_fd, b, 8, 0) != 8) {
        }
        int fatal = kill_at && n == kill_at;
        long long pre = 0;
        if (fatal && partial && len > 0)
        {
            /* torn writes: a third uniform, a third within the first bytes of the buffer (record header written, its payload
             * barely started), a third at a 512-byte sector boundary */
            const uint64_t h = splitmix(seed ^ (n * 0x100000001b3ULL));
            const uint64_t h2 = splitmix(h ^ 0x9e3779b97f4a7c15ULL);
            switch (h % 3) {
            case 0: pre = (long long)(h2 % len); break;
            case 1: pre = (long long)(h2 % (len < 256 ? len : 256)); break;
            default: pre = len > 512 ? (long long)((h2 % (len / 512)) * 512) : (long long)(h2 % len); break;
            }
        }
        if (log_fd >= 0) {
            char line[320];
            int l = snprintf(line, sizeof(line), "%llu pid=%d %s fd=%d len=%zu off=%lld path=%s%s", (unsigned long long)n, (int)getpid(), kind, fd, len, off,
                             fd_path[fd], fatal ? "" : "\n");
            if (fatal)
                l += snprintf(line + l, sizeof(line) - l, " prefix=%lld (INJECTED)\n", partial ? pre : 0LL);
            if (real_write(log_fd, line, l) < 0) {
            }
        }
        if (dump_fd >= 0)
            dump_record(n, fd, off, iov, cnt, len);
        if (lockf(counter_fd, F_ULOCK, 0) != 0) {
        }
        if (fatal)
            verdict = partial ? pre : 0;
    }
    if (verdict < 0)
        pthread_mutex_unlock(&mu);
    /* on a fatal verdict the mutex stays locked: no other thread of this process may start another cache write */
    return verdict;
}

static int counted(int fd)
{
    return ready && fd >= 0 && fd < MAXFD && is_cache_fd[fd];
}

ssize_t write(int fd, const void *buf, size_t len)
{
    resolve();
    if (counted(fd)) {
        struct iovec one = {(void *)buf, len};
        long long v = account(fd, len, -1, "write", &one, 1);
        if (v >= 0) {
            if (v > 0 && real_write(fd, buf, (size_t)v) < 0) {
            }
            die_now();
        }
    }
    return real_write(fd, buf, len);
}

ssize_t pwrite(int fd, const void *buf, size_t len, off_t off)
{
    resolve();
    if (counted(fd)) {
        struct iovec one = {(void *)buf, len};
        long long v = account(fd, len, (long long)off, "pwrite", &one, 1);
        if (v >= 0) {
            if (v > 0 && real_pwrite(fd, buf, (size_t)v, off) < 0) {
            }
            die_now();
        }
    }
    return real_pwrite(fd, buf, len, off);
}

ssize_t pwrite64(int fd, const void *buf, size_t len, off64_t off)
{
    resolve();
    if (counted(fd)) {
        struct iovec one = {(void *)buf, len};
        long long v = account(fd, len, (long long)off, "pwrite64", &one, 1);
        if (v >= 0) {
            if (v > 0 && real_pwrite64(fd, buf, (size_t)v, off) < 0) {
            }
            die_now();
        }
    }
    return real_pwrite64(fd, buf, len, off);
}

static size_t iov_total(const struct iovec *iov, int cnt)
{
    size_t t = 0;
    for (int i = 0; i < cnt; i++)
        t += iov[i].iov_len;
    return t;
}

static void write_iov_prefix(int fd, const struct iovec *iov, int cnt, long long pre, long long off)
{
    for (int i = 0; i < cnt && pre > 0; i++) {
        size_t k = iov[i].iov_len < (size_t)pre ? iov[i].iov_len : (size_t)pre;
        ssize_t r = off >= 0 ? real_pwrite(fd, iov[i].iov_base, k, (off_t)off) : real_write(fd, iov[i].iov_base, k);
        if (r < 0)
            return;
        if (off >= 0)
            off += r;
        pre -= (long long)k;
    }
}

ssize_t writev(int fd, const struct iovec *iov, int cnt)
{
    resolve();
    if (counted(fd)) {
        long long v = account(fd, iov_total(iov, cnt), -1, "writev", iov, cnt);
        if (v >= 0) {
            write_iov_prefix(fd, iov, cnt, v, -1);
            die_now();
        }
    }
    return real_writev(fd, iov, cnt);
}

ssize_t pwritev(int fd, const struct iovec *iov, int cnt, off_t off)
{
    resolve();
    if (counted(fd)) {
        long long v = account(fd, iov_total(iov, cnt), (long long)off, "pwritev", iov, cnt);
        if (v >= 0) {
            write_iov_prefix(fd, iov, cnt, v, (long long)off);
            die_now();
        }
    }
    return real_pwritev(fd, iov, cnt, off);
}

#define OPEN_MODE()                           \
    mode_t mode = 0;                          \
    if (flags & (O_CREAT | O_TMPFILE)) {      \
        va_list ap;                           \
        va_start(ap, flags);                  \
        mode = (mode_t)va_arg(ap, int);       \
        va_end(ap);                           \
    }

int open(const char *path, int flags, ...)
{
    resolve();
    OPEN_MODE();
    int fd = real_open(path, flags, mode);
    remember(fd, path);
    return fd;
}

int open64(const char *path, int flags, ...)
{
    resolve();
    OPEN_MODE();
    int fd = real_open64(path, flags, mode);
    remember(fd, path);
    return fd;
}

int openat(int dirfd, const char *path, int flags, ...)
{
    resolve();
    OPEN_MODE();
    int fd = real_openat(dirfd, path, flags, mode);
    remember(fd, path); /* squid opens cache files by absolute path; a relative one never matches a prefix */
    return fd;
}

int openat64(int dirfd, const char *path, int flags, ...)
{
    resolve();
    OPEN_MODE();
    int fd = real_openat64(dirfd, path, flags, mode);
    remember(fd, path);
    return fd;
}

int creat(const char *path, mode_t mode)
{
    resolve();
    int fd = real_creat(path, mode);
    remember(fd, path);
    return fd;
}

int creat64(const char *path, mode_t mode)
{
    resolve();
    int fd = real_creat64(path, mode);
    remember(fd, path);
    return fd;
}

int close(int fd)
{
    resolve();
    if (fd >= 0 && fd < MAXFD)
        is_cache_fd[fd] = 0;
    return real_close(fd);
}

static void copy_mark(int from, int to)
{
    if (to < 0 || to >= MAXFD)
        return;
    if (from >= 0 && from < MAXFD && is_cache_fd[from]) {
        is_cache_fd[to] = 1;
        memcpy(fd_path[to], fd_path[from], sizeof(fd_path[0]));
    } else {
        is_cache_fd[to] = 0;
    }
}

int dup(int fd)
{
    resolve();
    int r = real_dup(fd);
    copy_mark(fd, r);
    return r;
}

int dup2(int fd, int to)
{
    resolve();
    int r = real_dup2(fd, to);
    if (r >= 0 && fd != to)
        copy_mark(fd, r);
    return r;
}

int dup3(int fd, int to, int flags)
{
    resolve();
    int r = real_dup3(fd, to, flags);
    if (r >= 0)
        copy_mark(fd, r);
    return r;
}
