#!/usr/bin/python3
"""Regenerate /verif/MANIFEST.json from bin/checks.json (single source of truth for claimed checks).
Every property in properties.jsonl that is not claimed is listed under not_applicable with its reason."""
import json, os, sys
V = os.path.dirname(os.path.dirname(os.path.abspath(__file__)))
props = [json.loads(l) for l in open(f"{V}/properties.jsonl")]
spec = json.load(open(f"{V}/bin/checks.json"))
checks = []
claimed = set()
for c in spec["checks"]:
    pid = c["id"]
    claimed.add(pid)
    e = {
        "property_id": pid,
        "quick_cmd": f"bin/vcheck {pid} --tier quick",
        "thorough_cmd": f"bin/vcheck {pid} --tier thorough",
        "evidence_file": f"/verif/evidence/{pid}.json",
        "replay_cmd_template": f"bin/vcheck {pid} --replay {{path}}",
        "engine": c["engine"],
        "level_claimed": {"category": c.get("level", "exploration"), "text": c["text"], "design_ref": c.get("design_ref", "5")},
        "level_note": c["note"],
        "technique": c["technique"],
    }
    checks.append(e)
na = []
for p in props:
    if p["id"] not in claimed:
        na.append({"property_id": p["id"], "reason": spec.get("unclaimed", {}).get(p["id"], spec["default_unclaimed_reason"])})
m = {
    "version": 1,
    "setup_cmd": "bin/vsetup",
    "hooks": spec["hooks"],
    "engines": spec["engines"],
    "checks": checks,
    "notes": spec["notes"],
    "not_applicable": na,
}
json.dump(m, open(f"{V}/MANIFEST.json", "w"), indent=1)
print(f"MANIFEST.json: {len(checks)} checks, {len(na)} unclaimed")
