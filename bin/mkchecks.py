#!/usr/bin/python3
"""merge harness/meta/*.json and lab/meta/*.json into bin/checks.json (checks list), keeping hooks/engines/notes"""
import json, glob, os
V = os.path.dirname(os.path.dirname(os.path.abspath(__file__)))
p = f"{V}/bin/checks.json"
s = json.load(open(p))
approved = set(open(f"{V}/bin/approved.txt").read().split())
by = {}
for f in sorted(glob.glob(f"{V}/harness/meta/C*.json") + glob.glob(f"{V}/lab/meta/C*.json")):
    c = json.load(open(f))
    if c["id"] not in approved:
        continue
    if c.get("disabled"):
        by.pop(c["id"], None)
        continue
    by[c["id"]] = c
s["checks"] = [by[k] for k in sorted(by)]
for e in s["engines"]:
    e["serves_properties"] = [c["id"] for c in s["checks"] if c["engine"] == e["name"]]
json.dump(s, open(p, "w"), indent=1)
print(len(s["checks"]), "checks")
