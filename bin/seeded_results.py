#!/usr/bin/python3
"""Collects the outcome of running the checks against every seeded change (bin/vmutate output files given as
arguments, later files override earlier ones) into seeded/<id>/meta.json ("verif") and seeded/RESULTS.md."""
import json, re, sys, glob, os
V = os.path.dirname(os.path.dirname(os.path.abspath(__file__)))
res = {}
extra = {}
for f in sys.argv[1:]:
    cur = None
    cross = False
    for l in open(f, errors="replace"):
        m = re.match(r"== (C\d+(?:-\d+)?)( with C\d+)?", l)
        if m:
            cur = m.group(1); cross = bool(m.group(2)); continue
        m = re.match(r"(C\d+) rc=(\d+) (\d+) violation line\(s\); keys:(.*)", l)
        if m:
            keys = sorted(set(k.strip() for k in re.findall(r"key=(\S+)", m.group(4))))
            rec = {"check": m.group(1), "rc": int(m.group(2)), "violation_lines": int(m.group(3)), "keys": keys, "source": os.path.basename(f)}
            if cross:
                extra.setdefault(cur, {})[m.group(1)] = rec      # another property's check run against this change
            else:
                res[cur or m.group(1)] = rec
rows = []
for d in sorted(glob.glob(f"{V}/seeded/C*")):
    sid = os.path.basename(d)
    mp = f"{d}/meta.json"
    if not os.path.exists(mp):
        continue
    meta = json.load(open(mp))
    conf = json.load(open(f"{d}/confirm.json")) if os.path.exists(f"{d}/confirm.json") else {}
    r = res.get(sid)
    notes_path = f"{d}/verif_note.txt"
    note = open(notes_path).read().strip() if os.path.exists(notes_path) else ""
    meta["confirmed_by_main"] = conf
    if r:
        meta["verif"] = {"ran": f"bin/vmutate seeded/{sid}/patch.diff {r['check']} (quick tier, VERIF_SEED=1, scratch copy of /repo HEAD + patch)", "caught": r["rc"] == 1, "rc": r["rc"], "violation_keys": r["keys"], "note": note}
        if sid in extra:
            meta["verif"]["other_checks"] = {k: {"caught": v["rc"] == 1, "violation_keys": v["keys"]} for k, v in extra[sid].items()}
    json.dump(meta, open(mp, "w"), indent=1)
    rows.append((sid, meta.get("property", sid), meta.get("summary", "")[:150].replace("|", "/"), meta.get("needs", "")[:130].replace("|", "/"),
                 "yes" if conf.get("confirmed") else ("partly" if conf else "n/a"),
                 ("CAUGHT" if r and r["rc"] == 1 else ("missed" if r and r["rc"] == 0 else ("rc=%s" % r["rc"] if r else "not run"))),
                 ", ".join(r["keys"][:3]) if r else "", note))
with open(f"{V}/seeded/RESULTS.md", "w") as f:
    f.write("# Seeded changes (produced by independent sub-agents from the property text only) and what the checks made of them\n\n")
    f.write("Each row: a change to squid-cache/squid that breaks the property, compiles and passes the pinned unit tests; confirmed = re-built, unit-tested and demonstrated by bin/vconfirm; result = quick tier of the property's check run against /repo HEAD + patch (bin/vmutate).\n\n")
    f.write("| id | change | needs | confirmed | check result | violation keys | note |\n|---|---|---|---|---|---|---|\n")
    for r in rows:
        f.write("| " + " | ".join(r) + " |\n")
    caught = sum(1 for r in rows if r[5] == "CAUGHT"); ran = sum(1 for r in rows if r[5] in ("CAUGHT", "missed"))
    f.write(f"\n{caught} of {ran} run so far were caught by the quick tier.\n")
print(len(rows), "seeded changes;", sum(1 for r in rows if r[5] == "CAUGHT"), "caught")
