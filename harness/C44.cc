// C44 Access lists decide by first match, even when checks go asynchronous.
// Differential oracle: real "acl" parsing (Acl::Node::ParseNamedAcl incl. all-of/any-of groups),
// real aclParseAccessLine() rule lists, real ACLFilledChecklist::nonBlockingCheck()/fastCheck() over a
// synthetic leaf ACL type whose match() is scripted per check (truth value; synchronous, or
// goAsync() + later resumeNonBlockingCheck() from a PRNG-ordered completion queue shared by several
// checklists in flight) against a 20-line first-match evaluator.
#include "squid.h"
#include "vh.h"
#include "acl/Acl.h"
#include "acl/Checklist.h"
#include "acl/FilledChecklist.h"
#include "acl/Gadgets.h"
#include "acl/Node.h"
#include "acl/Tree.h"
#include "cache_cf.h"
#include "cbdata.h"
#include "ConfigParser.h"
#include "debug/Stream.h"
#include "globals.h"
#include "SquidConfig.h"

#include <algorithm>
#include <memory>

using vh::Ctx;
using vh::Rng;

namespace {

const int MaxLeaves = 6;

// per-check script and observations; found by the synthetic ACL through the checklist address
struct Check {
    bool truth[MaxLeaves] = {};
    int mode[MaxLeaves] = {};      // 0 sync; 1 async on first evaluation (answer cached afterwards);
                                   // 2 async at every new evaluation location (nothing cached);
                                   // 3 "lookup" completes inside the starter (resume before goAsync() returns)
    bool resolved[MaxLeaves] = {};
    long evals = 0, asyncStarts = 0, resumes = 0, refusedAsync = 0;
    int answers = 0;
    int answer = -1;               // aclMatchCode of the delivered answer
    bool fast = false;
};

struct Pending { ACLFilledChecklist *cl; int idx; };

std::map<const ACLChecklist *, Check *> g_checks;
std::vector<Pending> g_pending;

class SynAcl : public Acl::Node
{
    MEMPROXY_CLASS(SynAcl);

public:
    SynAcl() {}
    /* Acl::Node API */
    char const *typeString() const override { return "verif-syn"; }
    void parse() override {
        while (const char *t = ConfigParser::strtokFile()) { idx = atoi(t); configured = true; }
    }
    SBufList dump() const override { SBufList l; l.push_back(SBuf(std::to_string(idx).c_str())); return l; }
    bool empty() const override { return !configured; }

    static void Start(ACLFilledChecklist &cl, const Acl::Node &acl) {
        const int i = static_cast<const SynAcl &>(acl).idx;
        Check &c = *g_checks.at(&cl);
        ++c.asyncStarts;
        if (c.mode[i] == 3) {          // answer already available: the "callback" runs before the starter returns
            c.resolved[i] = true;
            cl.resumeNonBlockingCheck();
            return;
        }
        g_pending.push_back({&cl, i});
    }

    int idx = 0;
    bool configured = false;

private:
    int match(ACLChecklist *cl) override {
        Check &c = *g_checks.at(cl);
        ++c.evals;
        if (c.mode[idx] != 0 && !c.resolved[idx]) {
            if (cl->goAsync(Start, *this))
                return -1;             // suspended; we are called again after resumeNonBlockingCheck()
            if (!c.resolved[idx]) ++c.refusedAsync; // fast check or async-loop guard: answer from what we know
        }
        if (c.mode[idx] == 2) c.resolved[idx] = false;
        return c.truth[idx] ? 1 : 0;
    }
    bool requiresRequest() const override { return false; }
};

class Sink // completion callback data: must be cbdata
{
    CBDATA_CLASS(Sink);

public:
    Sink() {}
    Check *check = nullptr;
};
CBDATA_CLASS_INIT(Sink);

void Done(Acl::Answer a, void *data) {
    Sink *s = static_cast<Sink *>(data);
    ++s->check->answers;
    s->check->answer = (int)a.code;
}

// case text ---------------------------------------------------------------------------------
//   seed <n>                completion-order seed
//   leaves <n>              synthetic leaf ACLs A0..A<n-1>
//   batch <n>               checklists started before completions are delivered
//   acl <name> all-of|any-of <[!]name>...
//   access allow|deny <[!]name>...
//   check <truth bits> <mode digits>       one non-blocking check (one character per leaf)
//   checkall <k>            every truth assignment x every mode assignment over modes 0..k-1
//   fast <truth bits>       fastCheck() with all leaves synchronous
//   fastall                 fastCheck() for every truth assignment
struct Lit { std::string name; bool neg; };
struct Group { std::string name; bool any; std::vector<Lit> lits; };
struct Rule { bool allow; std::vector<Lit> lits; };
struct Case {
    uint64_t seed = 1; int leaves = 0; int batch = 1;
    std::vector<Group> groups; std::vector<Rule> rules;
    std::vector<std::string> confLines; // verbatim "acl ..." / "access ..." lines in order
    std::vector<Check> checks;
    bool zeroAclRule = false;
};

std::vector<std::string> words(const std::string &s) {
    std::vector<std::string> r; size_t i = 0;
    while (i < s.size()) { while (i < s.size() && (s[i] == ' ' || s[i] == '\t')) ++i; size_t j = i; while (j < s.size() && s[j] != ' ' && s[j] != '\t') ++j; if (j > i) r.push_back(s.substr(i, j - i)); i = j; }
    return r;
}

bool validName(const Case &c, const std::string &n) {
    if (n.size() == 2 && n[0] == 'A' && n[1] >= '0' && n[1] < '0' + c.leaves) return true;
    for (const auto &g : c.groups) if (g.name == n) return true;
    return false;
}

bool readLits(const Case &c, const std::vector<std::string> &w, size_t from, std::vector<Lit> &out) {
    for (size_t i = from; i < w.size(); ++i) {
        Lit l{w[i], false};
        if (l.name[0] == '!') { l.neg = true; l.name = l.name.substr(1); }
        if (!validName(c, l.name)) return false; // unknown names make squid self_destruct
        out.push_back(l);
    }
    return true;
}

bool dec(const std::string &w, Case &c) {
    size_t i = 0;
    while (i < w.size()) {
        auto j = w.find('\n', i); if (j == std::string::npos) j = w.size();
        const std::string line = w.substr(i, j - i); i = j + 1;
        const auto ws = words(line);
        if (ws.empty()) continue;
        if (ws[0] == "seed" && ws.size() == 2) c.seed = strtoull(ws[1].c_str(), nullptr, 10);
        else if (ws[0] == "leaves" && ws.size() == 2) { c.leaves = atoi(ws[1].c_str()); if (c.leaves < 0 || c.leaves > MaxLeaves) return false; }
        else if (ws[0] == "batch" && ws.size() == 2) { c.batch = atoi(ws[1].c_str()); if (c.batch < 1 || c.batch > 64) return false; }
        else if (ws[0] == "acl" && ws.size() >= 4 && (ws[2] == "all-of" || ws[2] == "any-of")) {
            Group g{ws[1], ws[2] == "any-of", {}};
            if (g.name.size() != 2 || g.name[0] != 'G' || !isdigit((unsigned char)g.name[1]) || validName(c, g.name)) return false; // one line per group
            if (!readLits(c, ws, 3, g.lits)) return false;
            c.groups.push_back(g); c.confLines.push_back(line);
        } else if (ws[0] == "access" && ws.size() >= 2 && (ws[1] == "allow" || ws[1] == "deny")) {
            Rule r{ws[1] == "allow", {}};
            if (!readLits(c, ws, 2, r.lits)) return false;
            if (r.lits.empty()) c.zeroAclRule = true;
            c.rules.push_back(r); c.confLines.push_back(line);
        } else if ((ws[0] == "check" && ws.size() == 3) || (ws[0] == "fast" && ws.size() == 2)) {
            Check k; k.fast = ws[0] == "fast";
            if ((int)ws[1].size() != c.leaves || (!k.fast && (int)ws[2].size() != c.leaves)) return false;
            for (int l = 0; l < c.leaves; ++l) {
                k.truth[l] = ws[1][l] == '1';
                k.mode[l] = k.fast ? 0 : ws[2][l] - '0';
                if (k.mode[l] < 0 || k.mode[l] > 3) return false;
            }
            c.checks.push_back(k);
        } else if ((ws[0] == "checkall" && ws.size() == 2) || ws[0] == "fastall") {
            const bool fast = ws[0] == "fastall";
            const int k = fast ? 1 : atoi(ws[1].c_str());
            if (k < 1 || k > 4 || c.leaves > 4) return false;
            long nm = 1; for (int l = 0; l < c.leaves; ++l) nm *= k;
            for (long t = 0; t < (1L << c.leaves); ++t) for (long m = 0; m < nm; ++m) {
                Check q; q.fast = fast; long mm = m;
                for (int l = 0; l < c.leaves; ++l) { q.truth[l] = (t >> l) & 1; q.mode[l] = (int)(mm % k); mm /= k; }
                c.checks.push_back(q);
            }
        } else return false;
        if (c.checks.size() > 5000) return false;
    }
    return true;
}

// reference ----------------------------------------------------------------------------------
bool evalName(const Case &c, const Check &k, const std::string &n, int depth = 0);
bool evalLit(const Case &c, const Check &k, const Lit &l, int depth) { return evalName(c, k, l.name, depth) != l.neg; }
bool evalName(const Case &c, const Check &k, const std::string &n, int depth) {
    if (n[0] == 'A') return k.truth[n[1] - '0'];
    for (const auto &g : c.groups) if (g.name == n) {
        if (g.any) { for (const auto &l : g.lits) if (evalLit(c, k, l, depth + 1)) return true; return false; }
        for (const auto &l : g.lits) if (!evalLit(c, k, l, depth + 1)) return false;
        return true;
    }
    return false;
}
// returns aclMatchCode; *winner = index of the deciding rule or -1 (implicit / empty)
int refDecision(const Case &c, const Check &k, int *winner) {
    *winner = -1;
    for (size_t r = 0; r < c.rules.size(); ++r) {
        bool all = true;
        for (const auto &l : c.rules[r].lits) if (!evalLit(c, k, l, 0)) { all = false; break; }
        if (all) { *winner = (int)r; return c.rules[r].allow ? ACCESS_ALLOWED : ACCESS_DENIED; }
    }
    if (c.rules.empty()) return ACCESS_DUNNO;                       // neither allow nor deny
    return c.rules.back().allow ? ACCESS_DENIED : ACCESS_ALLOWED;   // opposite of the last rule
}

const char *codeName(int c) { return c == ACCESS_ALLOWED ? "ALLOWED" : c == ACCESS_DENIED ? "DENIED" : c == ACCESS_DUNNO ? "DUNNO" : c == ACCESS_AUTH_REQUIRED ? "AUTH_REQUIRED" : "none"; }

// generator ------------------------------------------------------------------------------------
std::string genLits(Rng &r, const std::vector<std::string> &names, size_t n) {
    std::string s;
    for (size_t i = 0; i < n; ++i) { s += " "; if (r.chance(1, 3)) s += "!"; s += names[r.below(names.size())]; }
    return s;
}

std::string gen(Rng &r) {
    std::string w = "seed " + std::to_string(r.below(1000000)) + "\n";
    const int leaves = 1 + (int)r.below(MaxLeaves);
    w += "leaves " + std::to_string(leaves) + "\n";
    w += "batch " + std::to_string(r.chance(1, 3) ? 1 : 1 + r.below(6)) + "\n";
    std::vector<std::string> names;
    for (int i = 0; i < leaves; ++i) names.push_back("A" + std::to_string(i));
    const int ng = r.chance(1, 2) ? 0 : 1 + (int)r.below(3);
    for (int g = 0; g < ng; ++g) {
        const std::string n = "G" + std::to_string(g);
        w += "acl " + n + (r.coin() ? " all-of" : " any-of") + genLits(r, names, 1 + r.below(3)) + "\n";
        names.push_back(n); // later groups and rules may use it
    }
    const int nr = r.chance(1, 30) ? 0 : 1 + (int)r.below(6);
    for (int i = 0; i < nr; ++i)
        w += std::string("access ") + (r.coin() ? "allow" : "deny") + genLits(r, names, r.chance(1, 150) ? 0 : 1 + r.below(4)) + "\n";
    const int nc = 1 + (int)r.below(8);
    const int style = (int)r.below(5); // 0: all sync, 1: modes 0/1, 2: all async, 3: any mode, 4: mostly mode 2/3
    for (int i = 0; i < nc; ++i) {
        std::string t, m;
        for (int l = 0; l < leaves; ++l) {
            t += r.coin() ? '1' : '0';
            int mode = 0;
            switch (style) { case 0: mode = 0; break; case 1: mode = (int)r.below(2); break; case 2: mode = 1; break; case 3: mode = (int)r.below(4); break; default: mode = 2 + (int)r.below(2); if (r.chance(1, 4)) mode = (int)r.below(2); }
            m += (char)('0' + mode);
        }
        if (r.chance(1, 6)) w += "fast " + t + "\n";
        else w += "check " + t + " " + m + "\n";
    }
    return w;
}

// execution ---------------------------------------------------------------------------------------
void feedLine(const std::string &text, const std::function<void()> &parse) {
    snprintf(config_input_line, sizeof(config_input_line), "%s", text.c_str());
    char *line = xstrdup(text.c_str());
    ConfigParser::SetCfgLine(line);
    parse();
    ConfigParser::SetCfgLine(nullptr);
    xfree(line);
}

void run(Ctx &ctx, const std::string &w) {
    Case c;
    if (!dec(w, c)) return;
    if (c.zeroAclRule) { ctx.grey(); return; } // squid skips access lines without ACLs with a warning (documented); vacuous match per the text

    ConfigParser parser;
    Acl::NamedAcls *saved = Config.namedAcls;
    Config.namedAcls = nullptr;
    acl_access *access = nullptr;
    for (int i = 0; i < c.leaves; ++i)
        feedLine("A" + std::to_string(i) + " verif-syn " + std::to_string(i), [&] { Acl::Node::ParseNamedAcl(parser, Config.namedAcls); });
    for (const auto &l : c.confLines) {
        if (l.compare(0, 4, "acl ") == 0) feedLine(l.substr(4), [&] { Acl::Node::ParseNamedAcl(parser, Config.namedAcls); });
        else feedLine(l.substr(7), [&] { aclParseAccessLine("verif_access", parser, &access); });
    }

    Rng order(c.seed);
    long totalResumes = 0, totalEvals = 0, asyncChecks = 0, maxInFlight = 0;
    std::set<int> winners;
    std::set<int> modesUsed;
    std::vector<std::unique_ptr<Sink, void (*)(Sink *)>> sinks;
    size_t next = 0;
    auto deliverOne = [&] {
        const size_t p = order.below(g_pending.size());
        const Pending pe = g_pending[p];
        g_pending.erase(g_pending.begin() + p);
        Check &k = *g_checks.at(pe.cl);
        k.resolved[pe.idx] = true;
        ++k.resumes;
        pe.cl->resumeNonBlockingCheck();
    };
    while (next < c.checks.size() || !g_pending.empty()) {
        // start up to `batch` checks, interleaving starts and completions pseudo-randomly
        int started = 0;
        while (next < c.checks.size() && started < c.batch) {
            Check &k = c.checks[next++];
            ++started;
            if (k.fast) {
                ACLFilledChecklist cl(access, nullptr);
                g_checks[&cl] = &k;
                const auto &a = cl.fastCheck();
                k.answer = (int)a.code; k.answers = 1;
                g_checks.erase(&cl);
                continue;
            }
            for (int l = 0; l < c.leaves; ++l) modesUsed.insert(k.mode[l]);
            sinks.emplace_back(new Sink, [](Sink *s) { delete s; });
            sinks.back()->check = &k;
            auto cl = ACLFilledChecklist::Make(access, nullptr);
            g_checks[cl.get()] = &k;
            ACLFilledChecklist::NonBlockingCheck(std::move(cl), Done, sinks.back().get());
            maxInFlight = std::max<long>(maxInFlight, (long)g_pending.size());
            if (!g_pending.empty() && order.chance(1, 4)) deliverOne();
        }
        // deliver completions in PRNG order; sometimes leave some pending while the next batch starts
        while (!g_pending.empty()) {
            deliverOne();
            if (next < c.checks.size() && order.chance(1, 5)) break;
        }
    }
    g_checks.clear(); // finished checklists deleted themselves

    int rulesBucket = (int)c.rules.size();
    for (size_t i = 0; i < c.checks.size(); ++i) {
        const Check &k = c.checks[i];
        int winner = -1;
        const int exp = refDecision(c, k, &winner);
        winners.insert(winner);
        totalResumes += k.resumes; totalEvals += k.evals;
        if (k.resumes) ++asyncChecks;
        const std::string kind = k.fast ? "fast" : (k.asyncStarts ? "async" : "sync");
        const std::string what = exp == ACCESS_DUNNO ? "empty-list" : winner >= 0 ? "rule-match" : "implicit";
        std::string desc = "check #" + std::to_string(i) + " truth=";
        for (int l = 0; l < c.leaves; ++l) desc += k.truth[l] ? '1' : '0';
        desc += " modes=";
        for (int l = 0; l < c.leaves; ++l) desc += (char)('0' + k.mode[l]);
        if (k.answers != 1) {
            ctx.violation("checklist:" + kind + ":callbacks-" + (k.answers ? "many" : "none"), desc + ": callback ran " + std::to_string(k.answers) + " times");
            continue;
        }
        if (k.refusedAsync) { ctx.count("async_refused"); continue; } // goAsync() refused although the caller is non-blocking: not judged
        if (k.answer != exp)
            ctx.violation("checklist:" + kind + ":wrong-decision:" + what + ":got-" + codeName(k.answer),
                          desc + ": answer " + codeName(k.answer) + ", expected " + codeName(exp) + (winner >= 0 ? " from rule #" + std::to_string(winner + 1) : c.rules.empty() ? " (no rules)" : " (opposite of the last rule)"));
    }
    ctx.count("checks", (long)c.checks.size());
    ctx.count("async_resumptions", totalResumes);
    ctx.count("leaf_evaluations", totalEvals);

    aclDestroyAccessList(&access);
    Acl::FreeNamedAcls(&Config.namedAcls);
    Config.namedAcls = saved;

    auto b = [](long v) { return v == 0 ? 0 : v == 1 ? 1 : v < 4 ? 2 : v < 10 ? 3 : 4; };
    int negs = 0, maxLits = 0, anyG = 0, allG = 0, groupUse = 0;
    for (const auto &r : c.rules) { maxLits = std::max<int>(maxLits, (int)r.lits.size()); for (const auto &l : r.lits) { negs += l.neg; groupUse += l.name[0] == 'G'; } }
    for (const auto &g : c.groups) (g.any ? anyG : allG)++;
    std::string ms;
    for (int x : modesUsed) ms += std::to_string(x);
    const bool implicitSeen = winners.count(-1) != 0, firstSeen = winners.count(0) != 0;
    const std::string feat = "r" + std::to_string(rulesBucket) + "l" + std::to_string(maxLits) + "n" + std::to_string(b(negs)) + "g" + (anyG ? "o" : "") + (allG ? "a" : "") + (groupUse ? "u" : "") +
                             "w" + std::to_string(winners.size()) + (implicitSeen ? "i" : "") + (firstSeen ? "f" : "") + "m" + ms + "a" + std::to_string(b(totalResumes)) + (maxInFlight > 1 ? "p" : "");
    ctx.feature(feat, !c.rules.empty());
}

// exhaustive: every list of <=2 rules of 1..2 possibly negated literals over 3 leaves, checked under every
// truth assignment x every sync/async assignment (and fastCheck under every truth assignment)
int exhaustive(Ctx &ctx) {
    std::vector<std::string> lits;
    for (int i = 0; i < 3; ++i) { lits.push_back("A" + std::to_string(i)); lits.push_back("!A" + std::to_string(i)); }
    std::vector<std::string> rules;
    for (const char *act : {"allow", "deny"}) {
        for (const auto &a : lits) rules.push_back(std::string("access ") + act + " " + a);
        for (const auto &a : lits) for (const auto &b : lits) rules.push_back(std::string("access ") + act + " " + a + " " + b);
    }
    const long R = (long)rules.size(); // 84
    const long total = 1 + R + R * R;
    long n = 0;
    for (long idx = ctx.shard; idx < total; idx += ctx.nshards) {
        std::string w = "seed " + std::to_string(idx) + "\nleaves 3\nbatch " + std::to_string(1 + idx % 8) + "\n";
        if (idx >= 1 && idx <= R) w += rules[idx - 1] + "\n";
        else if (idx > R) { const long k = idx - 1 - R; w += rules[k / R] + "\n" + rules[k % R] + "\n"; }
        w += std::string("checkall ") + (ctx.thorough ? "4" : "2") + "\nfastall\n";
        ctx.begin(w); run(ctx, w); ++n;
    }
    ctx.count("exhaustive_rule_lists", n);
    return 0;
}

int drive(Ctx &ctx) {
    Debug::BanCacheLogUse(); Debug::SettleStderr(); Debug::SettleSyslog();
    for (auto &l : Debug::Levels) l = -1; // an empty rule list is reported at DBG_CRITICAL on every check
    Acl::Init();
    Acl::RegisterMaker("verif-syn", [](Acl::TypeName) -> Acl::Node * { return new SynAcl; });
    if (!ctx.replaying) { exhaustive(ctx); ctx.exhaustive = true; }
    return vh::Loop(ctx, gen, run);
}

} // namespace

VH_REGISTER(C44, drive, "ACL checklists (nonBlockingCheck with scripted async leaves, fastCheck) vs first-match evaluator");
