// C58 IPC messages round-trip and malformed messages are rejected safely.
// Differential oracle: Ipc::TypedMsgHdr typed put/get accessors against a byte-buffer model.
// Mode A: a script of put operations on a sender, a transfer (simulated sendmsg/recvmsg through the
//         public msghdr iov, copy construction, assignment, or none), then a script of get operations.
// Mode B: a raw received datagram image (type field, size field, content) written through the iov of a
//         prepForReading() message exactly as recvmsg() would, then a script of get operations.
#include "squid.h"
#include "vh.h"
#include "base/TextException.h"
#include "ipc/TypedMsgHdr.h"
#include "SquidString.h"

#include <climits>
#include <memory>
#include <sys/socket.h>

using vh::Ctx;
using vh::Rng;

namespace {

const size_t Max = Ipc::TypedMsgHdr::maxSize; // 4096
const size_t Slack = 16; // how far beyond the data buffer a get may reach before the driver refuses to execute it (stays inside the object)

struct Wire { int type; size_t size; char raw[Ipc::TypedMsgHdr::maxSize]; }; // what travels in msg_iov[0]
struct Pod { int a; double b; char c[5]; short d; };

struct Case {
    char mode = 'A';
    long long type = 1, check = 1;
    int xfer = 0;
    unsigned long long sizeField = 0;
    std::string content; // mode B
    std::string script;  // mode A: puts '|' gets ; mode B: gets
};

std::string le16(size_t n) { std::string s; s += (char)(n & 255); s += (char)((n >> 8) & 255); return s; }
size_t rd16(const std::string &s, size_t at) { return (unsigned char)s[at] | ((unsigned char)s[at + 1] << 8); }

std::string enc(const Case &c) {
    std::string h = std::string(1, c.mode) + " " + std::to_string(c.type) + " " + std::to_string(c.check) + " " + std::to_string(c.xfer) + " " + std::to_string(c.sizeField) + "\n";
    if (c.mode == 'B') h += le16(c.content.size()) + c.content;
    return h + c.script;
}
bool dec(const std::string &w, Case &c) {
    const auto nl = w.find('\n');
    if (nl == std::string::npos) return false;
    char m;
    if (sscanf(w.substr(0, nl).c_str(), "%c %lld %lld %d %llu", &m, &c.type, &c.check, &c.xfer, &c.sizeField) != 5) return false;
    c.mode = m;
    size_t at = nl + 1;
    if (c.mode == 'B') {
        if (w.size() < at + 2) return false;
        const size_t n = rd16(w, at); at += 2;
        if (n > Max || w.size() < at + n) return false;
        c.content = w.substr(at, n); at += n;
    } else if (c.mode != 'A') return false;
    c.script = w.substr(at);
    return c.type >= INT_MIN && c.type <= INT_MAX && c.check >= INT_MIN && c.check <= INT_MAX;
}

std::string strOf(const String &s) { return s.size() ? std::string(s.rawBuf(), s.size()) : std::string(); }

// reads one get-operation's worth from the model; returns 0 ok, 1 must throw, 2 stop (driver refuses: would leave the object)
struct Model {
    std::string buf;             // readable bytes known to the model (zero padded to Max in mode B)
    unsigned long long size = 0; // the message's size field
    unsigned long long o = 0;    // read offset
    bool lying() const { return size > Max; }
};

void run(Ctx &ctx, const std::string &w) {
    Case c;
    if (!dec(w, c)) { ctx.grey(); return; }
    std::unique_ptr<Ipc::TypedMsgHdr> sender, receiver;
    Ipc::TypedMsgHdr *rx = nullptr;
    Model m;
    bool mHasFd = false; int mFd = -1;
    std::string feat = std::string(1, c.mode) + std::to_string(c.xfer) + "|";
    size_t pos = 0;
    const std::string &s = c.script;
    auto done = [&](const std::string &outcome) { ctx.ubsanGate({"TypedMsgHdr"}); ctx.feature(feat + "|" + outcome); };

    if (c.mode == 'A') {
        if (c.type == 0) { ctx.grey(); return; } // 0 means "no type"; not a message kind
        sender.reset(new Ipc::TypedMsgHdr);
        try { sender->setType((int)c.type); } catch (const std::exception &e) { ctx.violation("settype:exception", e.what()); return; }
        // ---- puts
        for (; pos < s.size() && s[pos] != '|'; ) {
            const char op = s[pos];
            bool expectThrow = false, threw = false; std::string what;
            const size_t room = Max - m.buf.size();
            std::string add;
            size_t next = pos + 1;
            if (op == 'I') {
                if (s.size() < pos + 5) break;
                int v; memcpy(&v, s.data() + pos + 1, 4); next = pos + 5;
                expectThrow = room < 4; add.assign(s.data() + pos + 1, 4);
                try { sender->putInt(v); } catch (const std::exception &e) { threw = true; what = e.what(); }
            } else if (op == 'S' || op == 'F') {
                if (s.size() < pos + 3) break;
                const size_t n = rd16(s, pos + 1);
                if (s.size() < pos + 3 + n) break;
                const std::string val = s.substr(pos + 3, n); next = pos + 3 + n;
                if (op == 'S') {
                    expectThrow = n > Max || room < 4 || room - 4 < n;
                    const int len = (int)n; add.assign((const char *)&len, 4); add += val;
                    try { String str; if (n) str.assign(val.data(), (int)n); sender->putString(str); } catch (const std::exception &e) { threw = true; what = e.what(); }
                } else {
                    expectThrow = n > room; add = val;
                    try { sender->putFixed(val.data(), n); } catch (const std::exception &e) { threw = true; what = e.what(); }
                }
            } else if (op == 'P') {
                if (s.size() < pos + 1 + sizeof(Pod)) break;
                Pod p; memcpy(&p, s.data() + pos + 1, sizeof p); next = pos + 1 + sizeof(Pod);
                expectThrow = room < sizeof(Pod); add.assign(s.data() + pos + 1, sizeof(Pod));
                try { sender->putPod(p); } catch (const std::exception &e) { threw = true; what = e.what(); }
            } else if (op == 'D') {
                if (s.size() < pos + 2) break;
                const int fd = (unsigned char)s[pos + 1] == 255 ? -1 : (unsigned char)s[pos + 1]; next = pos + 2;
                expectThrow = fd < 0 || mHasFd;
                try { sender->putFd(fd); } catch (const std::exception &e) { threw = true; what = e.what(); }
                if (!expectThrow) { mHasFd = true; mFd = fd; }
            } else break;
            feat += op;
            if (expectThrow != threw) {
                ctx.violation(std::string("put:") + (threw ? "unexpected-exception:" : "missing-exception:") + op,
                              std::string("put op '") + op + "' with " + std::to_string(room) + " bytes of room: " + (threw ? "threw " + what : "did not throw although the part does not fit / is invalid"));
                done("putdiff"); return;
            }
            if (threw) { feat += "!"; done("put-threw-room" + std::to_string(room < 8 ? room : room < 64 ? 8 : 64)); return; }
            if (op != 'D') m.buf += add;
            pos = next;
        }
        if (pos < s.size() && s[pos] == '|') ++pos;
        m.size = m.buf.size();
        // ---- transfer
        try {
            if (c.xfer == 0) {
                receiver.reset(new Ipc::TypedMsgHdr);
                receiver->prepForReading();
                if (!receiver->msg_iov || receiver->msg_iovlen != 1 || receiver->msg_iov[0].iov_len != sender->msg_iov[0].iov_len) { ctx.violation("transfer:iov-shape", "prepForReading() iov differs from the sender's"); return; }
                memcpy(receiver->msg_iov[0].iov_base, sender->msg_iov[0].iov_base, sender->msg_iov[0].iov_len);
                if (mHasFd) { memcpy(receiver->msg_control, sender->msg_control, sender->msg_controllen); receiver->msg_controllen = sender->msg_controllen; }
                else receiver->msg_controllen = 0;
                rx = receiver.get();
            } else if (c.xfer == 1) { receiver.reset(new Ipc::TypedMsgHdr(*sender)); rx = receiver.get(); }
            else if (c.xfer == 2) { receiver.reset(new Ipc::TypedMsgHdr); *receiver = *sender; rx = receiver.get(); }
            else rx = sender.get();
        } catch (const std::exception &e) { ctx.violation("transfer:exception", e.what()); return; }
    } else {
        receiver.reset(new Ipc::TypedMsgHdr);
        receiver->prepForReading();
        if (!receiver->msg_iov || receiver->msg_iov[0].iov_len != sizeof(Wire)) { ctx.note("iov layout differs from the driver's mirror struct; raw mode not judged"); ctx.grey(); return; }
        Wire *wr = static_cast<Wire *>(receiver->msg_iov[0].iov_base);
        wr->type = (int)c.type; wr->size = (size_t)c.sizeField;
        memcpy(wr->raw, c.content.data(), c.content.size());
        receiver->msg_controllen = 0;
        rx = receiver.get();
        m.buf = c.content; m.buf.resize(Max, '\0');
        m.size = c.sizeField;
        feat += m.size > Max ? "L" : m.size > c.content.size() ? "z" : m.size == c.content.size() ? "e" : "s";
    }

    // ---- type
    if (rx->rawType() != (int)c.type) { ctx.violation("type:rawtype", "rawType() " + std::to_string(rx->rawType()) + " expected " + std::to_string(c.type)); return; }
    {
        bool threw = false;
        try { rx->checkType((int)c.check); } catch (const std::exception &) { threw = true; }
        if (threw != (c.check != c.type)) { ctx.violation(threw ? "type:checktype-rejected-right-type" : "type:checktype-accepted-wrong-type", "checkType(" + std::to_string(c.check) + ") on a message of type " + std::to_string(c.type)); return; }
        if (threw) { done("wrongtype"); return; }
    }
    feat += ">";
    // ---- gets
    int nget = 0;
    for (; pos < s.size(); ++nget) {
        const char op = s[pos];
        size_t next = pos + 1;
        unsigned long long avail = m.size - m.o;
        size_t k = 0;
        if (op == 'i') k = 4;
        else if (op == 'p') k = sizeof(Pod);
        else if (op == 'f') { if (s.size() < pos + 3) break; k = rd16(s, pos + 1); next = pos + 3; }
        else if (op == 's') k = 4;
        else if (op != 'd' && op != 'm' && op != 'h') break;
        if (nget < 10) feat += op;
        if (op == 'm') { const bool e = m.o < m.size; if (rx->hasMoreData() != e) { ctx.violation("get:hasmoredata", "hasMoreData() wrong at offset " + std::to_string(m.o) + " of " + std::to_string(m.size)); return; } pos = next; continue; }
        if (op == 'h') { if (rx->hasFd() != mHasFd) { ctx.violation("get:hasfd", "hasFd() wrong"); return; } pos = next; continue; }
        if (op == 'd') {
            bool threw = false; int fd = -2;
            try { fd = rx->getFd(); } catch (const std::exception &) { threw = true; }
            if (threw == mHasFd) { ctx.violation(threw ? "get:fd-lost" : "get:fd-invented", "getFd() " + std::string(threw ? "threw" : "returned " + std::to_string(fd)) + "; descriptor stored: " + std::to_string(mHasFd)); return; }
            if (!threw && fd != mFd) { ctx.violation("get:fd-value", "getFd() " + std::to_string(fd) + " expected " + std::to_string(mFd)); return; }
            if (threw) { done("nofd"); return; }
            pos = next; continue;
        }
        // byte-consuming gets. Stage 1: the fixed part (k bytes; for 's' the length prefix)
        auto refuse = [&](unsigned long long need) { return m.lying() && m.o + need > Max + Slack; };
        if (refuse(k)) { ctx.count("raw_stopped_before_leaving_object"); done("stopped"); return; }
        bool expectThrow = k > avail;
        long long L = 0;
        if (op == 's' && !expectThrow) {
            if (m.o + 4 <= Max) { int v; memcpy(&v, m.buf.data() + m.o, 4); L = v; }
            else { ctx.count("raw_stopped_before_leaving_object"); done("stopped"); return; } // length prefix itself lies outside the buffer: cannot predict what follows
            if (L < 0 || L > (long long)Max) expectThrow = true;
            else if (L > 0 && (unsigned long long)L > avail - 4) expectThrow = true;
            else if (refuse(4 + (unsigned long long)L)) { ctx.count("raw_stopped_before_leaving_object"); done("stopped"); return; }
        }
        const unsigned long long total = op == 's' ? 4 + (unsigned long long)(expectThrow ? 0 : L) : k;
        bool threw = false; std::string what, got;
        try {
            if (op == 'i') { const int v = rx->getInt(); got.assign((const char *)&v, 4); }
            else if (op == 'p') { Pod p; memset(&p, 0x5a, sizeof p); rx->getPod(p); got.assign((const char *)&p, sizeof p); }
            else if (op == 'f') { std::string b(k, '\x5a'); rx->getFixed(&b[0], k); got = b; }
            else { String str; str.assign("poison", 6); rx->getString(str); got = strOf(str); }
        } catch (const std::exception &e) { threw = true; what = e.what(); }
        const bool beyond = m.o + total > Max; // a successful read of these bytes leaves data.raw[]
        if (m.lying()) {
            // out-of-range size field: an error is the demanded outcome; succeeding inside the buffer is not judged;
            // succeeding beyond the buffer is exactly what the property forbids
            if (!threw && beyond && total > 0) {
                ctx.violation("raw:read-beyond-buffer", std::string("size field ") + std::to_string(m.size) + " > maxSize: get '" + op + "' of " + std::to_string(total) + " bytes at offset " + std::to_string(m.o) + " succeeded, reading " + std::to_string(m.o + total - Max) + " bytes beyond the " + std::to_string(Max) + "-byte data buffer");
                done("beyond"); return;
            }
            if (threw) { done("lying-threw"); return; }
            if (expectThrow) { ctx.violation(std::string("get:missing-exception:") + op, "get beyond the size field succeeded"); return; }
        } else {
            if (threw != expectThrow) {
                ctx.violation(std::string("get:") + (threw ? "unexpected-exception:" : "missing-exception:") + op,
                              std::string("get '") + op + "' at offset " + std::to_string(m.o) + " of " + std::to_string(m.size) + (op == 's' ? " (length prefix " + std::to_string(L) + ")" : " (" + std::to_string(k) + " bytes)") + ": " + (threw ? "threw " + what : "succeeded although the message has too few bytes / an invalid length"));
                return;
            }
            if (threw) { feat += "!"; done(std::string("get-threw") + (op == 's' ? (L < 0 ? "-neg" : L > (long long)Max ? "-huge" : "-short") : "")); return; }
        }
        const std::string expect = op == 's' ? m.buf.substr(m.o + 4, (size_t)L) : m.buf.substr(m.o, k);
        if (got != expect) { ctx.violation(std::string("get:wrong-value:") + op, std::string("get '") + op + "' at offset " + std::to_string(m.o) + " returned " + vh::show(got, 60) + " expected " + vh::show(expect, 60)); return; }
        m.o += total;
        pos = next;
    }
    done("ok" + std::to_string(m.size == 0 ? 0 : m.size < 64 ? 1 : m.size < 1024 ? 2 : m.size < Max - 8 ? 3 : m.size <= Max ? 4 : 5));
}

// ---------------------------------------------------------------- generator
size_t pickLen(Rng &r) {
    switch (r.below(10)) {
    case 0: return 0;
    case 1: return 1;
    case 2: return r.pick(std::vector<int>{255, 256, 1000, 2047, 2048});
    case 3: return r.pick(std::vector<int>{4000, 4080, 4084, 4087, 4088, 4091, 4092, 4093, 4095, 4096, 4097, 4100, 5000, 65535});
    default: return r.below(48);
    }
}

// appends a put op and the matching get op
void addPair(Rng &r, std::string &puts, std::string &gets, size_t &used) {
    switch (r.below(9)) {
    case 0: case 1: { int v = r.chance(1, 3) ? (int)r.pick(std::vector<int>{0, -1, 1, INT_MAX, INT_MIN, 4096, 4097, -4096}) : (int)r.next(); puts += 'I'; puts.append((const char *)&v, 4); gets += 'i'; used += 4; break; }
    case 2: case 3: case 4: { size_t n = pickLen(r); if (r.chance(1, 6) && used + 4 <= Max) n = Max - used - 4 + r.range(-1, 1); if (n > 65535) n = 0; puts += 'S'; puts += le16(n); puts += r.coin() ? r.from("abcdefgh", n) : r.bytes(n); gets += 's'; used += 4 + n; break; }
    case 5: case 6: { size_t n = pickLen(r); if (r.chance(1, 6) && used <= Max) n = Max - used + r.range(-1, 1); if (n > 65535) n = 0; puts += 'F'; puts += le16(n); puts += r.bytes(n); gets += 'f'; gets += le16(n); used += n; break; }
    case 7: { puts += 'P'; puts += r.bytes(sizeof(Pod)); gets += 'p'; used += sizeof(Pod); break; }
    default: { puts += 'D'; puts += (char)(r.chance(1, 8) ? 255 : r.below(200)); gets += 'd'; break; }
    }
}

std::string mutateGets(Rng &r, std::string g) {
    switch (r.below(8)) {
    case 0: if (!g.empty()) g.erase(g.size() - 1); break;                              // may cut a 2-byte length: parser stops there
    case 1: g += r.pick({"i", "s", "p", "d", "m", "h"}); break;                        // one get too many
    case 2: g += 'f'; g += le16(pickLen(r)); break;
    case 3: { size_t p = g.find('f'); if (p != std::string::npos && p + 2 < g.size()) { size_t n = rd16(g, p + 1) + r.range(-2, 2); g.replace(p + 1, 2, le16(n & 0xffff)); } break; }
    case 4: { for (auto &ch : g) if (ch == 'i' && r.coin()) { ch = 's'; break; } else if (ch == 's' && r.coin()) { ch = 'i'; break; } break; }
    case 5: g.insert(r.below(g.size() + 1), r.coin() ? "m" : "h"); break;             // harmless unless it lands inside an f length
    default: break;
    }
    return g;
}

std::string gen(Rng &r) {
    Case c;
    const std::vector<int> types{1, 2, 3, 4, 5, 6, 7, 8, 9, 10, 11, 12, 13, 14, 15, 16, 17, 18, 19, 20, -1, INT_MAX, INT_MIN, 255, 256};
    c.type = r.chance(1, 5) ? (int)r.next() : r.pick(types);
    c.check = r.chance(1, 8) ? (r.coin() ? c.type + r.range(-2, 2) : r.pick(types)) : c.type;
    if (c.check > INT_MAX || c.check < INT_MIN) c.check = 0;
    std::string puts, gets; size_t used = 0;
    const int n = r.chance(1, 10) ? 0 : (int)r.range(1, r.chance(1, 5) ? 14 : 5);
    for (int i = 0; i < n; ++i) addPair(r, puts, gets, used);
    if (r.chance(1, 4)) gets += 'm';
    if (r.chance(1, 10)) gets += 'h';
    if (r.below(10) < 7) {
        c.mode = 'A';
        if (c.type == 0) c.type = c.check = 1;
        c.xfer = r.chance(1, 2) ? 0 : (int)r.range(1, 3);
        // a safe op boundary is needed for 'f' length bytes: only mutate by whole-op edits (see mutateGets)
        c.script = puts + "|" + (r.chance(1, 3) ? mutateGets(r, gets) : gets);
        return enc(c);
    }
    // mode B: serialise the puts ourselves (that is the wire image), then lie about sizes
    c.mode = 'B';
    std::string content;
    for (size_t p = 0; p < puts.size();) {
        const char op = puts[p];
        if (op == 'I') { content.append(puts, p + 1, 4); p += 5; }
        else if (op == 'P') { content.append(puts, p + 1, sizeof(Pod)); p += 1 + sizeof(Pod); }
        else if (op == 'D') { p += 2; }
        else { const size_t k = rd16(puts, p + 1); if (op == 'S') { int len = (int)k; if (r.chance(1, 5)) len = r.chance(1, 2) ? (int)r.pick(std::vector<int>{-1, INT_MIN, INT_MAX, 4096, 4097, 65536, -4096}) : len + (int)r.range(-3, 3); content.append((const char *)&len, 4); } content.append(puts, p + 3, k); p += 3 + k; }
    }
    for (auto &ch : gets) if (ch == 'd') ch = 'h';
    if (r.chance(1, 8)) content = r.bytes(r.below(64));
    if (content.size() > Max) content.resize(Max);
    c.content = content;
    const unsigned long long cs = content.size();
    switch (r.below(12)) {
    case 0: c.sizeField = cs ? cs - std::min<unsigned long long>(cs, r.range(1, 5)) : 0; break;           // truncated
    case 1: c.sizeField = std::min<unsigned long long>(Max, cs + r.range(1, 9)); break;                   // claims more than was sent, inside the buffer
    case 2: c.sizeField = r.pick(std::vector<unsigned long long>{4097, 4098, 4100, 4104, 4112, 4120, 8192, 65536, 1ULL << 31, 1ULL << 32, (1ULL << 32) + 5, 1ULL << 63, ~0ULL, ~0ULL - 4095}); break;
    case 3: c.sizeField = Max + r.range(1, 12); break;
    case 4: c.sizeField = r.pick(std::vector<unsigned long long>{0, 1, 3, 4, 5, 4095, 4096}); break;
    default: c.sizeField = cs; break;
    }
    if (c.sizeField > Max && r.coin()) {
        // aim a read at the end of the buffer: fixed gets that walk up to the edge, then one that crosses it
        gets.clear();
        size_t o = 0;
        if (r.coin()) { const size_t k = Max - r.below(12); gets += 'f'; gets += le16(k); o = k; }
        else while (o + 2000 < Max) { gets += 'f'; gets += le16(1361); o += 1361; }
        if (o < Max - 20 && r.coin()) { const size_t k = Max - 4 - r.below(6) - o; gets += 'f'; gets += le16(k); o += k; }
        switch (r.below(4)) { case 0: gets += 'i'; break; case 1: gets += 'p'; break; case 2: gets += 's'; break; default: gets += 'f'; gets += le16(Max - o + r.range(0, 12)); }
        if (c.content.size() < Max && r.coin()) { c.content.resize(Max, '\0'); const int len = (int)r.range(0, 14); if (o + 4 <= Max) memcpy(&c.content[o], &len, 4); }
    }
    c.script = r.chance(1, 3) ? mutateGets(r, gets) : gets;
    return enc(c);
}

int drive(Ctx &ctx) {
    if (!ctx.replaying && ctx.shard == 0) {
        // boundary sweep: one string / fixed part of every length around the capacity, after 0 or 4 bytes of prefix
        long n = 0;
        for (int pre = 0; pre < 2; ++pre) for (size_t len = Max - 12; len <= Max + 6; ++len) for (char op : {'S', 'F'}) for (int xfer = 0; xfer < 4; ++xfer) {
            Case c; c.mode = 'A'; c.type = c.check = 7; c.xfer = xfer;
            std::string puts, gets;
            if (pre) { puts += std::string("I\x01\x02\x03\x04", 5); gets += 'i'; }
            puts += op; puts += le16(len); puts += std::string(len, 'q');
            gets += op == 'S' ? std::string("s") : std::string("f") + le16(len);
            c.script = puts + "|" + gets + "m";
            const std::string w = enc(c); ctx.begin(w); run(ctx, w); ++n;
        }
        for (unsigned long long sz : {0ULL, 3ULL, 4ULL, 4095ULL, 4096ULL, 4097ULL, 4100ULL, 4112ULL, 1ULL << 32, ~0ULL}) for (const char *g : {"i", "s", "p", "m"}) {
            Case c; c.mode = 'B'; c.type = c.check = 3; c.sizeField = sz; c.content = std::string("\x02\x00\x00\x00zz", 6);
            c.script = g;
            const std::string w = enc(c); ctx.begin(w); run(ctx, w); ++n;
        }
        ctx.count("boundary_cases_enumerated", n);
    }
    return vh::Loop(ctx, gen, run);
}

} // namespace

VH_REGISTER(C58, drive, "Ipc::TypedMsgHdr put/get round trips and raw datagram images vs byte-buffer model");
