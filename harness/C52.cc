// C52 Overflow-safe arithmetic helpers are exact.
// Differential oracle: Less / IncreaseSum / NaturalSum / SetToNaturalSumOrMax (src/SquidMath.h) instantiated for
// every pair of {int8,uint8,int16,uint16,int32,uint32,int64,uint64} (+ result type) against a wide-integer
// reference (__int128 for point cases, int64 for the exhaustive 8/16-bit blocks); UBSan reports inside
// SquidMath.h are violations.
#include "squid.h"
#include "vh.h"
#include "SquidMath.h"

#include <array>
#include <climits>
#include <optional>
#include <tuple>
#include <utility>

using vh::Ctx;
using vh::Rng;

namespace {

typedef __int128 i128;

using Types = std::tuple<int8_t, uint8_t, int16_t, uint16_t, int32_t, uint32_t, int64_t, uint64_t>;
template <size_t I> using T = std::tuple_element_t<I, Types>;
const int NT = 8;
const char *const TypeName[NT] = {"i8", "u8", "i16", "u16", "i32", "u32", "i64", "u64"};
const int TypeBits[NT] = {8, 8, 16, 16, 32, 32, 64, 64};
const bool TypeSigned[NT] = {true, false, true, false, true, false, true, false};
// argument types used for the 3-argument sums (indexes into Types): i8 u32 i64 u64
// (a 3-argument sum is the 2-argument step applied twice; the subset keeps compile time reasonable)
const int NT3 = 4;
const int Sub3[NT3] = {0, 5, 6, 7};

i128 tmin(int t) { return TypeSigned[t] ? -((i128)1 << (TypeBits[t] - 1)) : 0; }
i128 tmax(int t) { return TypeSigned[t] ? ((i128)1 << (TypeBits[t] - 1)) - 1 : ((i128)1 << TypeBits[t]) - 1; }
bool fits(int t, i128 v) { return v >= tmin(t) && v <= tmax(t); }

std::string str(i128 v) {
    if (v == 0) return "0";
    const bool neg = v < 0;
    unsigned __int128 u = neg ? -(unsigned __int128)v : (unsigned __int128)v;
    std::string r;
    while (u) { r.insert(r.begin(), (char)('0' + (int)(u % 10))); u /= 10; }
    return neg ? "-" + r : r;
}
bool parse(const std::string &s, i128 &v) {
    size_t i = 0; bool neg = false;
    if (i < s.size() && s[i] == '-') { neg = true; ++i; }
    if (i >= s.size() || s.size() - i > 25) return false;
    unsigned __int128 u = 0;
    for (; i < s.size(); ++i) { if (s[i] < '0' || s[i] > '9') return false; u = u * 10 + (unsigned)(s[i] - '0'); }
    v = neg ? -(i128)u : (i128)u;
    return true;
}

// ---- instantiations of the code under test, erased to i128 signatures --------------------------
struct SumOut { bool has; i128 value; i128 stored; i128 returned; };

template <class A, class B> bool lessFn(i128 a, i128 b) { return Less(static_cast<A>(a), static_cast<B>(b)); }
template <class A, class B> SumOut inc2Fn(i128 a, i128 b) {
    const std::optional<A> r = IncreaseSum(static_cast<A>(a), static_cast<B>(b));
    return {r.has_value(), r ? (i128)*r : 0, 0, 0};
}
template <class A, class B, class C> SumOut inc3Fn(i128 a, i128 b, i128 c) {
    const std::optional<A> r = IncreaseSum(static_cast<A>(a), static_cast<B>(b), static_cast<C>(c));
    return {r.has_value(), r ? (i128)*r : 0, 0, 0};
}
template <class S> S garbage() { return static_cast<S>(0x5a); }
template <class S, class A> SumOut nat1Fn(i128 a) {
    const std::optional<S> r = NaturalSum<S>(static_cast<A>(a));
    S var = garbage<S>();
    const S ret = SetToNaturalSumOrMax(var, static_cast<A>(a));
    return {r.has_value(), r ? (i128)*r : 0, (i128)var, (i128)ret};
}
template <class S, class A, class B> SumOut nat2Fn(i128 a, i128 b) {
    const std::optional<S> r = NaturalSum<S>(static_cast<A>(a), static_cast<B>(b));
    S var = garbage<S>();
    const S ret = SetToNaturalSumOrMax(var, static_cast<A>(a), static_cast<B>(b));
    return {r.has_value(), r ? (i128)*r : 0, (i128)var, (i128)ret};
}
template <class S, class A, class B, class C> SumOut nat3Fn(i128 a, i128 b, i128 c) {
    const std::optional<S> r = NaturalSum<S>(static_cast<A>(a), static_cast<B>(b), static_cast<C>(c));
    S var = garbage<S>();
    const S ret = SetToNaturalSumOrMax(var, static_cast<A>(a), static_cast<B>(b), static_cast<C>(c));
    return {r.has_value(), r ? (i128)*r : 0, (i128)var, (i128)ret};
}

typedef bool (*LessP)(i128, i128);
typedef SumOut (*Sum1P)(i128);
typedef SumOut (*Sum2P)(i128, i128);
typedef SumOut (*Sum3P)(i128, i128, i128);

constexpr size_t Sub3c[NT3] = {0, 5, 6, 7};
template <size_t K> using T3 = T<Sub3c[K]>;

template <size_t... K> constexpr std::array<LessP, 64> mkLess(std::index_sequence<K...>) { return {{&lessFn<T<K / 8>, T<K % 8>>...}}; }
template <size_t... K> constexpr std::array<Sum2P, 64> mkInc2(std::index_sequence<K...>) { return {{&inc2Fn<T<K / 8>, T<K % 8>>...}}; }
template <size_t... K> constexpr std::array<Sum3P, 64> mkInc3(std::index_sequence<K...>) { return {{&inc3Fn<T3<K / 16>, T3<K / 4 % 4>, T3<K % 4>>...}}; }
template <size_t... K> constexpr std::array<Sum1P, 64> mkNat1(std::index_sequence<K...>) { return {{&nat1Fn<T<K / 8>, T<K % 8>>...}}; }
template <size_t... K> constexpr std::array<Sum2P, 512> mkNat2(std::index_sequence<K...>) { return {{&nat2Fn<T<K / 64>, T<K / 8 % 8>, T<K % 8>>...}}; }
template <size_t S, size_t... K> constexpr std::array<Sum3P, 64> mkNat3(std::index_sequence<K...>) { return {{&nat3Fn<T<S>, T3<K / 16>, T3<K / 4 % 4>, T3<K % 4>>...}}; }

const std::array<LessP, 64> LessTab = mkLess(std::make_index_sequence<64>());
const std::array<Sum2P, 64> Inc2Tab = mkInc2(std::make_index_sequence<64>());
const std::array<Sum3P, 64> Inc3Tab = mkInc3(std::make_index_sequence<64>());
const std::array<Sum1P, 64> Nat1Tab = mkNat1(std::make_index_sequence<64>());
const std::array<Sum2P, 512> Nat2Tab = mkNat2(std::make_index_sequence<512>());
const std::array<Sum3P, 64> Nat3Tab[NT] = {
    mkNat3<0>(std::make_index_sequence<64>()), mkNat3<1>(std::make_index_sequence<64>()),
    mkNat3<2>(std::make_index_sequence<64>()), mkNat3<3>(std::make_index_sequence<64>()),
    mkNat3<4>(std::make_index_sequence<64>()), mkNat3<5>(std::make_index_sequence<64>()),
    mkNat3<6>(std::make_index_sequence<64>()), mkNat3<7>(std::make_index_sequence<64>())};

int sub3Index(int t) { for (int i = 0; i < NT3; ++i) if (Sub3[i] == t) return i; return -1; }

// ---- point cases ---------------------------------------------------------------------------------
// "P <fn> <S> <A> <B> <C> <a> <b> <c>"; fn: L Less(a,b) | I IncreaseSum(a,b) | J IncreaseSum(a,b,c) |
// 1/2/3 NaturalSum<S> and SetToNaturalSumOrMax<S> of 1/2/3 arguments. Unused slots are 0.
struct Point { char fn; int s, a, b, c; i128 va, vb, vc; };

std::string enc(const Point &p) {
    return std::string("P ") + p.fn + " " + std::to_string(p.s) + " " + std::to_string(p.a) + " " + std::to_string(p.b) + " " + std::to_string(p.c) + " " + str(p.va) + " " + str(p.vb) + " " + str(p.vc);
}
bool dec(const std::string &w, Point &p) {
    char fn; int s, a, b, c; char x[40], y[40], z[40];
    if (sscanf(w.c_str(), "P %c %d %d %d %d %39s %39s %39s", &fn, &s, &a, &b, &c, x, y, z) != 8) return false;
    p.fn = fn; p.s = s; p.a = a; p.b = b; p.c = c;
    auto okT = [](int t) { return t >= 0 && t < NT; };
    if (!okT(s) || !okT(a) || !okT(b) || !okT(c)) return false;
    return parse(x, p.va) && parse(y, p.vb) && parse(z, p.vc);
}

const char *signClass(i128 v, int t) { return v < 0 ? (v == tmin(t) ? "m" : "n") : v == 0 ? "z" : (v == tmax(t) ? "M" : "p"); }

// the reference: exact sum iff all arguments are non-negative and the sum fits S
struct RefSum { bool has; i128 value; const char *why; };
RefSum refSum(int s, std::initializer_list<i128> args) {
    i128 sum = 0;
    for (i128 v : args) if (v < 0) return {false, 0, "neg"};
    for (i128 v : args) sum += v; // at most 3 values below 2^64: no overflow in 128 bits
    if (sum > tmax(s)) return {false, 0, sum == tmax(s) + 1 ? "over1" : "over"};
    return {true, sum, sum == tmax(s) ? "max" : "fit"};
}

template <class W> void judgeSum(Ctx &ctx, const char *fnKeyC, int s, const SumOut &got, const RefSum &ref, bool checkStore, const W &mkWhat) {
    const i128 expectStore = ref.has ? ref.value : tmax(s);
    if (got.has == ref.has && (!got.has || got.value == ref.value) && (!checkStore || (got.stored == expectStore && got.returned == expectStore))) return;
    const std::string fnKey = fnKeyC, what = mkWhat();
    if (got.has != ref.has)
        ctx.violation(fnKey + (got.has ? ":returned-sum-for-unrepresentable:" : ":nothing-for-representable:") + TypeName[s],
                      what + " returned " + (got.has ? str(got.value) : "nothing") + ", expected " + (ref.has ? str(ref.value) : "nothing"));
    else if (got.has && got.value != ref.value)
        ctx.violation(fnKey + ":wrong-sum:" + TypeName[s], what + " returned " + str(got.value) + ", expected " + str(ref.value));
    if (checkStore) {
        const i128 expect = ref.has ? ref.value : tmax(s);
        if (got.stored != expect || got.returned != expect)
            ctx.violation(std::string("SetToNaturalSumOrMax:wrong-value:") + TypeName[s],
                          "SetToNaturalSumOrMax(" + what + ") stored " + str(got.stored) + " returned " + str(got.returned) + ", expected " + str(expect));
    }
}

void runPoint(Ctx &ctx, const Point &p) {
    std::string feat(1, p.fn);
    switch (p.fn) {
    case 'L': {
        if (!fits(p.a, p.va) || !fits(p.b, p.vb)) return;
        const bool got = LessTab[p.a * 8 + p.b](p.va, p.vb);
        ctx.ubsanGate({"SquidMath.h"});
        const bool exp = p.va < p.vb;
        feat += std::string(TypeName[p.a]) + TypeName[p.b] + signClass(p.va, p.a) + signClass(p.vb, p.b) + (exp ? "<" : p.va == p.vb ? "=" : ">");
        ctx.feature(feat);
        if (got != exp)
            ctx.violation(std::string("Less:wrong:") + TypeName[p.a] + ":" + TypeName[p.b],
                          "Less<" + std::string(TypeName[p.a]) + "," + TypeName[p.b] + ">(" + str(p.va) + "," + str(p.vb) + ") returned " + (got ? "true" : "false"));
        return; }
    case 'I': {
        if (!fits(p.a, p.va) || !fits(p.b, p.vb)) return;
        const SumOut got = Inc2Tab[p.a * 8 + p.b](p.va, p.vb);
        ctx.ubsanGate({"SquidMath.h"});
        const RefSum ref = refSum(p.a, {p.va, p.vb});
        feat += std::string(TypeName[p.a]) + TypeName[p.b] + signClass(p.va, p.a) + signClass(p.vb, p.b) + ref.why;
        ctx.feature(feat);
        judgeSum(ctx, "IncreaseSum2", p.a, got, ref, false, [&]() { return "IncreaseSum(" + std::string(TypeName[p.a]) + " " + str(p.va) + ", " + TypeName[p.b] + " " + str(p.vb) + ")"; });
        return; }
    case 'J': {
        const int ia = sub3Index(p.a), ib = sub3Index(p.b), ic = sub3Index(p.c);
        if (ia < 0 || ib < 0 || ic < 0 || !fits(p.a, p.va) || !fits(p.b, p.vb) || !fits(p.c, p.vc)) return;
        const SumOut got = Inc3Tab[ia * 16 + ib * 4 + ic](p.va, p.vb, p.vc);
        ctx.ubsanGate({"SquidMath.h"});
        const RefSum ref = refSum(p.a, {p.va, p.vb, p.vc});
        feat += std::string(TypeName[p.a]) + TypeName[p.b] + TypeName[p.c] + signClass(p.va, p.a) + signClass(p.vb, p.b) + signClass(p.vc, p.c) + ref.why;
        ctx.feature(feat);
        judgeSum(ctx, "IncreaseSum3", p.a, got, ref, false, [&]() { return "IncreaseSum(" + std::string(TypeName[p.a]) + " " + str(p.va) + ", " + TypeName[p.b] + " " + str(p.vb) + ", " + TypeName[p.c] + " " + str(p.vc) + ")"; });
        return; }
    case '1': {
        if (!fits(p.a, p.va)) return;
        const SumOut got = Nat1Tab[p.s * 8 + p.a](p.va);
        ctx.ubsanGate({"SquidMath.h"});
        const RefSum ref = refSum(p.s, {p.va});
        feat += std::string(TypeName[p.s]) + TypeName[p.a] + signClass(p.va, p.a) + ref.why;
        ctx.feature(feat);
        judgeSum(ctx, "NaturalSum1", p.s, got, ref, true, [&]() { return "NaturalSum<" + std::string(TypeName[p.s]) + ">(" + TypeName[p.a] + " " + str(p.va) + ")"; });
        return; }
    case '2': {
        if (!fits(p.a, p.va) || !fits(p.b, p.vb)) return;
        const SumOut got = Nat2Tab[p.s * 64 + p.a * 8 + p.b](p.va, p.vb);
        ctx.ubsanGate({"SquidMath.h"});
        const RefSum ref = refSum(p.s, {p.va, p.vb});
        feat += std::string(TypeName[p.s]) + TypeName[p.a] + TypeName[p.b] + signClass(p.va, p.a) + signClass(p.vb, p.b) + ref.why;
        ctx.feature(feat);
        judgeSum(ctx, "NaturalSum2", p.s, got, ref, true, [&]() { return "NaturalSum<" + std::string(TypeName[p.s]) + ">(" + TypeName[p.a] + " " + str(p.va) + ", " + TypeName[p.b] + " " + str(p.vb) + ")"; });
        return; }
    case '3': {
        const int ia = sub3Index(p.a), ib = sub3Index(p.b), ic = sub3Index(p.c);
        if (ia < 0 || ib < 0 || ic < 0 || !fits(p.a, p.va) || !fits(p.b, p.vb) || !fits(p.c, p.vc)) return;
        const SumOut got = Nat3Tab[p.s][ia * 16 + ib * 4 + ic](p.va, p.vb, p.vc);
        ctx.ubsanGate({"SquidMath.h"});
        const RefSum ref = refSum(p.s, {p.va, p.vb, p.vc});
        feat += std::string(TypeName[p.s]) + TypeName[p.a] + TypeName[p.b] + TypeName[p.c] + signClass(p.va, p.a) + signClass(p.vb, p.b) + signClass(p.vc, p.c) + ref.why;
        ctx.feature(feat);
        judgeSum(ctx, "NaturalSum3", p.s, got, ref, true, [&]() { return "NaturalSum<" + std::string(TypeName[p.s]) + ">(" + TypeName[p.a] + " " + str(p.va) + ", " + TypeName[p.b] + " " + str(p.vb) + ", " + TypeName[p.c] + " " + str(p.vc) + ")"; });
        return; }
    default: return;
    }
}

// ---- exhaustive blocks over the 8- and 16-bit types ------------------------------------------------
// "X <A> <B> <aLo> <aHi>": every a in [aLo,aHi] of type A against every b of type B, for Less, IncreaseSum(a,b)
// and NaturalSum<S>/SetToNaturalSumOrMax<S> with every S of the 8 types. Reference in int64 (values are 16-bit).
struct BlockStat { long points = 0; long mism = 0; };

template <class S, class A, class B> inline bool natOk(A a, B b, long long la, long long lb) {
    const long long maxS = sizeof(S) >= 8 ? LLONG_MAX : (long long)std::numeric_limits<S>::max(); // 16-bit sums never approach 2^63
    const bool expHas = la >= 0 && lb >= 0 && la + lb <= maxS;
    const std::optional<S> r = NaturalSum<S>(a, b);
    S var = garbage<S>();
    const S ret = SetToNaturalSumOrMax(var, a, b);
    if (r.has_value() != expHas) return false;
    if (expHas) return (long long)*r == la + lb && (long long)var == la + lb && ret == var;
    return var == std::numeric_limits<S>::max() && ret == var;
}

template <class A, class B> void blockFn(Ctx &ctx, int ta, int tb, long aLo, long aHi, BlockStat &st) {
    const long bLo = (long)std::numeric_limits<B>::min(), bHi = (long)std::numeric_limits<B>::max();
    const long long maxA = (long long)std::numeric_limits<A>::max();
    uint64_t fbits = 0;
    for (long la = aLo; la <= aHi; ++la) {
        const A a = static_cast<A>(la);
        for (long lb = bLo; lb <= bHi; ++lb) {
            const B b = static_cast<B>(lb);
            bool ok = Less(a, b) == (la < lb);
            const std::optional<A> inc = IncreaseSum(a, b);
            const bool incExp = la >= 0 && lb >= 0 && la + lb <= maxA;
            ok = ok && inc.has_value() == incExp && (!incExp || (long long)*inc == la + lb);
            ok = ok && natOk<int8_t>(a, b, la, lb) && natOk<uint8_t>(a, b, la, lb) && natOk<int16_t>(a, b, la, lb) && natOk<uint16_t>(a, b, la, lb)
                 && natOk<int32_t>(a, b, la, lb);
            // 16x16-bit blocks stop at S=int32 (the wider S are enumerated with every 8x16 and 16x8 pair): 12 checks per point instead of 18
            if (sizeof(A) == 1 || sizeof(B) == 1)
                ok = ok && natOk<uint32_t>(a, b, la, lb) && natOk<int64_t>(a, b, la, lb) && natOk<uint64_t>(a, b, la, lb);
            fbits |= 1ULL << ((la < 0 ? 0 : la == 0 ? 1 : 2) * 3 + (lb < 0 ? 0 : lb == 0 ? 1 : 2) + (incExp ? 9 : 0) + (la < lb ? 18 : 0));
            if (!ok) {
                ++st.mism;
                if (st.mism <= 20) {
                    // re-run the failing point through the point path so that the witness is the minimal one
                    const std::string saved = ctx.current;
                    for (char fn : {'L', 'I', '2'}) for (int s = 0; s < (fn == '2' ? NT : 1); ++s) {
                        Point p{fn, s, ta, tb, 0, (i128)la, (i128)lb, 0};
                        ctx.current = enc(p);
                        runPoint(ctx, p);
                    }
                    ctx.current = saved;
                }
            }
        }
    }
    st.points += (aHi - aLo + 1) * (bHi - bLo + 1);
    ctx.feature(std::string("X") + TypeName[ta] + TypeName[tb] + std::to_string(fbits));
}

typedef void (*BlockP)(Ctx &, int, int, long, long, BlockStat &);
template <size_t... K> constexpr std::array<BlockP, 16> mkBlock(std::index_sequence<K...>) { return {{&blockFn<T<K / 4>, T<K % 4>>...}}; }
const std::array<BlockP, 16> BlockTab = mkBlock(std::make_index_sequence<16>());

void runBlock(Ctx &ctx, const std::string &w) {
    int a, b; long lo, hi;
    if (sscanf(w.c_str(), "X %d %d %ld %ld", &a, &b, &lo, &hi) != 4) return;
    if (a < 0 || a > 3 || b < 0 || b > 3 || lo > hi || !fits(a, lo) || !fits(a, hi)) return;
    BlockStat st;
    BlockTab[a * 4 + b](ctx, a, b, lo, hi, st);
    ctx.ubsanGate({"SquidMath.h"});
    ctx.count("exhaustive_points", st.points);
    // Less + IncreaseSum + (NaturalSum + SetToNaturalSumOrMax) x 8 result types (5 for 16x16-bit pairs)
    ctx.count("exhaustive_point_checks", st.points * ((a >= 2 && b >= 2) ? 12 : 18));
    if (st.mism) ctx.count("exhaustive_mismatching_points", st.mism);
}

void run(Ctx &ctx, const std::string &w) {
    if (!w.empty() && w[0] == 'X') { runBlock(ctx, w); return; }
    Point p;
    if (!dec(w, p)) return;
    runPoint(ctx, p);
}

// ---- generator -----------------------------------------------------------------------------------
i128 clampTo(int t, i128 v, Rng &r) {
    if (fits(t, v)) return v;
    return r.coin() ? tmax(t) - (i128)r.below(4) : tmin(t) + (i128)r.below(4);
}
i128 genValue(Rng &r, int t) {
    switch (r.below(8)) {
    case 0: case 1: { // limits of any of the 8 types +- 3
        const int o = (int)r.below(NT);
        return clampTo(t, (r.coin() ? tmax(o) : tmin(o)) + r.range(-3, 3), r); }
    case 2: { // powers of two +- 2, either sign
        i128 v = ((i128)1 << r.below(65)) + r.range(-2, 2);
        if (r.chance(1, 3)) v = -v;
        return clampTo(t, v, r); }
    case 3: return clampTo(t, r.range(-4, 260), r);
    case 4: return clampTo(t, r.range(-3, 3), r);
    case 5: return r.coin() ? tmax(t) - (i128)r.below(3) : tmin(t) + (i128)r.below(3);
    default: { // random width
        const int bits = 1 + (int)r.below(TypeBits[t]);
        unsigned __int128 u = r.next();
        if (bits < 64) u &= (((unsigned __int128)1 << bits) - 1);
        i128 v = (i128)u;
        if (TypeSigned[t] && r.coin()) v = -v;
        return clampTo(t, v, r); }
    }
}

std::string gen(Rng &r) {
    Point p{'L', 0, 0, 0, 0, 0, 0, 0};
    // favour the wide types: the narrow ones are enumerated exhaustively
    auto pickT = [&]() { return r.chance(3, 4) ? 4 + (int)r.below(4) : (int)r.below(NT); };
    auto pick3 = [&]() { return Sub3[r.below(NT3)]; };
    static const char fns[] = {'L', 'L', 'I', 'I', 'J', '1', '2', '2', '2', '3', '3', '3'};
    p.fn = fns[r.below(sizeof fns)];
    p.s = pickT();
    const bool three = p.fn == 'J' || p.fn == '3';
    p.a = three ? pick3() : pickT();
    p.b = three ? pick3() : pickT();
    p.c = three ? pick3() : 0;
    p.va = genValue(r, p.a);
    p.vb = genValue(r, p.b);
    p.vc = three ? genValue(r, p.c) : 0;
    if (p.fn == 'L') {
        if (r.chance(1, 3)) p.vb = clampTo(p.b, p.va + r.range(-2, 2), r);
        p.s = 0; p.c = 0;
    } else if (p.fn == '1') {
        if (r.chance(1, 2)) p.va = clampTo(p.a, tmax(p.s) + r.range(-2, 2), r);
        p.b = 0; p.vb = 0;
    } else {
        const int s = (p.fn == 'I' || p.fn == 'J') ? p.a : p.s;
        if (p.fn == 'I' || p.fn == 'J') p.s = 0;
        // steer the last argument to the overflow boundary of the result type
        if (r.chance(1, 2)) {
            if (r.coin()) { if (p.va < 0) p.va = -(p.va + 1); if (p.vb < 0) p.vb = -(p.vb + 1); }
            if (three) p.vc = clampTo(p.c, tmax(s) - p.va - p.vb + r.range(-2, 2), r);
            else p.vb = clampTo(p.b, tmax(s) - p.va + r.range(-2, 2), r);
        }
    }
    return enc(p);
}

int drive(Ctx &ctx) {
    if (!ctx.replaying) {
        // exhaustive part, split over the shards by block number
        long blk = 0;
        for (int a = 0; a < 4; ++a) for (int b = 0; b < 4; ++b) {
            const bool wide = TypeBits[a] == 16 && TypeBits[b] == 16;
            const long lo = (long)tmin(a), hi = (long)tmax(a);
            const long step = TypeBits[a] == 8 ? 32 : (TypeBits[b] == 8 ? 4096 : 64);
            for (long x = lo; x <= hi; x += step) {
                const long y = std::min(hi, x + step - 1);
                if (wide && !ctx.thorough) {
                    // quick tier: only the blocks of a that touch a boundary (min, -1/0, max, 2^7, 2^8, 2^15)
                    bool edge = false;
                    for (long e : {lo, -1L, 0L, 127L, 128L, 255L, 256L, 32767L, 32768L, hi}) if (e >= x && e <= y) edge = true;
                    if (!edge) continue;
                }
                if (blk++ % ctx.nshards != ctx.shard) continue;
                const std::string w = "X " + std::to_string(a) + " " + std::to_string(b) + " " + std::to_string(x) + " " + std::to_string(y);
                ctx.begin(w);
                run(ctx, w);
            }
        }
    }
    return vh::Loop(ctx, gen, run);
}

} // namespace

VH_REGISTER(C52, drive, "SquidMath Less/IncreaseSum/NaturalSum/SetToNaturalSumOrMax vs wide-integer reference, exhaustive 8/16-bit");
