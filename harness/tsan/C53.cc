// C53 Shared page allocator never double-allocates or loses pages -- TSan engine (real threads).
// Real Ipc::Mem::PageStack, real std::atomic, 4-16 threads popping/holding/pushing pages.
// Canary: one plain payload word per page, touched only by the thread that popped the page.
// Logical monitors: atomic owner table (exchange), count-based failed-pop rule, quiescent drain.
#include "squid.h"
#include "vt.h"
#include "ipc/mem/PageStack.h"
#include "ipc/mem/Page.h"

#include <sstream>

using vh::Ctx;
using vh::Rng;

// ---- canary accessors (DESIGN 6.2): the only code that touches page payload words -----------------
VT_CANARY void verif_canary_page_write(uint64_t *payload, uint64_t tag) { payload[0] = tag; payload[1] = ~tag; }
VT_CANARY uint64_t verif_canary_page_read(const uint64_t *payload) { return payload[0] == ~payload[1] ? payload[0] : 0; }

namespace {

std::string gen(Rng &r)
{
    static const int caps[] = {1, 2, 3, 5, 8, 17, 31, 63, 64, 65, 100, 127, 128, 129, 130, 200, 257, 1000, 4097};
    std::ostringstream o;
    const int cap = caps[r.below(sizeof(caps) / sizeof(*caps))];
    const int thr = 4 + (int)r.below(13);              // 4..16
    const int ops = 200 + (int)r.below(1801);          // 200..2000 per thread
    // hold: pages a thread may keep at once. Two regimes: exhaustion reachable (thr*hold >= cap) or
    // "a pop must never fail" (thr*hold < cap), where every failed pop is judged.
    int hold = 1 + (int)r.below(6);
    if (r.below(3) == 0 && cap > thr) hold = std::max(1, (cap - 1) / thr);
    if (hold > 64) hold = 64;
    o << "cap=" << cap << " thr=" << thr << " ops=" << ops << " hold=" << hold << " full=" << (r.below(4) != 0)
      << " rel=" << r.below(2) << " dly=" << r.below(vt::DelayModes) << " s=" << r.next() % 1000000007ULL;
    return o.str();
}

// packed lower bound A on the number of free pages (low 32 bits, biased) and the number of times A went negative (high 32)
struct Avail {
    static constexpr int64_t Bias = 1 << 30;
    std::atomic<uint64_t> v{0};
    void init(long a) { v.store((uint64_t)(a + Bias), vt::Rlx); }
    static long A(uint64_t x) { return (long)(x & 0xffffffffu) - Bias; }
    static uint32_t dips(uint64_t x) { return (uint32_t)(x >> 32); }
    // a pop is invoked: A-1; returns the packed value after the decrement
    uint64_t enter() {
        uint64_t o = v.load(vt::Rlx), n;
        do {
            const long a = A(o) - 1;
            n = ((uint64_t)(dips(o) + (a < 0 ? 1 : 0)) << 32) | (uint64_t)(a + Bias);
        } while (!v.compare_exchange_weak(o, n, vt::Rlx, vt::Rlx));
        return n;
    }
    void add() { v.fetch_add(1, vt::Rlx); } // a push returned, or a failed pop withdraws its reservation
    uint64_t peek() const { return v.load(vt::Rlx); }
};

void run(Ctx &ctx, const std::string &w)
{
    const int cap = (int)vt::Param(w, "cap", 0), thr = (int)vt::Param(w, "thr", 4), ops = (int)vt::Param(w, "ops", 200);
    const int hold = (int)vt::Param(w, "hold", 2), full = (int)vt::Param(w, "full", 1), rel = (int)vt::Param(w, "rel", 0);
    const int dly = (int)vt::Param(w, "dly", 0);
    const uint64_t s = (uint64_t)vt::Param(w, "s", 1);
    if (cap < 1 || cap > 100000 || thr < 1 || thr > 64 || ops < 1 || ops > 1000000 || hold < 1) return;

    Ipc::Mem::PageStack::Config cfg;
    cfg.poolId = 77;
    cfg.pageSize = 32;
    cfg.capacity = cap;
    cfg.createFull = full != 0;
    const size_t sz = Ipc::Mem::PageStack::SharedMemorySize(cfg);
    void *mem = calloc(1, sz + 64);
    auto *stack = new (mem) Ipc::Mem::PageStack(cfg);

    std::vector<uint64_t> payload(2 * (size_t)(cap + 1), 0);              // canaries (plain memory)
    std::vector<std::atomic<uint32_t>> owner(cap + 1);                     // 0 = not held, else tid+1
    for (auto &o : owner) o.store(0, vt::Rlx);
    std::vector<std::vector<uint32_t>> mine(thr);

    // single-threaded prologue when not created full: every page starts held; two thirds go into the stack
    int inStack = full ? cap : 0;
    if (!full) {
        for (int p = 1; p <= cap; ++p) {
            if (p % 3 == 0 && (int)mine[p % thr].size() < hold) { mine[p % thr].push_back(p); owner[p].store(p % thr + 1, vt::Rlx); continue; }
            Ipc::Mem::PageId id; id.pool = cfg.poolId; id.number = p;
            stack->push(id);
            ++inStack;
        }
        for (int t = 0; t < thr; ++t) for (uint32_t p : mine[t]) verif_canary_page_write(&payload[2 * p], ((uint64_t)(t + 1) << 40) | p);
    }
    Avail avail;
    avail.init(inStack);
    const bool neverFail = (long)thr * hold < cap; // then at every instant at least one page is free by count

    vt::Fail fail;
    std::atomic<long> pops{0}, failedPops{0}, judgedFailed{0}, pushes{0};

    const vt::RunStats st = vt::RunThreads(thr, [&](int t) {
        Rng rng(s * 1315423911ULL + (uint64_t)t * 2654435761ULL + 17);
        vt::Delay delay(s ^ ((uint64_t)t << 20) ^ 0x5bd1e995, dly);
        std::vector<uint32_t> &held = mine[t];
        long seq = 0, myPops = 0, myFailed = 0, myJudged = 0, myPushes = 0;
        auto pushOne = [&](size_t idx) {
            const uint32_t p = held[idx];
            held[idx] = held.back();
            held.pop_back();
            // still our payload? (nobody else may have been given this page while we held it)
            const uint64_t v = verif_canary_page_read(&payload[2 * p]);
            if ((v >> 40) != (uint64_t)(t + 1) || (v & 0xffffffffu) != p)
                fail("pagestack:payload-clobbered", "thread " + std::to_string(t) + " holds page " + std::to_string(p) + " but its payload was overwritten by somebody else (two holders)");
            const uint32_t was = owner[p].exchange(0, vt::Rlx); // from the moment push() is invoked the page may be handed out
            if (was != (uint32_t)(t + 1))
                fail("pagestack:double-allocation", "page " + std::to_string(p) + " held by thread " + std::to_string(t) + " is registered to holder " + std::to_string((long)was - 1));
            Ipc::Mem::PageId id; id.pool = cfg.poolId; id.number = p;
            stack->push(id);
            avail.add();
            ++myPushes;
        };
        for (int i = 0; i < ops && !fail.any(); ++i) {
            delay();
            const bool wantPop = held.empty() || ((int)held.size() < hold && rng.below(100) < 55);
            if (wantPop && (int)held.size() < hold) {
                const uint64_t before = avail.enter();
                Ipc::Mem::PageId id;
                const bool ok = stack->pop(id);
                if (!ok) {
                    ++myFailed;
                    const uint64_t after = avail.peek();
                    // A >= 0 after our own reservation and never negative since: a page was free (by count) during the whole call
                    if (Avail::A(before) >= 0 && Avail::dips(after) == Avail::dips(before)) {
                        ++myJudged;
                        fail("pagestack:pop-failed-with-free-pages", "pop failed although the lower bound on the free-page count stayed positive during the whole call (bound after reserving: " + std::to_string(Avail::A(before)) + ")");
                    } else if (neverFail) {
                        fail("pagestack:pop-failed-with-free-pages", "pop failed although threads*hold < capacity (" + std::to_string(thr) + "*" + std::to_string(hold) + " < " + std::to_string(cap) + ")");
                    }
                    avail.add();
                    continue;
                }
                ++myPops;
                const uint32_t p = id.number;
                if (!id.set() || p < 1 || p > (uint32_t)cap || id.pool != cfg.poolId || !stack->pageIdIsValid(id)) {
                    fail("pagestack:invalid-page-popped", "pop returned invalid page " + std::to_string(p));
                    break;
                }
                const uint32_t prev = owner[p].exchange((uint32_t)(t + 1), vt::Rlx);
                if (prev != 0) {
                    fail("pagestack:double-allocation", "pop gave page " + std::to_string(p) + " to thread " + std::to_string(t) + " while thread " + std::to_string((long)prev - 1) + " holds it");
                    break;
                }
                const uint64_t tag = ((uint64_t)(t + 1) << 40) | ((uint64_t)(++seq & 0xff) << 32) | p;
                verif_canary_page_write(&payload[2 * p], tag);
                delay();
                if (verif_canary_page_read(&payload[2 * p]) != tag)
                    fail("pagestack:payload-clobbered", "payload of freshly popped page " + std::to_string(p) + " changed under thread " + std::to_string(t));
                held.push_back(p);
            } else if (!held.empty()) {
                pushOne(rng.below(held.size()));
            }
        }
        if (rel) while (!held.empty() && !fail.any()) pushOne(held.size() - 1);
        pops.fetch_add(myPops, vt::Rlx); failedPops.fetch_add(myFailed, vt::Rlx); judgedFailed.fetch_add(myJudged, vt::Rlx); pushes.fetch_add(myPushes, vt::Rlx);
    });

    ctx.count("ops", pops + failedPops + pushes);
    ctx.count("pages_popped", pops);
    ctx.count("pages_pushed", pushes);
    ctx.count("failed_pops", failedPops);
    ctx.count("threads_run", thr);
    if (st.threw) ctx.violation("pagestack:exception", "thread body threw: " + st.what);
    if (fail.any()) ctx.violation(fail.key, fail.detail);

    // quiescence: popping until failure yields exactly the pages nobody holds, each once, none of them held
    long drained = 0;
    if (!fail.any() && !st.threw) {
        long heldCount = 0;
        for (auto &m : mine) heldCount += (long)m.size();
        std::vector<char> seen(cap + 1, 0);
        Ipc::Mem::PageId id;
        while (drained <= cap && stack->pop(id)) {
            if (id.number < 1 || id.number > (uint32_t)cap) { ctx.violation("pagestack:invalid-page-popped", "quiescent pop returned invalid page " + std::to_string(id.number)); break; }
            if (owner[id.number].load(vt::Rlx) || seen[id.number]) { ctx.violation("pagestack:double-allocation", "quiescent drain returned page " + std::to_string(id.number) + " that is held or was already returned"); break; }
            seen[id.number] = 1;
            ++drained;
            id = Ipc::Mem::PageId();
        }
        if (drained != cap - heldCount)
            ctx.violation("pagestack:lost-pages", "at quiescence " + std::to_string(drained) + " pages could be popped, expected " + std::to_string(cap - heldCount) + " (capacity " + std::to_string(cap) + ", held " + std::to_string(heldCount) + ")");
        ctx.count("pages_drained_at_quiescence", drained);
    }

    std::ostringstream f;
    f << "cap:" << vt::Bucket(cap) << " thr:" << (thr <= 6 ? "4-6" : thr <= 11 ? "7-11" : "12-16") << " full:" << full << " rel:" << rel
      << " regime:" << (neverFail ? "never-fail" : "exhaustible") << " failed-pops-seen:" << (failedPops.load() > 0) << " dly:" << dly;
    ctx.feature(f.str(), pops.load() > 0 && pushes.load() > 0);
    free(mem);
}

int drive(Ctx &ctx) { return vh::Loop(ctx, gen, run); }

} // namespace

VH_REGISTER(C53, drive, "PageStack under real threads + TSan; page payload canaries, owner table, count-based failed-pop rule, quiescent drain");
