// C54 Shared read/write lock provides mutual exclusion -- TSan engine (real threads).
// One real Ipc::ReadWriteLock, 4-16 threads running PRNG lock transactions.
// Canaries (plain words, accessed only in verif_canary_rw_*):
//   excl : written by an exclusive holder that is NOT in append mode (incl. after a successful
//          stopAppendingAndRestoreExclusive()), read by every shared/headers holder;
//   app  : written by the exclusive holder while it is in append mode -- readers admitted beside the appender
//          never touch it (the append promise: the writer only adds data readers do not look at yet), and the
//          appender does not touch `excl`;
//   hdr  : written by the lockHeaders() holder only.
// With a correct lock every one of these accesses is ordered by the lock's own atomics; TSan reports a race
// exactly when two conflicting holders are inside at once.
// Logical monitor: relaxed atomic holder counters, bumped after an acquisition returned and dropped before the
// release is invoked, sampled inside the critical section.
#include "squid.h"
#include "vt.h"
#include "ipc/ReadWriteLock.h"

#include <sstream>

using vh::Ctx;
using vh::Rng;

VT_CANARY void verif_canary_rw_excl_write(uint64_t *c, uint64_t v) { c[0] = v; c[1] = ~v; }
VT_CANARY uint64_t verif_canary_rw_excl_read(const uint64_t *c) { const uint64_t a = c[0], b = c[1]; return a == ~b ? a : ~0ULL; }
VT_CANARY void verif_canary_rw_append_write(uint64_t *c, uint64_t v) { c[0] = v; c[1] = ~v; }
VT_CANARY uint64_t verif_canary_rw_append_read(const uint64_t *c) { const uint64_t a = c[0], b = c[1]; return a == ~b ? a : ~0ULL; }
VT_CANARY void verif_canary_rw_hdr_write(uint64_t *c, uint64_t v) { c[0] = v; c[1] = ~v; }
VT_CANARY uint64_t verif_canary_rw_hdr_read(const uint64_t *c) { const uint64_t a = c[0], b = c[1]; return a == ~b ? a : ~0ULL; }

namespace {

std::string gen(Rng &r)
{
    std::ostringstream o;
    // mix: percentages of reader / headers / writer transactions
    static const int mixes[][3] = {{60, 10, 30}, {30, 10, 60}, {80, 15, 5}, {45, 45, 10}, {10, 5, 85}, {34, 33, 33}};
    const int m = (int)r.below(sizeof(mixes) / sizeof(*mixes));
    o << "thr=" << 4 + r.below(13) << " ops=" << 200 + r.below(1801) << " mix=" << m << " app=" << r.below(4) * 30
      << " dly=" << r.below(vt::DelayModes) << " s=" << r.next() % 1000000007ULL;
    return o.str();
}

struct alignas(64) Canaries { uint64_t excl[2]; char pad1[48]; uint64_t app[2]; char pad2[48]; uint64_t hdr[2]; char pad3[48]; };

void run(Ctx &ctx, const std::string &w)
{
    static const int mixes[][3] = {{60, 10, 30}, {30, 10, 60}, {80, 15, 5}, {45, 45, 10}, {10, 5, 85}, {34, 33, 33}};
    const int thr = (int)vt::Param(w, "thr", 4), ops = (int)vt::Param(w, "ops", 200), dly = (int)vt::Param(w, "dly", 0);
    const int mix = (int)vt::Param(w, "mix", 0) % 6, app = (int)vt::Param(w, "app", 30);
    const uint64_t s = (uint64_t)vt::Param(w, "s", 1);
    if (thr < 1 || thr > 64 || ops < 1 || ops > 1000000) return;

    // zero-filled storage, as in Squid's shared segments (std::atomic_flag `updating` has no initialiser before C++20)
    void *lockMem = calloc(1, sizeof(Ipc::ReadWriteLock) + 64);
    Ipc::ReadWriteLock &lock = *new (lockMem) Ipc::ReadWriteLock;
    auto *can = new Canaries();
    verif_canary_rw_excl_write(can->excl, 0);
    verif_canary_rw_append_write(can->app, 0);
    verif_canary_rw_hdr_write(can->hdr, 0);

    // monitor state: relaxed atomics only (no happens-before edges for TSan, no locks)
    std::atomic<int> exclHolders{0};   // threads between a successful exclusive acquisition and the start of its release
    std::atomic<int> strictExcl{0};    // ... of those, the ones not in append mode
    std::atomic<int> sharedHolders{0}; // threads between a successful shared/headers acquisition and the start of its release
    std::atomic<int> hdrHolders{0};
    vt::Fail fail;
    std::atomic<long> acq{0}, failed{0}, besideAppender{0}, restoredTrue{0}, restoredFalse{0}, switched{0}, switchFailed{0}, hdrBusy{0}, excls{0}, shareds{0};

    const vt::RunStats st = vt::RunThreads(thr, [&](int t) {
        Rng rng(s * 6364136223846793005ULL + (uint64_t)t * 1442695040888963407ULL + 3);
        vt::Delay delay(s ^ ((uint64_t)t << 24) ^ 0x2545F491, dly);
        long seq = 0, myAcq = 0, myFailed = 0, myBeside = 0, myRT = 0, myRF = 0, mySw = 0, mySwF = 0, myHdrBusy = 0, myEx = 0, mySh = 0;
        const std::string me = "thread " + std::to_string(t);

        // critical section of a strict (non-appending) exclusive holder; `how` names the acquisition for the key
        auto strictSection = [&](const char *how) {
            if (strictExcl.fetch_add(1, vt::Rlx) != 0) fail(std::string("rwlock:two-writers:") + how, me + " holds the exclusive lock (not appending) while another thread does too");
            if (sharedHolders.load(vt::Rlx) != 0) fail(std::string("rwlock:writer-beside-reader:") + how, me + " holds the exclusive lock (not appending) while a shared holder is inside");
            const uint64_t tag = ((uint64_t)(t + 1) << 32) | (uint64_t)(++seq & 0xffffffff);
            verif_canary_rw_excl_write(can->excl, tag);
            delay();
            if (verif_canary_rw_excl_read(can->excl) != tag) fail(std::string("rwlock:exclusive-data-changed:") + how, "data written by " + me + " under the exclusive lock changed while it still holds the lock");
            if (sharedHolders.load(vt::Rlx) != 0) fail(std::string("rwlock:writer-beside-reader:") + how, me + " holds the exclusive lock (not appending) while a shared holder is inside");
            strictExcl.fetch_sub(1, vt::Rlx);
        };
        // the whole life of an exclusive hold, entered right after an acquisition returned true
        auto exclusiveHold = [&](const char *how) {
            ++myEx;
            if (exclHolders.fetch_add(1, vt::Rlx) != 0) fail(std::string("rwlock:two-writers:") + how, me + " got the exclusive lock while another thread holds it");
            strictSection(how);
            if ((int)rng.below(100) < app) {
                lock.startAppending(); // readers may be admitted from now on
                const uint64_t tag = ((uint64_t)(t + 1) << 32) | (uint64_t)(++seq & 0xffffffff);
                verif_canary_rw_append_write(can->app, tag);
                bool beside = false;
                for (int round = 0; round < 3; ++round) {
                    delay();
                    if (sharedHolders.load(vt::Rlx) > 0) beside = true; // observed event: a reader is inside beside the appender
                }
                if (beside) ++myBeside;
                if (verif_canary_rw_append_read(can->app) != tag) fail("rwlock:append-data-changed", "data appended by " + me + " changed while it holds the lock in append mode (second writer)");
                if (rng.below(2)) {
                    if (lock.stopAppendingAndRestoreExclusive()) {
                        ++myRT;
                        if (sharedHolders.load(vt::Rlx) != 0) fail("rwlock:exclusive-restored-beside-reader", "stopAppendingAndRestoreExclusive() returned true to " + me + " while a shared holder is inside");
                        strictSection("restoreExclusive");
                    } else {
                        ++myRF; // readers may still be inside: nothing exclusive may be touched
                    }
                }
            }
            exclHolders.fetch_sub(1, vt::Rlx);
        };
        auto sharedSection = [&](const char *how) {
            ++mySh;
            sharedHolders.fetch_add(1, vt::Rlx);
            if (strictExcl.load(vt::Rlx) != 0) fail(std::string("rwlock:reader-beside-exclusive-writer:") + how, me + " got a shared lock while a writer that is not appending holds the exclusive lock");
            const uint64_t v1 = verif_canary_rw_excl_read(can->excl);
            delay();
            const uint64_t v2 = verif_canary_rw_excl_read(can->excl);
            if (v1 != v2 || v1 == ~0ULL) fail(std::string("rwlock:shared-data-changed:") + how, "exclusive-only data changed (or was torn) while " + me + " holds a shared lock");
            if (strictExcl.load(vt::Rlx) != 0) fail(std::string("rwlock:reader-beside-exclusive-writer:") + how, me + " holds a shared lock while a writer that is not appending holds the exclusive lock");
        };

        for (int i = 0; i < ops && !fail.any(); ++i) {
            delay();
            const int k = (int)rng.below(100);
            if (k < mixes[mix][0]) {
                // reader transaction
                if (!lock.lockShared()) { ++myFailed; continue; }
                ++myAcq;
                sharedSection("lockShared");
                sharedHolders.fetch_sub(1, vt::Rlx);
                if (rng.below(5) == 0) {
                    if (lock.unlockSharedAndSwitchToExclusive()) { ++mySw; ++myAcq; exclusiveHold("unlockSharedAndSwitchToExclusive"); lock.unlockExclusive(); }
                    else ++mySwF;
                } else lock.unlockShared();
            } else if (k < mixes[mix][0] + mixes[mix][1]) {
                // headers updater: a reader that may also update the headers, alone
                if (!lock.lockHeaders()) { ++myFailed; ++myHdrBusy; continue; }
                ++myAcq;
                if (hdrHolders.fetch_add(1, vt::Rlx) != 0) fail("rwlock:two-header-updaters", me + " got the headers lock while another thread holds it");
                sharedSection("lockHeaders");
                const uint64_t tag = ((uint64_t)(t + 1) << 32) | (uint64_t)(++seq & 0xffffffff);
                verif_canary_rw_hdr_write(can->hdr, tag);
                delay();
                if (verif_canary_rw_hdr_read(can->hdr) != tag) fail("rwlock:header-data-changed", "headers written by " + me + " changed while it holds the headers lock");
                hdrHolders.fetch_sub(1, vt::Rlx);
                sharedHolders.fetch_sub(1, vt::Rlx);
                lock.unlockHeaders();
            } else {
                if (!lock.lockExclusive()) { ++myFailed; continue; }
                ++myAcq;
                exclusiveHold("lockExclusive");
                if (rng.below(4) == 0) {
                    // keep holding as a reader across the switch
                    lock.switchExclusiveToShared();
                    sharedSection("switchExclusiveToShared");
                    sharedHolders.fetch_sub(1, vt::Rlx);
                    lock.unlockShared();
                } else lock.unlockExclusive();
            }
        }
        acq.fetch_add(myAcq, vt::Rlx); failed.fetch_add(myFailed, vt::Rlx); besideAppender.fetch_add(myBeside, vt::Rlx);
        restoredTrue.fetch_add(myRT, vt::Rlx); restoredFalse.fetch_add(myRF, vt::Rlx); switched.fetch_add(mySw, vt::Rlx); switchFailed.fetch_add(mySwF, vt::Rlx);
        hdrBusy.fetch_add(myHdrBusy, vt::Rlx); excls.fetch_add(myEx, vt::Rlx); shareds.fetch_add(mySh, vt::Rlx);
    });

    ctx.count("ops", acq + failed);
    ctx.count("acquisitions", acq);
    ctx.count("failed_acquisitions", failed);
    ctx.count("exclusive_holds", excls);
    ctx.count("shared_holds", shareds);
    ctx.count("readers_seen_beside_appender", besideAppender);
    ctx.count("restore_exclusive_true", restoredTrue);
    ctx.count("restore_exclusive_false", restoredFalse);
    ctx.count("shared_to_exclusive_switches", switched);
    ctx.count("threads_run", thr);
    if (st.threw) ctx.violation("rwlock:exception", st.what);
    if (fail.any()) ctx.violation(fail.key, fail.detail);
    else if (!st.threw) {
        // quiescence: everything released => idle counters and fresh acquisitions succeed
        if (lock.readers != 0 || lock.writing || lock.appending)
            ctx.violation("rwlock:not-idle-after-release", "after all holders released: readers=" + std::to_string(lock.readers.load()) + " writing=" + std::to_string(lock.writing.load()) + " appending=" + std::to_string(lock.appending.load()));
        else if (!lock.lockExclusive())
            ctx.violation("rwlock:stuck-after-release", "a fresh lockExclusive() fails although nobody holds the lock (leaked level counters)");
        else {
            lock.unlockExclusive();
            if (!lock.lockShared()) ctx.violation("rwlock:stuck-after-release", "a fresh lockShared() fails although nobody holds the lock");
            else if (!lock.lockHeaders()) ctx.violation("rwlock:stuck-after-release", "lockHeaders() fails on an idle lock");
        }
    }
    std::ostringstream f;
    f << "thr:" << (thr <= 6 ? "4-6" : thr <= 11 ? "7-11" : "12-16") << " mix:" << mix << " app:" << (app > 0) << " dly:" << dly
      << " failed-acq:" << (failed.load() > 0) << " beside-appender:" << (besideAppender.load() > 0) << " restoreT:" << (restoredTrue.load() > 0)
      << " restoreF:" << (restoredFalse.load() > 0) << " switch:" << (switched.load() > 0);
    ctx.feature(f.str(), excls.load() > 0 && shareds.load() > 0);
    delete can;
    free(lockMem);
}

int drive(Ctx &ctx) { return vh::Loop(ctx, gen, run); }

} // namespace

VH_REGISTER(C54, drive, "ReadWriteLock under real threads + TSan; exclusive/append/headers canaries, relaxed holder counters");
