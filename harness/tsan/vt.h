// vtsan core: real-thread runner, PRNG delays, thread-safe failure latch, TSan log attribution.
// The drivers (C53.cc .. C56.cc in this directory) reuse vh::Ctx / vh::Rng / VH_REGISTER from ../vh.h;
// vt_main.cc implements the vh:: functions for this binary (vh_main.cc needs the ASan/UBSan runtime and the
// whole squid image, neither of which exists in the TSan build).
#ifndef VERIF_VT_H
#define VERIF_VT_H

#include "vh.h"

#include <atomic>
#include <functional>
#include <mutex>
#include <string>
#include <sched.h>
#include <unistd.h>

// Every access to a harness-owned canary goes through a function declared with this macro.
// extern "C": the symbol name (and therefore the frame TSan prints) is exactly verif_canary_<what>.
#define VT_CANARY extern "C" __attribute__((noinline, noclone))

namespace vt {

constexpr auto Rlx = std::memory_order_relaxed;

/// first failure wins; the mutex is taken on the failure path only (never around a critical section)
struct Fail {
    std::atomic<bool> hit{false};
    std::mutex m;
    std::string key, detail;
    void operator()(const std::string &k, const std::string &d) {
        std::lock_guard<std::mutex> g(m);
        if (!hit.load(Rlx)) { key = k; detail = d; hit.store(true, Rlx); }
    }
    bool any() const { return hit.load(Rlx); }
};

inline void Spin(unsigned n) { for (unsigned i = 0; i < n; ++i) asm volatile("pause" ::: "memory"); }

/// seeded delay pattern between operations. The pattern (not the resulting interleaving) is a function of the seed.
struct Delay {
    vh::Rng rng;
    int mode;
    Delay(uint64_t seed, int m): rng(seed), mode(m) {}
    void operator()() {
        switch (mode) {
        case 0: return;                                                  // full speed
        case 1: if (rng.below(8) == 0) sched_yield(); return;            // occasional yield
        case 2: Spin((unsigned)rng.below(96)); return;                   // short random spins
        case 3: {                                                        // mixed: spins, yields, rare sleeps
            const unsigned r = (unsigned)rng.below(64);
            if (r < 24) Spin(r * 8);
            else if (r < 30) sched_yield();
            else if (r == 63 && rng.below(4) == 0) usleep((useconds_t)rng.below(120));
            return; }
        default: {                                                       // bursty: long quiet runs, then a stall
            if (rng.below(40) == 0) { sched_yield(); Spin((unsigned)rng.below(2000)); }
            return; }
        }
    }
};
constexpr int DelayModes = 5;

struct RunStats {
    bool threw = false;
    std::string what;
    double seconds = 0;
};

/// runs body(0..n-1) on n real threads released together; exceptions are caught and reported
RunStats RunThreads(int n, const std::function<void(int)> &body);

/// global relaxed logical clock (history intervals). Relaxed on purpose: a seq_cst clock would be a
/// synchronisation point between all threads at every operation and hide every race from TSan.
/// Interval reasoning based on it assumes x86-TSO (lock xadd is a full barrier in hardware).
long Tick();

/// reads what TSan appended to its log since the last call, attributes canary reports to the running case
void TsanScan(vh::Ctx &ctx);

/// a Squid assertion / fatal() fired (possibly in a worker thread): record the violation for the running case,
/// write the result JSON and leave the process with status 0
[[noreturn]] void Die(const std::string &key, const std::string &detail);

/// parameter lookup in a "k=v k=v" witness
long Param(const std::string &w, const char *name, long dflt);

/// coarse bucket label for a size
const char *Bucket(long v);

} // namespace vt

#endif
