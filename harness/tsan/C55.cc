// C55 Shared store index exposes only complete, stable entries -- TSan engine (real threads).
// Real Ipc::StoreMap in real POSIX shm segments (one mapping shared by all threads), 4-12 threads writing,
// appending, aborting, reading, deleting and purging a few keys that may collide on an anchor.
// Canaries (plain memory owned by the harness, accessed only in verif_canary_slice_* / verif_canary_anchor_*):
//   slice payload : filled by the writer before the slice is linked into the chain (published), read by readers
//                   while they hold the entry open, cleared by the StoreMapCleaner callback;
//   anchor.basics : the lock-protected plain fields of the real anchor (timestamp carries the generation).
// Logical monitors: writer table per anchor (exchange), per-slice reader counts checked in the cleaner callback,
// tag check on every walked slice, post-run delete-before-open rule over per-thread histories.
#include "squid.h"
#include "vt.h"
#include "ipc/StoreMap.h"
#include "sbuf/SBuf.h"
#include "store_key_md5.h"
#include "SquidConfig.h"

#include <sstream>
#include <unistd.h>

using vh::Ctx;
using vh::Rng;

namespace {
struct Payload { uint64_t tag; uint64_t check; };
inline uint64_t mkTag(int key, long gen, int pos) { return ((uint64_t)key << 56) | ((uint64_t)(pos & 0xff) << 48) | ((uint64_t)gen & 0xffffffffffffULL); }
}

VT_CANARY void verif_canary_slice_fill(Payload *p, uint64_t tag) { p->tag = tag; p->check = ~tag; }
VT_CANARY uint64_t verif_canary_slice_read(const Payload *p) { const uint64_t a = p->tag, b = p->check; return a == ~b ? a : ~0ULL; }
VT_CANARY void verif_canary_slice_clear(Payload *p) { p->tag = 0; p->check = ~0ULL; }
VT_CANARY void verif_canary_anchor_write(Ipc::StoreMapAnchor *a, long gen) { a->basics.timestamp = gen; a->basics.lastref = ~gen; }
VT_CANARY long verif_canary_anchor_read(const Ipc::StoreMapAnchor *a) { const long g = a->basics.timestamp, c = a->basics.lastref; return g == ~c ? g : -1; }

namespace {

constexpr int MaxKeys = 8;

void mkKey(int k, unsigned char *out) { memset(out, 0, 16); out[0] = (unsigned char)k; out[5] = 0x5a; out[15] = (unsigned char)(k * 37); }

struct Shared {
    std::vector<Payload> payload;                       // canaries, one per slice
    std::vector<std::atomic<int>> sliceFree;            // harness free list: 1 = free. release/acquire like Squid's own PageStack of free slots
    std::vector<std::atomic<int>> sliceReaders;         // readers currently walking a chain that contains the slice
    std::vector<std::atomic<int>> writerOf;             // per anchor: tid+1 of the thread between openForWriting() and its close/abort
    vt::Fail fail;
    std::atomic<long> freed{0};
    explicit Shared(int slots): payload(slots), sliceFree(slots), sliceReaders(slots), writerOf(slots) {
        for (auto &p : payload) { p.tag = 0; p.check = ~0ULL; }
        for (auto &x : sliceFree) x.store(1, vt::Rlx);
        for (auto &x : sliceReaders) x.store(0, vt::Rlx);
        for (auto &x : writerOf) x.store(0, vt::Rlx);
    }
    int allocSlice(Rng &rng) {
        const int n = (int)sliceFree.size();
        const int start = (int)rng.below(n);
        for (int i = 0; i < n; ++i) {
            const int s = (start + i) % n;
            if (sliceFree[s].load(vt::Rlx) == 1 && sliceFree[s].exchange(0, std::memory_order_acq_rel) == 1) return s;
        }
        return -1;
    }
};

struct Cleaner : public Ipc::StoreMapCleaner {
    Shared *sh = nullptr;
    void noteFreeMapSlice(const Ipc::StoreMapSliceId sliceId) override {
        sh->freed.fetch_add(1, vt::Rlx);
        if (sh->sliceReaders[sliceId].load(vt::Rlx) != 0)
            sh->fail("storemap:slice-freed-under-reader", "slice " + std::to_string(sliceId) + " is being freed while a thread that opened its entry for reading still holds it");
        verif_canary_slice_clear(&sh->payload[sliceId]);
        if (sh->sliceFree[sliceId].exchange(1, std::memory_order_acq_rel) != 0)
            sh->fail("storemap:slice-freed-twice", "slice " + std::to_string(sliceId) + " was released through the cleaner although it is already free");
    }
};

std::string gen(Rng &r)
{
    std::ostringstream o;
    const int slots = 4 + (int)r.below(29);  // 4..32 slices (and anchors)
    const int keys = 1 + (int)r.below(std::min(MaxKeys, slots));
    // mix: weights of write / abort / read / deleteByKey / freeEntry / purge
    o << "slots=" << slots << " keys=" << keys << " thr=" << 4 + r.below(9) << " ops=" << 200 + r.below(1301) << " mix=" << r.below(4)
      << " dly=" << r.below(vt::DelayModes) << " s=" << r.next() % 1000000007ULL;
    return o.str();
}

struct WriteRec { int key; long gen; long call, ret; bool completed; };
struct DeleteRec { int key; long call, ret; };
struct ReadRec { int key; long gen; long call; int tid; };

long g_mapCounter = 0;

void run(Ctx &ctx, const std::string &w)
{
    static const int mixes[][6] = {{30, 8, 45, 8, 5, 4}, {45, 10, 25, 10, 5, 5}, {15, 5, 70, 5, 3, 2}, {25, 15, 30, 15, 8, 7}};
    const int slots = (int)vt::Param(w, "slots", 8), nkeys = std::min(MaxKeys, (int)vt::Param(w, "keys", 2)), thr = (int)vt::Param(w, "thr", 4);
    const int ops = (int)vt::Param(w, "ops", 200), mix = (int)vt::Param(w, "mix", 0) % 4, dly = (int)vt::Param(w, "dly", 0);
    const uint64_t s = (uint64_t)vt::Param(w, "s", 1);
    if (slots < 1 || slots > 4096 || nkeys < 1 || thr < 1 || thr > 64 || ops < 1 || ops > 1000000) return;

    if (!Config.shmLocking.configured()) Config.shmLocking.defaultTo(false);
    const SBuf path(("verif-c55-t" + std::to_string(getpid()) + "-" + std::to_string(++g_mapCounter % 4)).c_str());
    Ipc::StoreMap::Owner *owner = Ipc::StoreMap::Init(path, slots);
    {
        Ipc::StoreMap map(path);
        map.disableHitValidation();
        Shared sh(slots);
        Cleaner cleaner;
        cleaner.sh = &sh;
        map.cleaner = &cleaner;
        std::atomic<long> nextGen{0};
        std::vector<std::vector<WriteRec>> wlog(thr);
        std::vector<std::vector<DeleteRec>> dlog(thr);
        std::vector<std::vector<ReadRec>> rlog(thr);
        std::atomic<long> reads{0}, readHits{0}, appReads{0}, writesOk{0}, writeFails{0}, aborts{0}, deletes{0}, purges{0}, slicesWalked{0}, noSlice{0};

        const vt::RunStats st = vt::RunThreads(thr, [&](int t) {
            Rng rng(s * 0x9E3779B97F4A7C15ULL + (uint64_t)t * 0xD1B54A32D192ED03ULL + 11);
            vt::Delay delay(s ^ ((uint64_t)t << 28) ^ 0x1B873593, dly);
            long myReads = 0, myHits = 0, myApp = 0, myW = 0, myWF = 0, myAb = 0, myDel = 0, myPurge = 0, myWalked = 0, myNoSlice = 0;
            const std::string me = "thread " + std::to_string(t);
            for (int i = 0; i < ops && !sh.fail.any(); ++i) {
                delay();
                const int k = 1 + (int)rng.below(nkeys);
                unsigned char key[16];
                mkKey(k, key);
                const auto ckey = reinterpret_cast<const cache_key *>(key);
                int op = 0, roll = (int)rng.below(100);
                while (op < 5 && roll >= mixes[mix][op]) roll -= mixes[mix][op++];
                const long call = vt::Tick();
                if (op == 0 || op == 1) {
                    // write `cnt` slices; after the first one switch to append mode so that readers may attach
                    const int cnt = 1 + (int)rng.below(4);
                    const bool appendMode = cnt > 1 && rng.below(4) != 0;
                    sfileno fileno = -1;
                    Ipc::StoreMap::Anchor *a = map.openForWriting(ckey, fileno);
                    if (!a) { ++myWF; continue; }
                    const int was = sh.writerOf[fileno].exchange(t + 1, vt::Rlx);
                    if (was != 0) sh.fail("storemap:two-writers", "threads " + std::to_string(was - 1) + " and " + std::to_string(t) + " both have anchor " + std::to_string(fileno) + " open for writing");
                    const long gen = nextGen.fetch_add(1, vt::Rlx) + 1;
                    a->setKey(ckey);
                    verif_canary_anchor_write(a, gen);
                    a->basics.swap_file_sz = 0;
                    int prev = -1;
                    bool abort = (op == 1);
                    for (int n = 0; n < cnt; ++n) {
                        const int sl = sh.allocSlice(rng);
                        if (sl < 0) { ++myNoSlice; abort = true; break; }
                        map.prepFreeSlice(sl);
                        verif_canary_slice_fill(&sh.payload[sl], mkTag(k, gen, n));
                        Ipc::StoreMap::Slice &slice = map.writeableSlice(fileno, sl);
                        slice.size = 100 + n;
                        slice.next = -1;
                        if (prev < 0) a->start = sl;                       // publish
                        else map.writeableSlice(fileno, prev).next = sl;    // publish
                        a->basics.swap_file_sz = a->basics.swap_file_sz + 100 + n;
                        prev = sl;
                        if (n == 0 && appendMode) map.startAppending(fileno);
                        delay();
                    }
                    sh.writerOf[fileno].store(0, vt::Rlx);
                    if (abort) {
                        map.abortWriting(fileno);
                        wlog[t].push_back({k, gen, call, vt::Tick(), false});
                        ++myAb;
                    } else {
                        map.closeForWriting(fileno);
                        wlog[t].push_back({k, gen, call, vt::Tick(), true});
                        ++myW;
                    }
                } else if (op == 2) {
                    sfileno fileno = -1;
                    ++myReads;
                    const Ipc::StoreMap::Anchor *a = map.openForReading(ckey, fileno);
                    if (!a) continue;
                    ++myHits;
                    if (!a->sameKey(ckey)) sh.fail("storemap:reader-got-wrong-key", "openForReading(key " + std::to_string(k) + ") returned an anchor with another key");
                    if (a->empty()) sh.fail("storemap:reader-got-empty-anchor", "openForReading returned an empty anchor");
                    const long gen = verif_canary_anchor_read(a);
                    if (gen <= 0) sh.fail("storemap:reader-got-unset-anchor", "openForReading(key " + std::to_string(k) + ") returned an anchor whose lock-protected fields are unset or torn (value " + std::to_string(gen) + ")");
                    if (a->writing()) ++myApp;
                    rlog[t].push_back({k, gen, call, t});
                    // walk the chain twice; the slices on it must keep their tag for as long as we hold the entry
                    std::vector<int> walked;
                    for (int pass = 0; pass < 2 && !sh.fail.any(); ++pass) {
                        int sl = a->start, pos = 0;
                        while (sl >= 0 && pos <= slots) {
                            if (pass == 0) { sh.sliceReaders[sl].fetch_add(1, vt::Rlx); walked.push_back(sl); }
                            const uint64_t v = verif_canary_slice_read(&sh.payload[sl]);
                            if (v != mkTag(k, gen, pos)) {
                                sh.fail("storemap:reader-sees-foreign-slice", "reader of key=" + std::to_string(k) + " gen=" + std::to_string(gen) + " walks slice " + std::to_string(sl) + " at position " + std::to_string(pos) +
                                        " whose payload is " + (v == 0 ? std::string("cleared (freed)") : v == ~0ULL ? std::string("torn") : "key=" + std::to_string(v >> 56) + " gen=" + std::to_string(v & 0xffffffffffffULL)));
                                break;
                            }
                            ++myWalked;
                            sl = map.readableSlice(fileno, sl).next;
                            ++pos;
                        }
                        if (pos > slots) sh.fail("storemap:chain-cycle", "reader walked more slices than exist");
                        delay();
                    }
                    for (int sl : walked) sh.sliceReaders[sl].fetch_sub(1, vt::Rlx);
                    if (rng.below(6) == 0) map.closeForReadingAndFreeIdle(fileno);
                    else map.closeForReading(fileno);
                } else if (op == 3) {
                    map.freeEntryByKey(ckey);
                    dlog[t].push_back({k, call, vt::Tick()});
                    ++myDel;
                } else if (op == 4) {
                    // eviction by position (as Rock/MemStore do); not judged as a delete of the key
                    map.freeEntry(map.fileNoByKey(ckey));
                    ++myDel;
                } else {
                    if (map.purgeOne()) ++myPurge;
                }
            }
            reads.fetch_add(myReads, vt::Rlx); readHits.fetch_add(myHits, vt::Rlx); appReads.fetch_add(myApp, vt::Rlx); writesOk.fetch_add(myW, vt::Rlx);
            writeFails.fetch_add(myWF, vt::Rlx); aborts.fetch_add(myAb, vt::Rlx); deletes.fetch_add(myDel, vt::Rlx); purges.fetch_add(myPurge, vt::Rlx);
            slicesWalked.fetch_add(myWalked, vt::Rlx); noSlice.fetch_add(myNoSlice, vt::Rlx);
        });

        ctx.count("ops", (long)thr * ops);
        ctx.count("reads", reads);
        ctx.count("read_hits", readHits);
        ctx.count("reads_of_appending_entries", appReads);
        ctx.count("slices_walked_by_readers", slicesWalked);
        ctx.count("writes_completed", writesOk);
        ctx.count("writes_refused_busy", writeFails);
        ctx.count("writes_aborted", aborts);
        ctx.count("deletes", deletes);
        ctx.count("purges", purges);
        ctx.count("slices_freed", sh.freed);
        ctx.count("threads_run", thr);
        if (st.threw) ctx.violation("storemap:exception", st.what);
        if (sh.fail.any()) ctx.violation(sh.fail.key, sh.fail.detail);

        // delete-before-open (post-run, over the per-thread histories; times from the relaxed global clock):
        // an entry whose delete completed before an open started is not opened
        if (!sh.fail.any() && !st.threw) {
            std::vector<WriteRec> W; std::vector<DeleteRec> D;
            for (auto &v : wlog) W.insert(W.end(), v.begin(), v.end());
            for (auto &v : dlog) D.insert(D.end(), v.begin(), v.end());
            long judged = 0;
            for (auto &rl : rlog) for (const ReadRec &r : rl) {
                for (const DeleteRec &d : D) {
                    if (d.key != r.key || d.ret >= r.call) continue;
                    long cur = 0, curAt = -1; bool writerActive = false;
                    for (const WriteRec &x : W) {
                        if (x.key != r.key) continue;
                        if (x.completed && x.ret < d.call && x.ret > curAt) { cur = x.gen; curAt = x.ret; }
                        if (x.call <= d.ret && x.ret >= d.call) writerActive = true;
                    }
                    ++judged;
                    if (!writerActive && cur != 0 && r.gen == cur) {
                        ctx.violation("storemap:deleted-entry-opened", "entry key=" + std::to_string(r.key) + " gen=" + std::to_string(r.gen) + " was deleted by freeEntryByKey (call completed at t=" + std::to_string(d.ret) +
                                      ") before thread " + std::to_string(r.tid) + " started openForReading at t=" + std::to_string(r.call) + ", which still returned it");
                        goto judgedDone;
                    }
                }
            }
judgedDone:
            ctx.count("delete_open_pairs_judged", judged);
        }

        // quiescence: no slice reachable from two entries, none both free and reachable, payload tags intact
        if (!sh.fail.any() && !st.threw) {
            std::vector<char> seen(slots, 0);
            for (int k = 1; k <= nkeys; ++k) {
                unsigned char key[16];
                mkKey(k, key);
                const auto ckey = reinterpret_cast<const cache_key *>(key);
                sfileno fn = -1;
                if (const auto *a = map.openForReading(ckey, fn)) {
                    const long gen = verif_canary_anchor_read(a);
                    int sl = a->start, pos = 0;
                    while (sl >= 0 && pos <= slots) {
                        if (seen[sl]) { ctx.violation("storemap:slice-shared-by-two-entries", "slice " + std::to_string(sl) + " reachable from two entries at quiescence"); break; }
                        if (verif_canary_slice_read(&sh.payload[sl]) != mkTag(k, gen, pos)) { ctx.violation("storemap:reader-sees-foreign-slice", "at quiescence entry key=" + std::to_string(k) + " reaches slice " + std::to_string(sl) + " with a foreign/cleared payload"); break; }
                        if (sh.sliceFree[sl].load(vt::Rlx)) { ctx.violation("storemap:free-slice-reachable", "slice " + std::to_string(sl) + " is both free and reachable"); break; }
                        seen[sl] = 1;
                        sl = map.readableSlice(fn, sl).next;
                        ++pos;
                    }
                    map.closeForReading(fn);
                }
            }
        }
        std::ostringstream f;
        f << "slots:" << vt::Bucket(slots) << " keys:" << (nkeys == 1 ? "1" : nkeys <= 3 ? "2-3" : "4-8") << " thr:" << (thr <= 6 ? "4-6" : "7-12") << " mix:" << mix << " dly:" << dly
          << " app-reads:" << (appReads.load() > 0) << " busy-writes:" << (writeFails.load() > 0) << " out-of-slices:" << (noSlice.load() > 0) << " purged:" << (purges.load() > 0);
        ctx.feature(f.str(), readHits.load() > 0 && writesOk.load() > 0);
        map.cleaner = nullptr;
    }
    delete owner;
}

int drive(Ctx &ctx) { return vh::Loop(ctx, gen, run); }

} // namespace

VH_REGISTER(C55, drive, "StoreMap (POSIX shm) under real threads + TSan; slice payload / anchor canaries, reader counts, writer table");
