// vtsan main: same command line and result JSON as vharness (harness/vh_main.cc), for the TSan build.
//   vtsan <C53|C54|C55|C56> --seed S --cases N --shard i/k --out FILE [--cur FILE] [--thorough] [--replay-hex HEX]
#include "squid.h"
#include "vt.h"

#include "debug/Stream.h"

#include <chrono>
#include <cstdio>
#include <cstdlib>
#include <fcntl.h>
#include <sys/mman.h>
#include <sys/syscall.h>
#include <thread>
#include <unistd.h>
#include <vector>

extern "C" void __sanitizer_set_report_path(const char *path);

// defaults only; the runner's TSAN_OPTIONS wins. second_deadlock_stack etc. are irrelevant here.
extern "C" const char *__tsan_default_options() { return "halt_on_error=0:exitcode=0:history_size=4:report_thread_leaks=0:report_signal_unsafe=0"; }

namespace vh {

static char *g_cur = nullptr;
static const size_t CurSize = 1 << 20;

struct Entry { const char *prop; Driver d; const char *what; };
static std::vector<Entry> &registry() { static std::vector<Entry> r; return r; }
void Register(const char *prop, Driver d, const char *what) { registry().push_back({prop, d, what}); }

std::string hexEncode(const std::string &raw) {
    static const char *d = "0123456789abcdef";
    std::string r; r.reserve(raw.size() * 2);
    for (unsigned char c : raw) { r += d[c >> 4]; r += d[c & 15]; }
    return r;
}
std::string hexDecode(const std::string &hex) {
    std::string r;
    auto v = [](char c) { return c <= '9' ? c - '0' : (c | 32) - 'a' + 10; };
    for (size_t i = 0; i + 1 < hex.size(); i += 2) r += (char)(v(hex[i]) * 16 + v(hex[i + 1]));
    return r;
}
std::string jsonEscape(const std::string &raw) {
    std::string r;
    char b[8];
    for (unsigned char c : raw) {
        if (c == '"' || c == '\\') { r += '\\'; r += (char)c; }
        else if (c >= 0x20 && c < 0x7f) r += (char)c;
        else { snprintf(b, sizeof b, "\\u%04x", c); r += b; }
    }
    return r;
}
std::string show(const std::string &raw, size_t max) {
    std::string r;
    char b[8];
    for (unsigned char c : raw) {
        if (r.size() >= max) { r += "..."; break; }
        if (c == '\r') r += "\\r"; else if (c == '\n') r += "\\n"; else if (c == '\t') r += "\\t";
        else if (c == '\\') r += "\\\\";
        else if (c >= 0x20 && c < 0x7f) r += (char)c;
        else { snprintf(b, sizeof b, "\\x%02x", c); r += b; }
    }
    return r;
}

void Ctx::begin(const std::string &witness) {
    current = witness;
    ++evaluations;
    if (g_cur) {
        uint32_t n = (uint32_t)std::min(witness.size(), CurSize - 8);
        memcpy(g_cur + 4, witness.data(), n);
        memcpy(g_cur, &n, 4);
    }
    if (samples.size() < 6 && (evaluations == 1 || rng.below(cases / 5 + 1) == 0)) samples.push_back(witness);
}

void Ctx::violation(const std::string &key, const std::string &detail) {
    ++violationCount;
    for (auto &v : violations) if (v.key == key) return; // one witness per key
    if (violations.size() < 40) violations.push_back({key, current, detail});
}

int Ctx::ubsanSince(std::string *) const { return 0; } // no UBSan in this build
void Ctx::ubsanGate(std::initializer_list<const char *>) {}

void InitSquid() {
    static bool done = false;
    if (done) return;
    done = true;
    // no debugs() may fire: the debug module is not thread-safe and is not what is being watched
    for (auto &l : Debug::Levels) l = -1;
}

int Loop(Ctx &ctx, const std::function<std::string(Rng &)> &gen, const std::function<void(Ctx &, const std::string &)> &run) {
    if (ctx.replaying) {
        // the OS decides the interleaving: a replay repeats the same case (same programs and delay patterns)
        // until the violation shows again, at most 40 times
        ctx.begin(ctx.replay);
        for (int i = 0; i < 40 && ctx.violationCount == 0; ++i) {
            run(ctx, ctx.replay);
            vt::TsanScan(ctx);
            ctx.count("replay_repetitions");
        }
        return 0;
    }
    for (long n = ctx.shard; n < ctx.cases; n += ctx.nshards) {
        uint64_t z = (ctx.seed + 0x632BE59BD9B4E019ULL) * 0x9E3779B97F4A7C15ULL;
        z ^= z >> 32; z *= 0xD6E8FEB86659FD93ULL; z ^= z >> 32;
        z += (uint64_t)n * 0xBF58476D1CE4E5B9ULL;
        z ^= z >> 30; z *= 0x94D049BB133111EBULL; z ^= z >> 31;
        Rng r(z);
        const std::string c = gen(r);
        ctx.begin(c);
        run(ctx, c);
        vt::TsanScan(ctx); // all worker threads are joined: every report of this case is in the log
    }
    return 0;
}

} // namespace vh

// ------------------------------------------------------------------------------------------------
namespace vt {

static std::string g_out;
static vh::Ctx *g_ctx = nullptr;
static std::atomic_flag g_finishing = ATOMIC_FLAG_INIT;

static std::atomic<long> g_tick{0};
long Tick() { return g_tick.fetch_add(1, Rlx) + 1; }

long Param(const std::string &w, const char *name, long dflt) {
    const std::string k = std::string(name) + "=";
    size_t p = 0;
    while ((p = w.find(k, p)) != std::string::npos) {
        if (p == 0 || w[p - 1] == ' ') return strtol(w.c_str() + p + k.size(), nullptr, 10);
        ++p;
    }
    return dflt;
}

const char *Bucket(long v) {
    if (v <= 1) return "1";
    if (v <= 3) return "2-3";
    if (v <= 8) return "4-8";
    if (v <= 63) return "9-63";
    if (v <= 64) return "64";
    if (v <= 128) return "65-128";
    if (v <= 1024) return "129-1024";
    return ">1024";
}

RunStats RunThreads(int n, const std::function<void(int)> &body) {
    RunStats st;
    std::atomic<int> ready{0};
    std::atomic<bool> go{false};
    std::mutex em;
    std::vector<std::thread> th;
    const auto t0 = std::chrono::steady_clock::now();
    for (int t = 0; t < n; ++t) {
        th.emplace_back([&, t] {
            ready.fetch_add(1, std::memory_order_acq_rel);
            while (!go.load(std::memory_order_acquire)) Spin(4);
            try {
                body(t);
            } catch (const std::exception &e) {
                std::lock_guard<std::mutex> g(em);
                if (!st.threw) { st.threw = true; st.what = e.what(); }
            } catch (...) {
                std::lock_guard<std::mutex> g(em);
                if (!st.threw) { st.threw = true; st.what = "non-standard exception"; }
            }
        });
    }
    while (ready.load(std::memory_order_acquire) < n) sched_yield();
    go.store(true, std::memory_order_release);
    for (auto &x : th) x.join();
    st.seconds = std::chrono::duration<double>(std::chrono::steady_clock::now() - t0).count();
    return st;
}

// ---- TSan log ----------------------------------------------------------------------------------
static std::string g_logFile;   // <log_path>.<pid>
static off_t g_logPos = 0;
static std::map<std::string, long> g_benign; // de-duplicated non-canary reports

static void TsanInit() {
    std::string path;
    if (const char *o = getenv("TSAN_OPTIONS")) {
        const std::string s = o;
        size_t p = s.find("log_path=");
        if (p != std::string::npos) {
            p += 9;
            size_t e = s.find_first_of(": \t", p);
            path = s.substr(p, e == std::string::npos ? std::string::npos : e - p);
        }
    }
    if (path.empty() || path == "stderr" || path == "stdout") {
        path = (g_out.empty() ? std::string("/tmp/vtsan") : g_out) + ".tsan";
        __sanitizer_set_report_path(path.c_str());
    }
    g_logFile = path + "." + std::to_string(getpid());
}

// function name of a "#N name(args) file:line (module+off)" frame line; empty for runtime/interceptor frames
static std::string frameFunc(const std::string &line) {
    size_t p = line.find('#');
    if (p == std::string::npos) return "";
    p = line.find(' ', p);
    if (p == std::string::npos) return "";
    ++p;
    if (line.find("libsanitizer", p) != std::string::npos || line.find("libtsan", p) != std::string::npos) return "";
    size_t e = line.find(" /", p);
    if (e == std::string::npos) e = line.find(" <null>", p);
    if (e == std::string::npos) e = line.find(" (", p);
    std::string f = line.substr(p, e == std::string::npos ? std::string::npos : e - p);
    const size_t a = f.find('(');
    if (a != std::string::npos && a > 0) f = f.substr(0, a);
    return f;
}

static void classify(vh::Ctx &ctx, const std::string &block) {
    ctx.count("tsan_reports_total");
    std::string kind = "report";
    {
        const size_t p = block.find("ThreadSanitizer: ");
        if (p != std::string::npos) {
            size_t e = block.find_first_of("(\n", p);
            kind = block.substr(p + 17, e == std::string::npos ? std::string::npos : e - p - 17);
            while (!kind.empty() && kind.back() == ' ') kind.pop_back();
        }
    }
    // stacks: sections are separated by blank lines; the first two sections that contain frames are the accesses
    std::vector<std::string> tops;
    std::string canary;
    bool inStack = false;
    int stacks = 0;
    size_t pos = 0;
    while (pos < block.size()) {
        size_t nl = block.find('\n', pos);
        if (nl == std::string::npos) nl = block.size();
        const std::string line = block.substr(pos, nl - pos);
        pos = nl + 1;
        const size_t h = line.find_first_not_of(' ');
        const bool frame = h != std::string::npos && line[h] == '#';
        if (!frame) { inStack = false; continue; }
        if (!inStack) { inStack = true; ++stacks; if (stacks <= 2) tops.push_back(""); }
        if (stacks > 2) continue; // allocation / thread-creation stacks do not decide anything
        const std::string f = frameFunc(line);
        if (f.empty()) continue;
        if (tops.back().empty()) tops.back() = f;
        if (canary.empty() && f.compare(0, 13, "verif_canary_") == 0) canary = f;
    }
    if (!canary.empty() && kind.find("data race") != std::string::npos) {
        ctx.count("tsan_reports_canary");
        ctx.violation("tsan:canary-race:" + ctx.prop + ":" + canary,
                      "ThreadSanitizer reported a data race on a harness canary (two holders at once / read while written). Report:\n" + block.substr(0, 2500));
        return;
    }
    ctx.count("tsan_reports_benign");
    std::string k = kind + ":";
    for (auto &t : tops) k += " " + (t.empty() ? std::string("?") : t);
    ++g_benign[k];
}

void TsanScan(vh::Ctx &ctx) {
    if (g_logFile.empty()) return;
    const int fd = open(g_logFile.c_str(), O_RDONLY);
    if (fd < 0) return; // TSan creates the file at its first report
    std::string data;
    char buf[65536];
    ssize_t n;
    off_t off = g_logPos;
    while ((n = pread(fd, buf, sizeof buf, off)) > 0) { data.append(buf, (size_t)n); off += n; }
    close(fd);
    static const std::string bar = "==================\n";
    size_t p = 0, consumed = 0;
    for (;;) {
        const size_t b = data.find(bar, p);
        if (b == std::string::npos) break;
        const size_t e = data.find(bar, b + bar.size());
        if (e == std::string::npos) break; // incomplete block: wait for the next scan
        const std::string block = data.substr(b + bar.size(), e - b - bar.size());
        if (block.find("ThreadSanitizer") != std::string::npos) classify(ctx, block);
        p = consumed = e + bar.size();
    }
    g_logPos += (off_t)consumed;
}

static void writeResult(vh::Ctx &ctx) {
    using namespace vh;
    for (auto &kv : g_benign) ctx.note("tsan non-canary report (not judged, DESIGN 6.2) " + kv.first);
    ctx.counters["tsan_reports_total"] += 0;
    ctx.counters["tsan_reports_benign"] += 0;
    ctx.counters["tsan_reports_canary"] += 0;
    std::string j = "{";
    j += "\"prop\":\"" + ctx.prop + "\",\"seed\":" + std::to_string(ctx.seed) + ",\"shard\":" + std::to_string(ctx.shard);
    j += ",\"evaluations\":" + std::to_string(ctx.evaluations) + ",\"greys\":" + std::to_string(ctx.greys) + ",\"trivial\":" + std::to_string(ctx.trivial);
    j += ",\"violation_count\":" + std::to_string(ctx.violationCount);
    j += std::string(",\"exhaustive\":") + (ctx.exhaustive ? "true" : "false");
    j += ",\"features\":[";
    { bool f = true; char b[24]; for (auto h : ctx.features) { snprintf(b, sizeof b, "%s\"%llx\"", f ? "" : ",", (unsigned long long)h); j += b; f = false; } }
    j += "],\"samples\":[";
    { bool f = true; for (auto &s : ctx.samples) { j += (f ? "\"" : ",\"") + jsonEscape(show(s, 300)) + "\""; f = false; } }
    j += "],\"counters\":{";
    { bool f = true; for (auto &kv : ctx.counters) { j += (f ? "\"" : ",\"") + jsonEscape(kv.first) + "\":" + std::to_string(kv.second); f = false; } }
    j += "},\"notes\":[";
    { bool f = true; for (auto &s : ctx.notes) { j += (f ? "\"" : ",\"") + jsonEscape(s) + "\""; f = false; } }
    j += "],\"violations\":[";
    { bool f = true; for (auto &v : ctx.violations) {
        j += (f ? "{" : ",{");
        j += "\"key\":\"" + jsonEscape(v.key) + "\",\"witness_hex\":\"" + hexEncode(v.witness) + "\",\"witness\":\"" + jsonEscape(show(v.witness, 400)) + "\",\"detail\":\"" + jsonEscape(v.detail) + "\"}";
        f = false; } }
    j += "]}\n";
    if (!g_out.empty()) {
        FILE *fp = fopen(g_out.c_str(), "w");
        if (!fp) syscall(SYS_exit_group, 2);
        fputs(j.c_str(), fp);
        fclose(fp);
    } else fputs(j.c_str(), stdout);
    fflush(nullptr);
}

// A Squid assertion (or fatal()) inside a worker thread: the structure under test detected its own corruption.
// That is a verdict about the running case, not a harness crash: record it, write the result, leave.
// (Other workers may still be running; the Ctx is only touched by the main thread between cases, which is
// blocked in join() right now.)
[[noreturn]] void Die(const std::string &key, const std::string &detail) {
    if (g_finishing.test_and_set()) for (;;) pause(); // somebody else is already writing the result
    fprintf(stderr, "vtsan: %s: %s\n", key.c_str(), detail.c_str());
    if (g_ctx) {
        g_ctx->violation(key, detail);
        TsanScan(*g_ctx);
        writeResult(*g_ctx);
    }
    syscall(SYS_exit_group, 0);
    for (;;) {}
}

} // namespace vt

// linked with -Wl,--wrap=xassert: every assert() of the Squid objects in this binary lands here
extern "C" void __wrap_xassert(const char *msg, const char *file, int line) {
    std::string f = file ? file : "";
    size_t p = f.rfind("/src/");
    if (p != std::string::npos) f = f.substr(p + 5);
    else if ((p = f.rfind("/ipc/")) != std::string::npos) f = f.substr(p + 1); // IPC_OVERRIDE_DIR copy: same key as the original
    std::string m = msg ? msg : "";
    vt::Die("squid-assertion:" + f + ":" + m.substr(0, 80),
            "assertion failed inside Squid code while worker threads were operating on the shared structure: " + f + ":" + std::to_string(line) + ": \"" + m + "\"");
}

int main(int argc, char **argv) {
    using namespace vh;
    static Ctx ctx;
    std::string cur;
    for (int i = 1; i < argc; ++i) {
        std::string a = argv[i];
        auto val = [&]() -> std::string { return i + 1 < argc ? argv[++i] : ""; };
        if (a == "--seed") ctx.seed = strtoull(val().c_str(), nullptr, 10);
        else if (a == "--cases") ctx.cases = atol(val().c_str());
        else if (a == "--shard") { std::string s = val(); sscanf(s.c_str(), "%d/%d", &ctx.shard, &ctx.nshards); }
        else if (a == "--thorough") ctx.thorough = true;
        else if (a == "--out") vt::g_out = val();
        else if (a == "--cur") cur = val();
        else if (a == "--replay-hex") { ctx.replaying = true; ctx.replay = hexDecode(val()); }
        else if (a == "--list") { for (auto &e : registry()) printf("%s\t%s\n", e.prop, e.what); return 0; }
        else if (a[0] != '-') ctx.prop = a;
    }
    if (ctx.nshards < 1) ctx.nshards = 1;
    ctx.rng.reseed(ctx.seed * 1000003ULL + (uint64_t)ctx.shard);
    Driver d = nullptr;
    for (auto &e : registry()) if (ctx.prop == e.prop) d = e.d;
    if (!d) { fprintf(stderr, "vtsan: unknown property %s\n", ctx.prop.c_str()); return 2; }
    if (!cur.empty()) {
        int fd = open(cur.c_str(), O_RDWR | O_CREAT | O_TRUNC, 0644);
        if (fd >= 0 && ftruncate(fd, CurSize) == 0)
            g_cur = (char *)mmap(nullptr, CurSize, PROT_READ | PROT_WRITE, MAP_SHARED, fd, 0);
        if (g_cur == MAP_FAILED) g_cur = nullptr;
    }
    vt::g_ctx = &ctx;
    vt::TsanInit();
    InitSquid();
    int rc = 0;
    try {
        rc = d(ctx);
    } catch (const std::exception &e) {
        ctx.violation(std::string("uncaught-exception:") + typeid(e).name(), std::string("uncaught exception escaped the driver: ") + e.what());
    }
    if (vt::g_finishing.test_and_set()) for (;;) pause();
    vt::TsanScan(ctx);
    vt::writeResult(ctx);
    // raw exit: neither static destructors nor the sanitizer's exit-code override (benign reports exist on the unchanged tree)
    syscall(SYS_exit_group, rc);
    return rc;
}
