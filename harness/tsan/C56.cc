// C56 Inter-process queues are FIFO without lost items or wakeups -- TSan engine (real threads).
// 2-8 independent producer/consumer pairs (4-16 threads), each pair with its own real Ipc::OneToOneUniQueue
// and QueueReader (SPSC is the structure's contract). push()/pop() are instantiated in this translation unit,
// so TSan instruments the memcpy into/out of theBuffer and the plain theIn/theOut members.
// Canary: the queue item itself. Every push/pop goes through verif_canary_queue_push/pop, so a race on the
// buffer (slot read while it is being written, slot overwritten before it was read) has a verif_canary_ frame.
// Logical monitors (as harness/sched/C56.cc): popped sequence == pushed prefix, checksums, and at the end of the
// run (producer finished, every notification delivered) the queue must be empty -- otherwise lost wake-up.
#include "squid.h"
#include "vt.h"
#include "ipc/Queue.h"

#include <chrono>
#include <sstream>

using vh::Ctx;
using vh::Rng;

namespace {
struct Item { uint32_t id; uint32_t check; uint64_t body[3]; };
inline uint32_t chk(uint32_t id) { return id * 2654435761u ^ 0xA5A5A5A5u; }
inline Item mkItem(uint32_t id) { Item it; it.id = id; it.check = chk(id); it.body[0] = id; it.body[1] = ~(uint64_t)id; it.body[2] = (uint64_t)id * 0x9E3779B97F4A7C15ULL; return it; }
inline bool itemOk(const Item &it) { return it.check == chk(it.id) && it.body[0] == it.id && it.body[1] == ~(uint64_t)it.id && it.body[2] == (uint64_t)it.id * 0x9E3779B97F4A7C15ULL; }
}

// returns what push() returned ("the caller must notify the reader"); throws OneToOneUniQueue::Full
VT_CANARY bool verif_canary_queue_push(Ipc::OneToOneUniQueue *q, const Item *it, Ipc::QueueReader *reader) { return q->push(*it, reader); }
VT_CANARY bool verif_canary_queue_pop(Ipc::OneToOneUniQueue *q, Item *it, Ipc::QueueReader *reader) { return q->pop(*it, reader); }

namespace {

std::string gen(Rng &r)
{
    static const int caps[] = {1, 2, 3, 4, 7, 8, 16, 64};
    std::ostringstream o;
    o << "pairs=" << 2 + r.below(7) << " cap=" << caps[r.below(sizeof(caps) / sizeof(*caps))] << " items=" << 200 + r.below(1801)
      << " lazy=" << r.below(3) << " pdly=" << r.below(vt::DelayModes) << " cdly=" << r.below(vt::DelayModes) << " s=" << r.next() % 1000000007ULL;
    return o.str();
}

struct alignas(64) Pair {
    void *mem = nullptr;
    Ipc::OneToOneUniQueue *q = nullptr;
    Ipc::QueueReader *reader = nullptr;
    // the out-of-band notification (a UDS message in Squid): messages in flight. acquire/release like the kernel hand-off it models.
    std::atomic<int> notificationsInFlight{0};
    std::atomic<bool> producerDone{false};
    std::atomic<bool> asleep{false};                        // consumer is between "pop() said empty" and handling a notification
    long notificationsSent = 0, fullRetries = 0, sleeps = 0; // each written by one thread, read after join
    long popped = 0;
};

void run(Ctx &ctx, const std::string &w)
{
    const int pairs = (int)vt::Param(w, "pairs", 2), cap = (int)vt::Param(w, "cap", 1), items = (int)vt::Param(w, "items", 200);
    const int lazy = (int)vt::Param(w, "lazy", 0), pdly = (int)vt::Param(w, "pdly", 0), cdly = (int)vt::Param(w, "cdly", 0);
    const uint64_t s = (uint64_t)vt::Param(w, "s", 1);
    if (pairs < 1 || pairs > 32 || cap < 1 || cap > 4096 || items < 1 || items > 10000000) return;

    std::vector<Pair> P(pairs);
    for (auto &p : P) {
        const int bytes = Ipc::OneToOneUniQueue::Items2Bytes(sizeof(Item), cap);
        p.mem = calloc(1, bytes + 64);
        p.q = new (p.mem) Ipc::OneToOneUniQueue(sizeof(Item), cap);
        p.reader = new Ipc::QueueReader;
    }
    vt::Fail fail;
    const auto deadline = std::chrono::steady_clock::now() + std::chrono::seconds(60);

    const vt::RunStats st = vt::RunThreads(2 * pairs, [&](int t) {
        Pair &p = P[t / 2];
        if (t % 2 == 0) {
            // producer
            vt::Delay delay(s ^ ((uint64_t)t << 22) ^ 0x85EBCA6B, pdly);
            for (uint32_t id = 1; id <= (uint32_t)items && !fail.any(); ++id) {
                const Item it = mkItem(id);
                for (;;) {
                    try {
                        if (verif_canary_queue_push(p.q, &it, p.reader)) {
                            ++p.notificationsSent;
                            p.notificationsInFlight.fetch_add(1, std::memory_order_acq_rel);
                        }
                        break;
                    } catch (const Ipc::OneToOneUniQueue::Full &) {
                        ++p.fullRetries;
                        // wait for room (polling the atomic size, not throwing again) before the next attempt
                        for (long spins = 0;; ++spins) {
                            sched_yield();
                            if (fail.any()) { p.producerDone.store(true, std::memory_order_release); return; }
                            if (!p.q->full()) break;
                            // Deadlock test. We are the only sender and every notification we owe has been posted, so the
                            // in-flight count can only go down. Zero now, (read afterwards) the consumer asleep, and (read after
                            // that) the queue still full, i.e. nothing was popped since our push() threw: the consumer fell asleep
                            // before that and is waiting for a notification that will never be sent.
                            if (p.notificationsInFlight.load(std::memory_order_acquire) == 0 && p.asleep.load(std::memory_order_acquire) && p.q->full()) {
                                fail("queue:lost-wakeup", "pair " + std::to_string(t / 2) + ": consumer is asleep with " + std::to_string(p.q->size()) + " item(s) queued (queue full), no notification in flight and none owed");
                                p.producerDone.store(true, std::memory_order_release);
                                return;
                            }
                            if ((spins & 1023) == 1023 && std::chrono::steady_clock::now() > deadline) {
                                fail("queue:producer-starved", "queue of pair " + std::to_string(t / 2) + " stays full: its consumer made no progress for 60 s");
                                p.producerDone.store(true, std::memory_order_release);
                                return;
                            }
                        }
                    }
                }
                delay();
            }
            p.producerDone.store(true, std::memory_order_release);
        } else {
            // consumer: pops until pop() says "empty" (which blocks the reader), then SLEEPS -- it does not look at the
            // queue again until a notification arrives; it handles the notification by clearSignal() and pops again
            vt::Delay delay(s ^ ((uint64_t)t << 22) ^ 0xC2B2AE35, cdly);
            uint32_t expect = 1;
            for (;;) {
                Item it;
                memset(&it, 0, sizeof it);
                while (verif_canary_queue_pop(p.q, &it, p.reader)) {
                    if (!itemOk(it)) { fail("queue:torn-item", "pair " + std::to_string(t / 2) + ": popped item " + std::to_string(it.id) + " fails its checksum (read while being written, or overwritten before it was read)"); return; }
                    if (it.id != expect) {
                        fail(it.id < expect ? "queue:duplicate-or-reordered" : "queue:lost-or-reordered", "pair " + std::to_string(t / 2) + ": pop #" + std::to_string(expect) + " returned item " + std::to_string(it.id));
                        return;
                    }
                    ++expect;
                    ++p.popped;
                    delay();
                    memset(&it, 0, sizeof it);
                }
                // asleep until a notification arrives
                p.asleep.store(true, std::memory_order_release);
                ++p.sleeps;
                int idlePolls = 0;
                for (long guard = 0;; ++guard) {
                    const bool done = p.producerDone.load(std::memory_order_acquire); // read BEFORE looking for notifications
                    if (p.notificationsInFlight.load(std::memory_order_acquire) > 0) {
                        if (idlePolls >= lazy) {
                            p.asleep.store(false, std::memory_order_release); // before consuming the notification (see the producer's deadlock test)
                            p.notificationsInFlight.fetch_sub(1, std::memory_order_acq_rel);
                            p.reader->clearSignal(); // what the notification handler does before popping
                            break;
                        }
                    } else if (done) {
                        return; // producer finished and every notification was delivered: nothing will ever wake us again
                    }
                    ++idlePolls;
                    sched_yield();
                    if ((guard & 255) == 255 && (fail.any() || std::chrono::steady_clock::now() > deadline)) {
                        if (!fail.any()) fail("queue:consumer-guard", "pair " + std::to_string(t / 2) + ": consumer waited 60 s");
                        return;
                    }
                }
            }
        }
    });

    long popped = 0, sent = 0, fullRetries = 0, sleeps = 0;
    for (auto &p : P) { popped += p.popped; sent += p.notificationsSent; fullRetries += p.fullRetries; sleeps += p.sleeps; }
    ctx.count("ops", (long)pairs * items + popped);
    ctx.count("items_pushed", (long)pairs * items);
    ctx.count("items_transferred", popped);
    ctx.count("notifications", sent);
    ctx.count("full_retries", fullRetries);
    ctx.count("consumer_sleeps", sleeps);
    ctx.count("threads_run", 2 * pairs);
    if (st.threw) ctx.violation("queue:exception", st.what);
    if (fail.any()) ctx.violation(fail.key, fail.detail);
    else if (!st.threw) {
        for (int i = 0; i < pairs; ++i) {
            Pair &p = P[i];
            // lost wake-up: consumer went to sleep for good with items still queued and no notification pending
            if (p.popped < items && p.q->size() > 0)
                ctx.violation("queue:lost-wakeup", "pair " + std::to_string(i) + ": consumer is asleep with " + std::to_string(p.q->size()) + " item(s) queued, producer finished and no notification in flight (popped " + std::to_string(p.popped) + " of " + std::to_string(items) + ")");
            else if (p.popped != items)
                ctx.violation("queue:lost-item", "pair " + std::to_string(i) + ": pushed " + std::to_string(items) + " items, popped " + std::to_string(p.popped) + ", queue size " + std::to_string(p.q->size()));
        }
    }
    std::ostringstream f;
    f << "pairs:" << (pairs <= 3 ? "2-3" : pairs <= 5 ? "4-5" : "6-8") << " cap:" << vt::Bucket(cap) << " lazy:" << lazy << " pdly:" << pdly << " cdly:" << cdly
      << " full-seen:" << (fullRetries > 0) << " sleeps-seen:" << (sleeps > pairs);
    ctx.feature(f.str(), popped > 0);
    for (auto &p : P) { delete p.reader; free(p.mem); }
}

int drive(Ctx &ctx) { return vh::Loop(ctx, gen, run); }

} // namespace

VH_REGISTER(C56, drive, "OneToOneUniQueue SPSC pairs under real threads + TSan; item canaries, FIFO/no-loss/lost-wakeup monitor");
