// Tiny stubs of our own (DESIGN 4.1): the few symbols that neither the sub-built TSan libraries nor the
// repo's src/tests/stub_*.cc close in a usable way. Nothing here is on a path the monitors judge.
#include "squid.h"
#include "vt.h"

#include "fatal.h"
#include "Instance.h"
#include "sbuf/SBuf.h"

#include <cstdarg>
#include <cstdio>

// fatal(): Segment.cc reports shm_open/ftruncate/mmap failures this way. The repo's stub_fatal.cc would exit(1)
// silently from whatever thread; route it through the same path as assertions so that the running case is named.
void fatal(const char *message) { vt::Die(std::string("squid-fatal:") + std::string(message ? message : "").substr(0, 60), std::string("fatal(): ") + (message ? message : "")); }
void fatal_dump(const char *message) { fatal(message); }
void fatalf(const char *fmt, ...)
{
    char buf[1024];
    va_list ap;
    va_start(ap, fmt);
    vsnprintf(buf, sizeof buf, fmt, ap);
    va_end(ap);
    fatal(buf);
}

// shm segment names: "/<prefix>-<id>.shm". The real one hashes the pid file name (needs the whole configuration);
// the repo's stub prints a SKIP line on every call.
SBuf Instance::NamePrefix(const char *const head, const char *const tail)
{
    SBuf buf(head);
    buf.append("vtsan");
    if (tail) buf.append(tail);
    return buf;
}

// ---- closure of the IPC sources (DESIGN section 2: "about 40 undefined symbols") ---------------------------------
// After compat/lib/base/debug/sbuf/mem/time only the following remain. The repo's src/tests/stub_*.cc that define
// them (stub_store, stub_libstore, stub_HttpRequest, stub_libmgr, stub_comm, SquidConfig.cc, StatCounters.cc ...)
// each pull a further closure (Ip::Address, MemBuf, cbdata, Http::Message, Ipc::Inquirer, StatHist ...), so they are
// given here instead. None of them is reachable from the operations the drivers perform, except where noted.
#include "comm.h"
#include "event.h"
#include "fd.h"
#include "globals.h"
#include "HttpRequest.h"
#include "mgr/Registration.h"
#include "SquidConfig.h"
#include "StatCounters.h"
#include "Store.h"
#include "store/Controller.h"

[[noreturn]] static void unreachable(const char *what) { vt::Die(std::string("harness:stub-called:") + what, std::string("a stubbed Squid function was called: ") + what); }

// The global configuration and statistics objects. Their constructors need most of Squid (Ip::Address, Helper::ChildConfig,
// StatHist ...); the IPC code only reads Config.shmLocking (Segment::lock) and Config.paranoid_hit_validation (off = zero)
// and bumps statCounter.hitValidation (never reached with validation off). Zero-filled storage of the right size under the
// variables' link names gives exactly "option unset" for both.
alignas(64) unsigned char verif_Config_storage[sizeof(SquidConfig)] asm("Config");
alignas(64) unsigned char verif_statCounter_storage[sizeof(StatCounters)] asm("statCounter");

int KidIdentifier = 0;

void storeAppendPrintf(StoreEntry *, const char *, ...) { unreachable("storeAppendPrintf"); }
std::ostream &operator <<(std::ostream &os, const StoreEntry &) { return os << "[entry]"; }
void StoreEntry::lock(const char *) { unreachable("StoreEntry::lock"); }
int StoreEntry::unlock(const char *) { unreachable("StoreEntry::unlock"); }
const SBuf HttpRequest::storeId() { unreachable("HttpRequest::storeId"); }

// Anchor::setKey() asks the store controller whether the key is already marked for deletion (reachable: the C55
// writer calls setKey() as Squid's callers do). No store here: nothing is marked.
alignas(64) static unsigned char verif_root_storage[sizeof(Store::Controller)];
Store::Controller &Store::Root() { return *reinterpret_cast<Store::Controller *>(verif_root_storage); }
bool Store::Controller::markedForDeletion(const cache_key *) const { return false; }

// referenced by libdebug / libmem start-up code that the engine never runs
void fd_open(int, unsigned int, const char *) {}
void fd_close(int) {}
void commSetCloseOnExec(int) {}
void eventAdd(const char *, EVH *, void *, double, int, bool) {}
void Mgr::RegisterAction(char const *, char const *, OBJH *, Protected, Atomic, Format) {}
