// Tiny stubs of our own (DESIGN 4.1): the few symbols that neither the sub-built TSan libraries nor the
// repo's src/tests/stub_*.cc close in a usable way. Nothing here is on a path the monitors judge.
#include "squid.h"
#include "vt.h"

#include "fatal.h"
#include "Instance.h"
#include "sbuf/SBuf.h"

#include <cstdarg>
#include <cstdio>

// fatal(): Segment.cc reports shm_open/ftruncate/mmap failures this way. The repo's stub_fatal.cc would exit(1)
// silently from whatever thread; route it through the same path as assertions so that the running case is named.
void fatal(const char *message) { vt::Die(std::string("squid-fatal:") + std::string(message ? message : "").substr(0, 60), std::string("fatal(): ") + (message ? message : "")); }
void fatal_dump(const char *message) { fatal(message); }
void fatalf(const char *fmt, ...)
{
    char buf[1024];
    va_list ap;
    va_start(ap, fmt);
    vsnprintf(buf, sizeof buf, fmt, ap);
    va_end(ap);
    fatal(buf);
}

// shm segment names: "/<prefix>-<id>.shm". The real one hashes the pid file name (needs the whole configuration);
// the repo's stub prints a SKIP line on every call.
SBuf Instance::NamePrefix(const char *const head, const char *const tail)
{
    SBuf buf(head);
    buf.append("vtsan");
    if (tail) buf.append(tail);
    return buf;
}
