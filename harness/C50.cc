// C50 Character sets and tokenizers follow set semantics.
// Differential oracle: CharacterSet operations vs std::bitset<256>; Parser::Tokenizer prefix/suffix/skip*/token
// vs a std::string model that consumes the maximal (or length-limited) runs the model sets define.
// A case is a whole operation script (text) + the input bytes; state is created fresh for each case.
#include "squid.h"
#include "vh.h"
#include "base/CharacterSet.h"
#include "base/TextException.h"
#include "parser/Tokenizer.h"
#include "parser/forward.h"
#include "sbuf/SBuf.h"

#include <bitset>
#include <sstream>

using vh::Ctx;
using vh::Rng;

namespace {

typedef std::bitset<256> Bits;
const int NS = 4; // sets per case
const uint64_t NPOS = (uint64_t)SBuf::npos;

// ---- reference model -------------------------------------------------------------------------------
struct Model {
    Bits set[NS];
    std::string buf;   // unparsed input
    uint64_t parsed = 0;
};

size_t leadRun(const std::string &s, const Bits &b, size_t from = 0) { size_t i = from; while (i < s.size() && b[(unsigned char)s[i]]) ++i; return i - from; }
size_t trailRun(const std::string &s, const Bits &b) { size_t n = 0; while (n < s.size() && b[(unsigned char)s[s.size() - 1 - n]]) ++n; return n; }

// ---- script ----------------------------------------------------------------------------------------
// tokens separated by ' '. k,i,j are set indexes 0..3; hh = two hex digits; lim = decimal or 'n' (npos)
//  N k hex..   set k := CharacterSet(label, c-string)      G k lo hi  set k := CharacterSet(label, lo, hi)
//  L k lo hi [lo hi [lo hi]]  set k := CharacterSet(label, {{lo,hi},...})
//  a k hh | r k hh   add / remove       R k lo hi  addRange
//  U k j  k += j     D k j  k -= j      u k i j  k := i + j     d k i j  k := i - j     C k j  k := j.complement()
//  E k j  compare == and !=
//  p k lim prefix   s k lim suffix   P k lim throwing prefix   t k token   A k skipAll  O k skipOne
//  B k skipAllTrailing  o k skipOneTrailing   K hex skip(SBuf)  S hex skipSuffix(SBuf)  c hh skip(char)  Z reset(input)
struct Op { char code; int k = 0, i = 0, j = 0; uint64_t lim = NPOS; std::string bytes; };

std::string hex2(unsigned v) { static const char *d = "0123456789abcdef"; return std::string(1, d[(v >> 4) & 15]) + d[v & 15]; }
std::string limStr(uint64_t l) { return l == NPOS ? "n" : std::to_string(l); }

std::string encOp(const Op &o) {
    std::string r(1, o.code);
    switch (o.code) {
    case 'N': return r + " " + std::to_string(o.k) + " " + (o.bytes.empty() ? "-" : vh::hexEncode(o.bytes));
    case 'G': case 'R': case 'L': return r + " " + std::to_string(o.k) + " " + vh::hexEncode(o.bytes);
    case 'a': case 'r': return r + " " + std::to_string(o.k) + " " + vh::hexEncode(o.bytes);
    case 'U': case 'D': case 'C': case 'E': return r + " " + std::to_string(o.k) + " " + std::to_string(o.j);
    case 'u': case 'd': return r + " " + std::to_string(o.k) + " " + std::to_string(o.i) + " " + std::to_string(o.j);
    case 'p': case 's': case 'P': return r + " " + std::to_string(o.k) + " " + limStr(o.lim);
    case 't': case 'A': case 'O': case 'B': case 'o': return r + " " + std::to_string(o.k);
    case 'K': case 'S': return r + " " + (o.bytes.empty() ? "-" : vh::hexEncode(o.bytes));
    case 'c': return r + " " + vh::hexEncode(o.bytes);
    default: return r;
    }
}

bool decScript(const std::string &line, std::vector<Op> &ops) {
    std::istringstream is(line);
    std::string tok;
    auto setIdx = [&](int &v) { std::string s; if (!(is >> s) || s.size() != 1 || s[0] < '0' || s[0] >= '0' + NS) return false; v = s[0] - '0'; return true; };
    auto hexArg = [&](std::string &b) { std::string s; if (!(is >> s)) return false; b = s == "-" ? "" : vh::hexDecode(s); return true; };
    auto limArg = [&](uint64_t &l) { std::string s; if (!(is >> s)) return false; l = s == "n" ? NPOS : strtoull(s.c_str(), nullptr, 10); return true; };
    while (is >> tok) {
        if (tok.size() != 1) return false;
        Op o; o.code = tok[0];
        bool ok = true;
        switch (o.code) {
        case 'N': case 'G': case 'R': case 'L': case 'a': case 'r': ok = setIdx(o.k) && hexArg(o.bytes); break;
        case 'U': case 'D': case 'C': case 'E': ok = setIdx(o.k) && setIdx(o.j); break;
        case 'u': case 'd': ok = setIdx(o.k) && setIdx(o.i) && setIdx(o.j); break;
        case 'p': case 's': case 'P': ok = setIdx(o.k) && limArg(o.lim); break;
        case 't': case 'A': case 'O': case 'B': case 'o': ok = setIdx(o.k); break;
        case 'K': case 'S': case 'c': ok = hexArg(o.bytes); break;
        case 'Z': break;
        default: ok = false;
        }
        if (!ok) return false;
        if ((o.code == 'G' || o.code == 'R') && o.bytes.size() != 2) return false;
        if (o.code == 'L' && (o.bytes.size() < 2 || o.bytes.size() > 6 || o.bytes.size() % 2)) return false;
        if ((o.code == 'a' || o.code == 'r' || o.code == 'c') && o.bytes.size() != 1) return false;
        ops.push_back(o);
    }
    return true;
}

// applies a set-building op to the model; returns false if the op is outside the documented domain (grey)
bool modelSetOp(Model &m, const Op &o) {
    auto addRange = [](Bits &b, unsigned lo, unsigned hi) { for (unsigned c = lo; c <= hi; ++c) b[c] = true; };
    switch (o.code) {
    case 'N': { Bits b; for (unsigned char c : o.bytes) { if (!c) break; b[c] = true; } m.set[o.k] = b; return true; }
    case 'G': case 'R': case 'L': {
        for (size_t x = 0; x < o.bytes.size(); x += 2) if ((unsigned char)o.bytes[x] > (unsigned char)o.bytes[x + 1]) return false; // [low,high] with low > high is not defined
        if (o.code != 'R') m.set[o.k].reset();
        for (size_t x = 0; x < o.bytes.size(); x += 2) addRange(m.set[o.k], (unsigned char)o.bytes[x], (unsigned char)o.bytes[x + 1]);
        return true; }
    case 'a': m.set[o.k][(unsigned char)o.bytes[0]] = true; return true;
    case 'r': m.set[o.k][(unsigned char)o.bytes[0]] = false; return true;
    case 'U': m.set[o.k] |= m.set[o.j]; return true;
    case 'D': m.set[o.k] &= ~m.set[o.j]; return true;
    case 'u': m.set[o.k] = m.set[o.i] | m.set[o.j]; return true;
    case 'd': m.set[o.k] = m.set[o.i] & ~m.set[o.j]; return true;
    case 'C': m.set[o.k] = ~m.set[o.j]; return true;
    default: return true;
    }
}

struct TokExp { bool ret; uint64_t count; std::string token; const char *cls; bool judged; };

// applies a tokenizer op to the model: expected return value, returned token, and the new buffer
TokExp modelTokOp(Model &m, const Op &o, const std::string &input) {
    std::string &b = m.buf;
    TokExp e{false, 0, "", "-", true};
    auto takeFront = [&](size_t n) { e.token = b.substr(0, n); b.erase(0, n); m.parsed += n; };
    auto takeBack = [&](size_t n) { e.token = b.substr(b.size() - n); b.erase(b.size() - n); m.parsed += n; };
    switch (o.code) {
    case 'p': case 'P': {
        size_t n = leadRun(b, m.set[o.k]);
        const bool cut = o.lim != NPOS && n > o.lim;
        if (cut) n = (size_t)o.lim;
        if (!n) { e.cls = b.empty() ? "empty" : o.lim == 0 ? "lim0" : "none"; return e; }
        e.ret = true; e.cls = cut ? "cut" : n == b.size() ? "whole" : "run";
        takeFront(n); return e; }
    case 's': {
        size_t n = trailRun(b, m.set[o.k]);
        const bool cut = o.lim != NPOS && n > o.lim;
        if (cut) n = (size_t)o.lim;
        if (!n) { e.cls = b.empty() ? "empty" : o.lim == 0 ? "lim0" : "none"; return e; }
        e.ret = true; e.cls = cut ? "cut" : n == b.size() ? "whole" : "run";
        takeBack(n); return e; }
    case 't': {
        const Bits &d = m.set[o.k];
        const size_t lead = leadRun(b, d);
        size_t j = lead;
        while (j < b.size() && !d[(unsigned char)b[j]]) ++j;
        if (j == lead) { e.cls = b.empty() ? "empty" : "nodata"; return e; }   // only delimiters (or nothing)
        if (j == b.size()) { e.cls = "unterminated"; return e; }                // no delimiter after the token
        const size_t trail = leadRun(b, d, j);
        e.ret = true; e.cls = lead ? (j + trail == b.size() ? "lead+end" : "lead") : (j + trail == b.size() ? "end" : "plain");
        const std::string t = b.substr(lead, j - lead);
        takeFront(j + trail); e.token = t; return e; }
    case 'A': { const size_t n = leadRun(b, m.set[o.k]); e.count = n; e.ret = n > 0; e.cls = !n ? "0" : n == b.size() ? "whole" : "run"; takeFront(n); return e; }
    case 'B': { const size_t n = trailRun(b, m.set[o.k]); e.count = n; e.ret = n > 0; e.cls = !n ? "0" : n == b.size() ? "whole" : "run"; takeBack(n); return e; }
    case 'O': { const bool y = !b.empty() && m.set[o.k][(unsigned char)b[0]]; e.ret = y; e.cls = y ? "1" : b.empty() ? "empty" : "0"; if (y) takeFront(1); return e; }
    case 'o': { const bool y = !b.empty() && m.set[o.k][(unsigned char)b.back()]; e.ret = y; e.cls = y ? "1" : b.empty() ? "empty" : "0"; if (y) takeBack(1); return e; }
    case 'c': { const bool y = !b.empty() && b[0] == o.bytes[0]; e.ret = y; e.cls = y ? "1" : "0"; if (y) takeFront(1); return e; }
    case 'K': {
        if (o.bytes.empty()) { e.judged = false; e.cls = "emptyarg"; return e; } // "found and skipped" is unsettled for an empty string
        const bool y = b.compare(0, o.bytes.size(), o.bytes) == 0 && b.size() >= o.bytes.size();
        e.ret = y; e.cls = y ? (o.bytes.size() == b.size() ? "whole" : "1") : "0"; if (y) takeFront(o.bytes.size()); return e; }
    case 'S': {
        if (o.bytes.empty()) { e.judged = false; e.cls = "emptyarg"; return e; }
        const bool y = b.size() >= o.bytes.size() && b.compare(b.size() - o.bytes.size(), o.bytes.size(), o.bytes) == 0;
        e.ret = y; e.cls = y ? (o.bytes.size() == b.size() ? "whole" : "1") : "0"; if (y) takeBack(o.bytes.size()); return e; }
    case 'Z': b = input; m.parsed = 0; e.cls = "reset"; return e;
    default: return e;
    }
}

bool isSetOp(char c) { return strchr("NGRLarUDudCE", c) != nullptr; }

std::string sb(const SBuf &s) { return std::string(s.rawContent(), s.length()); }

CharacterSet mkList(const std::string &b) {
    auto p = [&](size_t x) { return std::pair<uint8_t, uint8_t>((uint8_t)b[x], (uint8_t)b[x + 1]); };
    if (b.size() == 2) return CharacterSet("L1", {p(0)});
    if (b.size() == 4) return CharacterSet("L2", {p(0), p(2)});
    return CharacterSet("L3", {p(0), p(2), p(4)});
}

void run(Ctx &ctx, const std::string &w) {
    const auto nl = w.find('\n');
    if (nl == std::string::npos) return;
    std::vector<Op> ops;
    if (!decScript(w.substr(0, nl), ops)) return;
    const std::string input = w.substr(nl + 1);

    Model m;
    m.buf = input;
    std::vector<CharacterSet> sets(NS, CharacterSet("fresh", ""));
    Parser::Tokenizer tok(SBuf(input.data(), input.size()));
    std::string feat;
    std::map<std::pair<char, const char *>, long> opClass;
    int nset = 0, ntok = 0;
    bool bad = false;

    for (size_t n = 0; n < ops.size() && !bad; ++n) {
        const Op &o = ops[n];
        auto mkAt = [&]() { return "op#" + std::to_string(n) + " '" + encOp(o) + "': "; };
#define at mkAt()
        if (isSetOp(o.code)) {
            if (!modelSetOp(m, o)) { ctx.grey(); return; }
            ++nset;
            switch (o.code) {
            case 'N': { const std::string z = o.bytes; sets[o.k] = CharacterSet("N", z.c_str()); break; }
            case 'G': sets[o.k] = CharacterSet(nullptr, (unsigned char)o.bytes[0], (unsigned char)o.bytes[1]); break;
            case 'L': sets[o.k] = mkList(o.bytes); break;
            case 'R': sets[o.k].addRange((unsigned char)o.bytes[0], (unsigned char)o.bytes[1]); break;
            case 'a': sets[o.k].add((unsigned char)o.bytes[0]); break;
            case 'r': sets[o.k].remove((unsigned char)o.bytes[0]); break;
            case 'U': sets[o.k] += sets[o.j]; break;
            case 'D': sets[o.k] -= sets[o.j]; break;
            case 'u': sets[o.k] = sets[o.i] + sets[o.j]; break;
            case 'd': sets[o.k] = sets[o.i] - sets[o.j]; break;
            case 'C': sets[o.k] = sets[o.j].complement(n % 2 ? "compl" : nullptr); break;
            case 'E': {
                const bool eq = sets[o.k] == sets[o.j], ne = sets[o.k] != sets[o.j];
                const bool exp = m.set[o.k] == m.set[o.j];
                if (eq != exp || ne == exp) { ctx.violation("set:equality", at + "operator== gave " + std::to_string(eq) + ", != gave " + std::to_string(ne) + ", the sets are " + (exp ? "equal" : "different")); bad = true; }
                break; }
            }
            // membership of every byte value in every set must equal the model (catches damage to operands too)
            for (int k = 0; k < NS && !bad; ++k) for (unsigned c = 0; c < 256; ++c) {
                if (sets[k][(unsigned char)c] != m.set[k][c]) {
                    ctx.violation(std::string("set:membership:") + o.code, at + "set " + std::to_string(k) + " byte 0x" + hex2(c) + " membership is " + std::to_string(sets[k][(unsigned char)c]) + ", model says " + std::to_string(m.set[k][c]));
                    bad = true; break;
                }
            }
            if (m.set[o.k].none() && !sets[o.k].isEmpty()) ctx.count("isEmpty_false_on_memberless_set"); // outside the statement; observation only
            continue;
        }
        // tokenizer operation
        ++ntok;
        const std::string before = m.buf;
        const TokExp e = modelTokOp(m, o, input);
        bool ret = false; uint64_t count = 0; std::string token; bool haveToken = false;
        const char *exc = nullptr;
        SBuf out("untouched");
        switch (o.code) {
        case 'p': ret = tok.prefix(out, sets[o.k], (SBuf::size_type)o.lim); haveToken = ret; break;
        case 's': ret = tok.suffix(out, sets[o.k], (SBuf::size_type)o.lim); haveToken = ret; break;
        case 'P':
            try { out = tok.prefix("verif", sets[o.k], (SBuf::size_type)o.lim); ret = true; haveToken = true; }
            catch (const Parser::InsufficientInput &) { exc = "insufficient"; }
            catch (const TextException &) { exc = "error"; }
            break;
        case 't': ret = tok.token(out, sets[o.k]); haveToken = ret; break;
        case 'A': count = tok.skipAll(sets[o.k]); ret = count > 0; break;
        case 'B': count = tok.skipAllTrailing(sets[o.k]); ret = count > 0; break;
        case 'O': ret = tok.skipOne(sets[o.k]); break;
        case 'o': ret = tok.skipOneTrailing(sets[o.k]); break;
        case 'c': ret = tok.skip(o.bytes[0]); break;
        case 'K': ret = tok.skip(SBuf(o.bytes.data(), o.bytes.size())); break;
        case 'S': ret = tok.skipSuffix(SBuf(o.bytes.data(), o.bytes.size())); break;
        case 'Z': tok.reset(SBuf(input.data(), input.size())); break;
        }
        if (haveToken) token = sb(out);
        if (ntok <= 2) { feat += o.code; feat += e.cls; feat += exc ? exc[0] : '.'; feat += ' '; }
        ++opClass[std::make_pair(o.code, e.cls)];
        const std::string key = std::string("tok:") + o.code;
        auto mkCtxt = [&]() { return mkAt() + "buffer '" + vh::show(before, 80) + "' "; };
#define ctxt mkCtxt()
        if (!e.judged) {
            // resynchronise the model with whatever Squid did; not judged
            m.buf = sb(tok.remaining()); m.parsed = tok.parsedSize();
            continue;
        }
        if (o.code == 'P') {
            // documented: nothing to look at -> InsufficientInput; no permitted char -> error;
            // nothing left after the prefix -> InsufficientInput; otherwise the prefix
            const char *expExc = before.empty() ? "insufficient" : !e.ret ? "error" : m.buf.empty() ? "insufficient" : nullptr;
            if ((exc ? std::string(exc) : "") != (expExc ? std::string(expExc) : "")) {
                ctx.violation(key + ":outcome", ctxt + "outcome " + (exc ? exc : "value") + ", expected " + (expExc ? expExc : "value"));
                bad = true;
            } else if (!exc && token != e.token) {
                ctx.violation(key + ":token", ctxt + "returned '" + vh::show(token, 80) + "', expected '" + vh::show(e.token, 80) + "'");
                bad = true;
            }
            if (exc) { m.buf = sb(tok.remaining()); m.parsed = tok.parsedSize(); continue; } // state after a throw is not specified
        } else if (ret != e.ret) {
            ctx.violation(key + ":result", ctxt + "returned " + std::to_string(ret) + ", expected " + std::to_string(e.ret) + " (" + e.cls + ")");
            bad = true;
        } else if ((o.code == 'A' || o.code == 'B') && count != e.count) {
            ctx.violation(key + ":count", ctxt + "skipped " + std::to_string(count) + ", the maximal run is " + std::to_string(e.count));
            bad = true;
        } else if (haveToken && token != e.token) {
            ctx.violation(key + ":token", ctxt + "returned '" + vh::show(token, 80) + "', expected '" + vh::show(e.token, 80) + "'");
            bad = true;
        }
        if (bad) break;
        const std::string rest = sb(tok.remaining());
        if (rest != m.buf) {
            ctx.violation(key + ":remaining", ctxt + "left '" + vh::show(rest, 80) + "', expected '" + vh::show(m.buf, 80) + "'");
            bad = true;
        } else if (tok.atEnd() != m.buf.empty() || sb(tok.buf()) != m.buf) {
            ctx.violation(key + ":atEnd", ctxt + "atEnd()/buf() disagree with remaining()");
            bad = true;
        } else if (tok.parsedSize() != m.parsed) {
            ctx.violation(key + ":parsedSize", ctxt + "parsedSize() " + std::to_string(tok.parsedSize()) + ", bytes consumed so far " + std::to_string(m.parsed));
            bad = true;
        }
    }
#undef at
#undef ctxt
    ctx.ubsanGate({"CharacterSet", "Tokenizer.cc"});
    feat += "s" + std::to_string(std::min(nset, 12) / 3) + "t" + std::to_string(std::min(ntok, 12) / 3);
    ctx.feature(feat, ntok + nset > 0);
    for (auto &kv : opClass) ctx.count(std::string("tok_") + kv.first.first + "_" + kv.first.second, kv.second);
    ctx.count("set_ops", nset);
    ctx.count("tokenizer_ops", ntok);
}

// ---- generator (runs the model alongside, so that arguments can be steered to the interesting cases) ----
std::string gen(Rng &r) {
    // small alphabet so that runs and matches are frequent; always drawn from all 256 byte values
    std::string alpha;
    const int na = 1 + (int)r.below(5);
    for (int i = 0; i < na; ++i) alpha += r.chance(1, 3) ? "\x00\x01\x7f\x80\xff\xfe \na"[r.below(9)] : (char)r.next();
    std::string input = r.from(alpha, r.chance(1, 12) ? 0 : 1 + r.below(r.chance(1, 5) ? 60 : 24));
    if (r.chance(1, 20)) input += r.bytes(r.below(8));

    Model m; m.buf = input;
    std::vector<Op> ops;
    ops.reserve(40);
    auto K = [&]() { return (int)r.below(NS); };
    auto byteArg = [&]() { return std::string(1, r.chance(2, 3) ? alpha[r.below(alpha.size())] : (char)r.next()); };
    auto range = [&]() { unsigned lo = r.below(256), hi = r.below(256); if (r.chance(1, 4)) hi = 255; if (r.chance(1, 4)) lo = 0; if (r.chance(1, 6)) hi = lo; if (lo > hi && !r.chance(1, 200)) std::swap(lo, hi); return std::string(1, (char)lo) + (char)hi; };
    auto lim = [&](size_t run) -> uint64_t {
        switch (r.below(8)) { case 0: return 0; case 1: return run ? run - 1 : 1; case 2: return run; case 3: return run + 1; case 4: return 1; case 5: return NPOS - r.below(2) * r.below(3); case 6: return r.below(70); default: return NPOS; }
    };
    // initial sets
    for (int k = 0; k < NS; ++k) {
        Op o; o.k = k;
        switch (r.below(5)) {
        case 0: o.code = 'N'; { std::string s; for (char c : alpha) if (r.coin()) s += c; if (r.coin()) s += r.bytes(r.below(5)); o.bytes = s; } break;
        case 1: o.code = 'G'; o.bytes = range(); break;
        case 2: o.code = 'L'; { int n = 1 + (int)r.below(3); while (n--) o.bytes += range(); } break;
        case 3: o.code = 'N'; o.bytes = ""; break;
        default: o.code = 'N'; o.bytes = r.from(alpha, 1 + r.below(alpha.size())); break;
        }
        ops.push_back(o);
    }
    const int nops = 4 + (int)r.below(24);
    for (int n = 0; n < nops; ++n) {
        Op o;
        if (r.chance(2, 5)) {
            static const char sc[] = {'a', 'a', 'r', 'r', 'R', 'U', 'D', 'u', 'd', 'C', 'C', 'E', 'N', 'G'};
            o.code = sc[r.below(sizeof sc)]; o.k = K(); o.i = K(); o.j = K();
            if (o.code == 'a' || o.code == 'r') o.bytes = byteArg();
            else if (o.code == 'R' || o.code == 'G') o.bytes = range();
            else if (o.code == 'N') o.bytes = r.from(alpha, r.below(alpha.size() + 1));
        } else {
            static const char tc[] = {'p', 'p', 'p', 's', 's', 'P', 't', 't', 't', 'A', 'A', 'O', 'B', 'o', 'K', 'S', 'c', 'Z'};
            o.code = tc[r.below(sizeof tc)]; o.k = K();
            const std::string &b = m.buf;
            if (o.code == 'p' || o.code == 'P') o.lim = lim(leadRun(b, m.set[o.k]));
            else if (o.code == 's') o.lim = lim(trailRun(b, m.set[o.k]));
            else if (o.code == 'c') o.bytes = (!b.empty() && r.chance(2, 3)) ? std::string(1, b[0]) : byteArg();
            else if (o.code == 'K') { const size_t l = r.below(std::min<size_t>(b.size(), 5) + 2); o.bytes = b.substr(0, std::min(l, b.size())); if (l > b.size()) o.bytes += byteArg(); if (r.chance(1, 4) && !o.bytes.empty()) o.bytes[r.below(o.bytes.size())] ^= 1; }
            else if (o.code == 'S') { const size_t l = std::min<size_t>(r.below(6), b.size()); o.bytes = b.substr(b.size() - l); if (r.chance(1, 5)) o.bytes = byteArg() + o.bytes; if (r.chance(1, 4) && !o.bytes.empty()) o.bytes[r.below(o.bytes.size())] ^= 1; }
        }
        ops.push_back(o);
    }
    // replay the script on the model while emitting, so that later arguments see the right buffer
    // (the loop above used the initial buffer for steering; redo steering in order)
    std::string script;
    Model mm; mm.buf = input;
    for (auto &o : ops) {
        if (isSetOp(o.code)) { if (!modelSetOp(mm, o)) { /* leave: the case will be grey */ } }
        else {
            if (mm.buf.empty() && o.code != 'Z' && r.chance(3, 4)) { o = Op(); o.code = 'Z'; }
            const std::string &b = mm.buf;
            if (!b.empty() && strchr("psPtAOBo", o.code) && r.chance(1, 3)) {
                // steer: make the set match where the operation will look (delimiter somewhere inside for token())
                Op pre; pre.code = r.chance(4, 5) ? 'a' : 'r'; pre.k = o.k;
                const bool back = o.code == 's' || o.code == 'B' || o.code == 'o';
                pre.bytes = std::string(1, o.code == 't' ? b[r.below(b.size())] : back ? b.back() : b[0]);
                modelSetOp(mm, pre);
                if (!script.empty()) script += ' ';
                script += encOp(pre);
            }
            if (o.code == 'p' || o.code == 'P') { if (r.chance(3, 4)) o.lim = lim(leadRun(b, mm.set[o.k])); }
            else if (o.code == 's') { if (r.chance(3, 4)) o.lim = lim(trailRun(b, mm.set[o.k])); }
            else if (o.code == 'c' && !b.empty() && r.chance(2, 3)) o.bytes = std::string(1, b[0]);
            else if (o.code == 'K' && r.chance(3, 4)) { const size_t l = std::min<size_t>(1 + r.below(4), b.size()); o.bytes = b.substr(0, l); if (r.chance(1, 5) && !o.bytes.empty()) o.bytes[r.below(o.bytes.size())] ^= 1; }
            else if (o.code == 'S' && r.chance(3, 4)) { const size_t l = std::min<size_t>(1 + r.below(4), b.size()); o.bytes = b.substr(b.size() - l); if (r.chance(1, 5) && !o.bytes.empty()) o.bytes[r.below(o.bytes.size())] ^= 1; }
            modelTokOp(mm, o, input);
        }
        if (!script.empty()) script += ' ';
        script += encOp(o);
    }
    return script + "\n" + input;
}

int drive(Ctx &ctx) { return vh::Loop(ctx, gen, run); }

} // namespace

VH_REGISTER(C50, drive, "CharacterSet vs bitset<256>, Tokenizer prefix/suffix/skip/token vs string model");
