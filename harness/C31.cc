// C31 Percent-encoding round-trips.
// Differential/round-trip oracle for AnyP::Uri::Encode/Decode (RFC 3986 section 2.1) and the legacy
// rfc1738_do_escape()/rfc1738_unescape() pair; exact-size heap buffers so that ASan observes any
// out-of-bounds access of the in-place unescaper.
#include "squid.h"
#include "vh.h"
#include "anyp/Uri.h"
#include "base/CharacterSet.h"
#include "rfc1738.h"
#include "sbuf/SBuf.h"

#include <optional>

using vh::Ctx;
using vh::Rng;

namespace {

// case encoding: "<op> <param>\n<payload>"
//  E <set>    Uri::Encode(payload, set) then Uri::Decode;  set: u=RFC3986 unreserved, 0=empty, p=path chars (has '%'),
//             i=userinfo chars without '%', a=all bytes but '%', x<64 hex>=explicit 256-bit bitmap
//  D -        Uri::Decode(payload) vs reference pct-decoder
//  R <flags>  rfc1738_do_escape(payload, flags) then rfc1738_unescape (payload is cut at its first NUL)
//  U -        rfc1738_unescape(payload) in place, exact-size heap buffer (payload is cut at its first NUL)
struct Case { char op; std::string param; std::string in; };

std::string enc(char op, const std::string &param, const std::string &in) { return std::string(1, op) + " " + param + "\n" + in; }

bool dec(const std::string &w, Case &c) {
    const auto nl = w.find('\n');
    if (nl == std::string::npos || nl < 3 || w[1] != ' ') return false;
    c.op = w[0];
    c.param = w.substr(2, nl - 2);
    c.in = w.substr(nl + 1);
    return true;
}

bool isHex(unsigned char c) { return (c >= '0' && c <= '9') || (c >= 'a' && c <= 'f') || (c >= 'A' && c <= 'F'); }
int hexVal(unsigned char c) { return c <= '9' ? c - '0' : (c | 32) - 'a' + 10; }
bool isUnreserved(unsigned char c) { return (c >= '0' && c <= '9') || (c >= 'a' && c <= 'z') || (c >= 'A' && c <= 'Z') || c == '-' || c == '.' || c == '_' || c == '~'; }

typedef std::vector<bool> Set;

bool makeSet(const std::string &p, Set &s) {
    s.assign(256, false);
    if (p == "u") { for (int c = 0; c < 256; ++c) s[c] = isUnreserved((unsigned char)c); return true; }
    if (p == "0") return true;
    if (p == "p") { for (int c = 0; c < 256; ++c) s[c] = isalnum(c) && c < 128; for (unsigned char c : std::string("/:@-._~%!$&'()*+,;=")) s[c] = true; return true; }
    if (p == "i") { for (int c = 0; c < 256; ++c) s[c] = isalnum(c) && c < 128; for (unsigned char c : std::string(":-._~!$&'()*+,;=")) s[c] = true; return true; }
    if (p == "a") { s.assign(256, true); s['%'] = false; return true; }
    if (p.size() == 65 && p[0] == 'x') {
        for (int i = 0; i < 64; ++i) if (!isHex((unsigned char)p[1 + i])) return false;
        for (int i = 0; i < 256; ++i) s[i] = (hexVal((unsigned char)p[1 + i / 4]) >> (i % 4)) & 1;
        return true;
    }
    return false;
}

std::string setToParam(const Set &s) {
    std::string p = "x";
    for (int i = 0; i < 64; ++i) { int v = 0; for (int b = 0; b < 4; ++b) if (s[i * 4 + b]) v |= 1 << b; p += "0123456789abcdef"[v]; }
    return p;
}

const char *lenBucket(size_t n) { return n == 0 ? "0" : n == 1 ? "1" : n == 2 ? "2" : n == 3 ? "3" : n < 16 ? "s" : n < 256 ? "m" : n < 2048 ? "l" : "x"; }
const char *fracBucket(size_t k, size_t n) { return k == 0 ? "none" : k == n ? "all" : k * 2 < n ? "few" : "many"; }

// reference RFC 3986 pct-decoder: valid iff every '%' is followed by two HEXDIG
bool refDecode(const std::string &s, std::string &out) {
    out.clear();
    for (size_t i = 0; i < s.size(); ++i) {
        if (s[i] != '%') { out += s[i]; continue; }
        if (i + 2 >= s.size()) return false;
        if (!isHex((unsigned char)s[i + 1]) || !isHex((unsigned char)s[i + 2])) return false;
        out += (char)(hexVal((unsigned char)s[i + 1]) * 16 + hexVal((unsigned char)s[i + 2]));
        i += 2;
    }
    return true;
}

std::string cutAtNul(const std::string &s) { const auto p = s.find('\0'); return p == std::string::npos ? s : s.substr(0, p); }

void runEncode(Ctx &ctx, const Case &c) {
    Set set;
    if (!makeSet(c.param, set)) return;
    CharacterSet cs("verif");
    for (int i = 0; i < 256; ++i) if (set[i]) cs.add((unsigned char)i);
    const SBuf in(c.in.data(), c.in.size());
    const SBuf encoded = AnyP::Uri::Encode(in, cs);
    const std::string e(encoded.rawContent(), encoded.length());
    const auto decoded = AnyP::Uri::Decode(encoded);
    ctx.ubsanGate({"Uri.cc"});

    size_t needing = 0;
    bool hasPercent = false;
    for (unsigned char ch : c.in) { if (!set[ch]) ++needing; if (ch == '%') hasPercent = true; }
    const bool pctIgnored = set['%'];
    std::string feat = std::string("E:") + (c.param[0] == 'x' ? "x" : c.param) + ":" + lenBucket(c.in.size()) + ":" + fracBucket(needing, c.in.size());
    if (pctIgnored && hasPercent) feat += ":rawpct";

    // (1) alphabet: only ignored characters (none of which is forced to be unreserved: "explicitly ignored") and %XX triplets
    size_t triplets = 0;
    for (size_t i = 0; i < e.size();) {
        const unsigned char ch = e[i];
        if (ch == '%' && i + 2 < e.size() && isHex((unsigned char)e[i + 1]) && isHex((unsigned char)e[i + 2])) { i += 3; ++triplets; continue; }
        if (ch == '%' && !pctIgnored) { ctx.violation("encode:malformed-triplet", "Encode output has '%' not followed by two hex digits at offset " + std::to_string(i) + ": " + vh::show(e)); break; }
        if (!set[ch] && !isUnreserved(ch)) { ctx.violation("encode:raw-unexpected-char", "Encode output contains raw byte " + std::to_string(ch) + " which is neither unreserved nor in the ignore set: " + vh::show(e)); break; }
        if (!set[ch]) { ctx.violation("encode:raw-unignored-char", "Encode output contains raw byte " + std::to_string(ch) + " which is not in the ignore set: " + vh::show(e)); break; }
        ++i;
    }
    ctx.count("encode_triplets", (long)triplets);

    // (2) round trip; when the caller asked to leave '%' alone and the input has one, the encoding is not
    //     injective by the caller's own choice (pre-encoded input): not judged
    if (pctIgnored && hasPercent) { ctx.grey(); return; }
    ctx.feature(feat, !c.in.empty());
    if (!decoded) { ctx.violation("roundtrip:decode-rejected-own-encoding", "Decode(Encode(x)) failed; encoded=" + vh::show(e)); return; }
    const std::string d(decoded->rawContent(), decoded->length());
    if (d != c.in) ctx.violation("roundtrip:decode-of-encode-differs", "Decode(Encode(x)) != x; encoded=" + vh::show(e) + " decoded=" + vh::show(d));
}

void runDecode(Ctx &ctx, const Case &c) {
    const SBuf in(c.in.data(), c.in.size());
    const auto got = AnyP::Uri::Decode(in);
    const SBuf dup = AnyP::Uri::DecodeOrDupe(in);
    ctx.ubsanGate({"Uri.cc"});
    std::string ref;
    const bool valid = refDecode(c.in, ref);
    size_t pct = 0; for (char ch : c.in) if (ch == '%') ++pct;
    std::string feat = std::string("D:") + (valid ? "v" : "i") + (got ? "+" : "-") + ":" + lenBucket(c.in.size()) + ":" + fracBucket(pct, c.in.size());
    const std::string dupS(dup.rawContent(), dup.length());
    if (!valid) {
        // the statement only speaks of decoding Squid's own encodings; malformed sequences: memory safety + observation
        if (got) ctx.count("decode_malformed_accepted");
        ctx.grey();
        return;
    }
    ctx.feature(feat, !c.in.empty());
    if (!got) { ctx.violation("decode:rejected-wellformed", "Decode rejected a string in which every '%' is followed by two hex digits"); return; }
    const std::string g(got->rawContent(), got->length());
    if (g != ref) ctx.violation("decode:wrong-bytes", "Decode returned " + vh::show(g) + " expected " + vh::show(ref));
    else if (dupS != ref) ctx.violation("decode:dupe-differs", "DecodeOrDupe returned " + vh::show(dupS) + " expected " + vh::show(ref));
}

// does rfc1738_do_escape(flags) promise to escape '%'? (header: UNSAFE escapes it unless NOPERCENT)
bool escapesPercent(int flags) { return (flags & RFC1738_ESCAPE_UNSAFE) && !(flags & RFC1738_ESCAPE_NOPERCENT); }

void runRfc1738(Ctx &ctx, const Case &c) {
    const int flags = atoi(c.param.c_str());
    const std::string x = cutAtNul(c.in);
    // exact-size heap copy: reading past the terminator is an ASan report
    char *src = (char *)malloc(x.size() + 1);
    memcpy(src, x.c_str(), x.size() + 1);
    const char *escStatic = rfc1738_do_escape(src, flags);
    const size_t el = strlen(escStatic);
    free(src);
    char *esc = (char *)malloc(el + 1); // exact-size copy for the in-place unescape
    memcpy(esc, escStatic, el + 1);
    const std::string e(esc, el);
    rfc1738_unescape(esc);
    const std::string back(esc);
    free(esc);
    ctx.ubsanGate({"rfc1738.c"});

    bool hasPercent = x.find('%') != std::string::npos;
    size_t triplets = 0; for (char ch : e) if (ch == '%') ++triplets;
    std::string feat = "R:" + std::to_string(flags) + ":" + lenBucket(x.size()) + ":" + fracBucket(hasPercent && !escapesPercent(flags) ? 0 : triplets, x.size());
    if (el > x.size() * 3) ctx.violation("rfc1738:escape-too-long", "escaped form longer than 3x the input");
    if (hasPercent && !escapesPercent(flags)) {
        // '%' deliberately left alone ("already-encoded bytes"): not a reversible coding for such inputs
        ctx.grey();
        return;
    }
    ctx.feature(feat, !x.empty());
    if (back != x) ctx.violation(std::string("rfc1738:unescape-of-escape-differs:") + (escapesPercent(flags) ? "pct-escaped" : "no-pct-in-input"),
                                     "flags=" + std::to_string(flags) + " escaped=" + vh::show(e) + " unescaped=" + vh::show(back) + " original=" + vh::show(x));
}

void runUnescape(Ctx &ctx, const Case &c) {
    const std::string x = cutAtNul(c.in);
    char *buf = (char *)malloc(x.size() + 1);
    memcpy(buf, x.c_str(), x.size() + 1);
    rfc1738_unescape(buf);
    // the terminator must still be inside the original allocation (ASan would have aborted on a write past it)
    const size_t outLen = strnlen(buf, x.size() + 1);
    const std::string out(buf, std::min(outLen, x.size()));
    free(buf);
    ctx.ubsanGate({"rfc1738.c"});
    if (outLen > x.size()) { ctx.violation("rfc1738:unescape-grew", "unescaped string is longer than its input / unterminated"); return; }
    // exact value judged only for inputs whose every '%' starts a %XX triplet with XX != 00 (documented decoding);
    // "%%", truncated and non-hex sequences are left to the implementation
    std::string ref;
    bool wellFormed = refDecode(x, ref) && ref.find('\0') == std::string::npos;
    size_t pct = 0; for (char ch : x) if (ch == '%') ++pct;
    std::string feat = std::string("U:") + (wellFormed ? "w" : "m") + ":" + lenBucket(x.size()) + ":" + fracBucket(pct, x.size()) + ":" + (outLen == x.size() ? "same" : "shorter");
    ctx.feature(feat, !x.empty());
    if (wellFormed && out != ref) ctx.violation("rfc1738:unescape-wrong-bytes", "unescape returned " + vh::show(out) + " expected " + vh::show(ref));
}

void run(Ctx &ctx, const std::string &w) {
    Case c;
    if (!dec(w, c)) return;
    switch (c.op) {
    case 'E': runEncode(ctx, c); break;
    case 'D': runDecode(ctx, c); break;
    case 'R': runRfc1738(ctx, c); break;
    case 'U': runUnescape(ctx, c); break;
    default: break;
    }
}

const int FlagChoices[] = {
    RFC1738_ESCAPE_UNSAFE | RFC1738_ESCAPE_CTRLS,                 // rfc1738_escape
    RFC1738_ESCAPE_ALL,                                           // rfc1738_escape_part
    RFC1738_ESCAPE_UNESCAPED,                                     // rfc1738_escape_unescaped
    RFC1738_ESCAPE_NOSPACE | RFC1738_ESCAPE_UNESCAPED,            // Uri::cleanup(), uri_whitespace allow
    RFC1738_ESCAPE_ALL | RFC1738_ESCAPE_NOSPACE,
    RFC1738_ESCAPE_RESERVED, RFC1738_ESCAPE_CTRLS, RFC1738_ESCAPE_UNSAFE, 0,
};

std::string genPayload(Rng &r, size_t maxLen) {
    size_t n;
    switch (r.below(16)) {
    case 0: case 1: n = r.below(4); break;
    case 2: n = r.below(maxLen + 1); break;
    case 3: n = maxLen - r.below(4); break;
    case 4: case 5: case 6: n = r.below(512); break;
    default: n = r.below(64); break;
    }
    std::string s;
    const int style = (int)r.below(6);
    while (s.size() < n) {
        switch (style) {
        case 0: s += (char)r.next(); break;                                        // uniform bytes
        case 1: s += r.from("abcXYZ019-._~", 1); if (r.chance(1, 4)) s += (char)r.next(); break;   // mostly unreserved
        case 2: s += r.pick({"%", "%%", "%4", "%41", "%zz", "%0", "%00", "%7F", "%ff", "%fF", "a", "/", " ", "\x80", "\xff", "%25", "%2", "%G1", "%1G"}); break;
        case 3: s += r.from(" <>\"#%{}|\\^~[]`';/?:@=&\t\r\n\x7f", 1); break;          // rfc1738 unsafe/reserved
        case 4: s += (char)(r.coin() ? r.range(0x80, 0xff) : r.range(1, 0x20)); break; // high / control
        default: s += (char)r.range(0x20, 0x7e); break;
        }
    }
    s.resize(n);
    return s;
}

std::string gen(Rng &r) {
    switch (r.below(10)) {
    case 0: case 1: case 2: {
        std::string p;
        switch (r.below(8)) {
        case 0: case 1: p = "u"; break;
        case 2: p = "0"; break;
        case 3: p = "p"; break;
        case 4: p = "i"; break;
        case 5: p = "a"; break;
        default: { Set s(256); const unsigned dens = (unsigned)r.below(9); for (int i = 0; i < 256; ++i) s[i] = r.chance(dens, 8); if (r.chance(3, 4)) s['%'] = false; p = setToParam(s); }
        }
        return enc('E', p, genPayload(r, 4096));
    }
    case 3: case 4: {
        std::string s = genPayload(r, 4096);
        if (r.coin()) { // make it well-formed: fix every '%'
            std::string t;
            for (size_t i = 0; i < s.size(); ++i) { t += s[i]; if (s[i] == '%') { t += r.from("0123456789abcdefABCDEF", 2); } }
            s = t;
        }
        return enc('D', "-", s);
    }
    case 5: case 6: case 7: {
        std::string s = genPayload(r, 4096);
        for (auto &ch : s) if (!ch) ch = (char)r.range(1, 255);
        return enc('R', std::to_string(FlagChoices[r.below(sizeof(FlagChoices) / sizeof(*FlagChoices))]), s);
    }
    default: {
        std::string s = genPayload(r, 4096);
        for (auto &ch : s) if (!ch) ch = '%';
        return enc('U', "-", s);
    }
    }
}

int drive(Ctx &ctx) {
    if (!ctx.replaying) {
        // exhaustive small scope: every byte string of length <= 2 (quick) / <= 3 (thorough), split over the shards
        const int maxLen = ctx.thorough ? 3 : 2;
        long n = 0;
        uint64_t idx = 0;
        for (int len = 0; len <= maxLen; ++len) {
            const uint64_t total = 1ULL << (8 * len);
            for (uint64_t v = 0; v < total; ++v, ++idx) {
                if ((int)(idx % (uint64_t)ctx.nshards) != ctx.shard) continue;
                std::string s(len, '\0');
                for (int i = 0; i < len; ++i) s[i] = (char)(v >> (8 * i));
                const bool nulFree = s.find('\0') == std::string::npos;
                for (const char *set : {"u", "0"}) { const std::string w = enc('E', set, s); ctx.begin(w); run(ctx, w); ++n; }
                { const std::string w = enc('D', "-", s); ctx.begin(w); run(ctx, w); ++n; }
                if (nulFree) {
                    for (int f : {FlagChoices[0], FlagChoices[1], FlagChoices[2]}) { const std::string w = enc('R', std::to_string(f), s); ctx.begin(w); run(ctx, w); ++n; }
                    const std::string w = enc('U', "-", s); ctx.begin(w); run(ctx, w); ++n;
                }
            }
        }
        ctx.count("exhaustive_cases", n);
        ctx.count(std::string("exhaustive_all_strings_up_to_len_") + std::to_string(maxLen));
        ctx.exhaustive = true;
    }
    return vh::Loop(ctx, gen, run);
}

} // namespace

VH_REGISTER(C31, drive, "percent-encoding round trips: Uri::Encode/Decode and rfc1738 escape/unescape");
