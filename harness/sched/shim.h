// Force-included (-include) into the IPC sources and the scheduler drivers.
// Replaces std::atomic / std::atomic_flag by wrappers of identical layout that call the
// cooperative scheduler before every atomic operation. No Squid source is modified.
#ifndef VERIF_SHIM_H
#define VERIF_SHIM_H
#ifdef __cplusplus
#include <bits/stdc++.h>

namespace verif {
// kind: 0 load, 1 store, 2 rmw/cas
void sched_point(const volatile void *addr, int kind);
}

namespace std {

template <class T>
class verif_atomic
{
    std::atomic<T> v_;
public:
    typedef T value_type;
    verif_atomic() noexcept = default;
    constexpr verif_atomic(T d) noexcept : v_(d) {}
    verif_atomic(const verif_atomic &) = delete;
    verif_atomic &operator=(const verif_atomic &) = delete;

    bool is_lock_free() const noexcept { return v_.is_lock_free(); }
    T load(memory_order m = memory_order_seq_cst) const noexcept { verif::sched_point(this, 0); return v_.load(m); }
    void store(T d, memory_order m = memory_order_seq_cst) noexcept { verif::sched_point(this, 1); v_.store(d, m); }
    operator T() const noexcept { return load(); }
    T operator=(T d) noexcept { store(d); return d; }
    T exchange(T d, memory_order m = memory_order_seq_cst) noexcept { verif::sched_point(this, 2); return v_.exchange(d, m); }
    bool compare_exchange_weak(T &e, T d, memory_order s, memory_order f) noexcept { verif::sched_point(this, 2); return v_.compare_exchange_strong(e, d, s, f); }
    bool compare_exchange_weak(T &e, T d, memory_order m = memory_order_seq_cst) noexcept { verif::sched_point(this, 2); return v_.compare_exchange_strong(e, d, m); }
    bool compare_exchange_strong(T &e, T d, memory_order s, memory_order f) noexcept { verif::sched_point(this, 2); return v_.compare_exchange_strong(e, d, s, f); }
    bool compare_exchange_strong(T &e, T d, memory_order m = memory_order_seq_cst) noexcept { verif::sched_point(this, 2); return v_.compare_exchange_strong(e, d, m); }
    T fetch_add(T d, memory_order m = memory_order_seq_cst) noexcept { verif::sched_point(this, 2); return v_.fetch_add(d, m); }
    T fetch_sub(T d, memory_order m = memory_order_seq_cst) noexcept { verif::sched_point(this, 2); return v_.fetch_sub(d, m); }
    T fetch_and(T d, memory_order m = memory_order_seq_cst) noexcept { verif::sched_point(this, 2); return v_.fetch_and(d, m); }
    T fetch_or(T d, memory_order m = memory_order_seq_cst) noexcept { verif::sched_point(this, 2); return v_.fetch_or(d, m); }
    T fetch_xor(T d, memory_order m = memory_order_seq_cst) noexcept { verif::sched_point(this, 2); return v_.fetch_xor(d, m); }
    T operator++() noexcept { return fetch_add(1) + 1; }
    T operator++(int) noexcept { return fetch_add(1); }
    T operator--() noexcept { return fetch_sub(1) - 1; }
    T operator--(int) noexcept { return fetch_sub(1); }
    T operator+=(T d) noexcept { return fetch_add(d) + d; }
    T operator-=(T d) noexcept { return fetch_sub(d) - d; }
    T operator&=(T d) noexcept { return fetch_and(d) & d; }
    T operator|=(T d) noexcept { return fetch_or(d) | d; }
    // unhooked access for monitors
    T verif_peek() const noexcept { return v_.load(memory_order_seq_cst); }
};

class verif_atomic_flag
{
    std::atomic_flag f_ = ATOMIC_FLAG_INIT;
public:
    verif_atomic_flag() noexcept = default;
    verif_atomic_flag(const verif_atomic_flag &) = delete;
    bool test_and_set(memory_order m = memory_order_seq_cst) noexcept { verif::sched_point(this, 2); return f_.test_and_set(m); }
    void clear(memory_order m = memory_order_seq_cst) noexcept { verif::sched_point(this, 1); f_.clear(m); }
};

} // namespace std

#define atomic verif_atomic
#define atomic_flag verif_atomic_flag
#endif
#endif
