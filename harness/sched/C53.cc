// C53 Shared page allocator never double-allocates or loses pages.
// Real Ipc::Mem::PageStack (compiled with the atomic shim) driven by 2-3 threads under the seeded
// cooperative scheduler; history + count-based oracle (DESIGN 6.3).
#include "squid.h"
#include "vh.h"
#include "sched/sched.h"
#include "ipc/mem/PageStack.h"
#include "ipc/mem/Page.h"

#include <sstream>

using vh::Ctx;
using vh::Rng;

namespace {

struct Op { int tid; char kind; long call, ret; bool ok; uint32_t page; };

std::string gen(Rng &r)
{
    static const int caps[] = {1, 2, 3, 4, 5, 7, 8, 9, 31, 32, 33, 63, 64, 65, 66, 127, 128, 129, 130};
    std::ostringstream o;
    const int cap = caps[r.below(sizeof(caps) / sizeof(*caps))];
    const int nthreads = 2 + (int)r.below(2);
    // small capacities start full or nearly empty so that exhaustion (failed pops) is actually reached
    const int full = r.below(4) != 0;
    o << "cap=" << cap << " pol=" << r.below(4) << " ss=" << r.next() % 1000000007ULL << " full=" << full << " drain=" << (cap > 8 ? (int)r.below(cap) : 0);
    for (int t = 0; t < nthreads; ++t) {
        o << " T";
        const int n = 2 + (int)r.below(7);
        for (int i = 0; i < n; ++i) o << (r.below(5) < 3 ? 'p' : 'u');
    }
    return o.str();
}

void run(Ctx &ctx, const std::string &w)
{
    int cap = 0, pol = 0, full = 1, drain = 0;
    unsigned long long ss = 0;
    std::vector<std::string> progs;
    {
        std::istringstream is(w);
        std::string tok;
        while (is >> tok) {
            if (tok.rfind("cap=", 0) == 0) cap = atoi(tok.c_str() + 4);
            else if (tok.rfind("pol=", 0) == 0) pol = atoi(tok.c_str() + 4);
            else if (tok.rfind("ss=", 0) == 0) ss = strtoull(tok.c_str() + 3, nullptr, 10);
            else if (tok.rfind("full=", 0) == 0) full = atoi(tok.c_str() + 5);
            else if (tok.rfind("drain=", 0) == 0) drain = atoi(tok.c_str() + 6);
            else if (tok[0] == 'T') progs.push_back(tok.substr(1));
        }
    }
    if (cap <= 0 || progs.empty() || progs.size() > 8) return;

    Ipc::Mem::PageStack::Config cfg;
    cfg.poolId = 77;
    cfg.pageSize = 32;
    cfg.capacity = cap;
    cfg.createFull = full != 0;
    const size_t sz = Ipc::Mem::PageStack::SharedMemorySize(cfg);
    void *mem = calloc(1, sz + 64);
    auto *stack = new (mem) Ipc::Mem::PageStack(cfg);

    // single-threaded prologue: when not created full, push a few pages; optional drain to get near exhaustion
    std::vector<char> held(cap + 1, 0); // ownership table: 1 = held by the harness/threads (not in the stack)
    std::vector<std::vector<uint32_t>> mine(progs.size());
    int inStack = full ? cap : 0;
    if (!full) {
        // all pages start "held" by the harness; give some to the stack and some to the threads
        for (int p = 1; p <= cap; ++p) held[p] = 1;
        for (int p = 1; p <= cap; ++p) {
            if (p % 3 == 0) { mine[p % progs.size()].push_back(p); continue; }
            Ipc::Mem::PageId id; id.pool = cfg.poolId; id.number = p;
            stack->push(id);
            held[p] = 0;
            ++inStack;
        }
    }
    for (int i = 0; i < drain && inStack > 0; ++i) {
        Ipc::Mem::PageId id;
        if (!stack->pop(id)) { ctx.violation("pagestack:sequential-pop-failed", "single-threaded pop failed with free pages"); break; }
        held[id.number] = 1;
        mine[i % progs.size()].push_back(id.number);
        --inStack;
    }
    const int cap0 = inStack; // free pages at the start of the concurrent phase

    std::vector<Op> ops;
    std::string bad; // first violation detected online
    std::string badKey;
    std::vector<std::function<void()>> bodies;
    for (size_t t = 0; t < progs.size(); ++t) {
        bodies.push_back([&, t] {
            for (char k : progs[t]) {
                if (k == 'p') {
                    Op op{(int)t, 'p', verif::Tick(), 0, false, 0};
                    Ipc::Mem::PageId id;
                    op.ok = stack->pop(id);
                    op.ret = verif::Tick();
                    if (op.ok) {
                        op.page = id.number;
                        if (!id.set() || id.number < 1 || id.number > (uint32_t)cap || id.pool != cfg.poolId || !stack->pageIdIsValid(id)) {
                            if (bad.empty()) { badKey = "pagestack:invalid-page-popped"; bad = "pop returned invalid page " + std::to_string(id.number); }
                        } else if (held[id.number]) {
                            if (bad.empty()) { badKey = "pagestack:double-allocation"; bad = "pop returned page " + std::to_string(id.number) + " which is currently held (not free)"; }
                        } else {
                            held[id.number] = 1;
                            mine[t].push_back(id.number);
                        }
                    }
                    ops.push_back(op);
                } else if (!mine[t].empty()) {
                    const uint32_t p = mine[t].back();
                    mine[t].pop_back();
                    Op op{(int)t, 'u', verif::Tick(), 0, true, p};
                    Ipc::Mem::PageId id; id.pool = cfg.poolId; id.number = p;
                    held[p] = 0; // from the moment push() is invoked the page may legitimately be handed out
                    stack->push(id);
                    op.ret = verif::Tick();
                    ops.push_back(op);
                }
            }
        });
    }
    const verif::RunStats st = verif::RunThreads(bodies, ss, pol);
    ctx.count("sched_points", st.points);
    ctx.count("context_switches", st.switches);
    ctx.count("ops", (long)ops.size());
    if (st.livelock) { ctx.count("livelock_inconclusive"); }
    if (st.aborted) ctx.violation("pagestack:exception", "thread body threw: " + st.abortWhat);
    if (!bad.empty()) ctx.violation(badKey, bad);

    // failed pops: violation only if the lower bound on the free count was positive during the WHOLE call
    long failedPops = 0;
    for (const Op &f : ops) {
        if (f.kind != 'p' || f.ok) continue;
        ++failedPops;
        long minAvail = 1L << 40;
        // the count only changes at push returns (up) and successful-pop invocations (down): evaluate at f.call and after every event inside
        std::vector<long> times{f.call};
        for (const Op &o : ops) {
            if (o.kind == 'p' && o.ok && o.call > f.call && o.call <= f.ret) times.push_back(o.call);
        }
        for (long t : times) {
            long avail = cap0;
            for (const Op &o : ops) {
                if (o.kind == 'u' && o.ret <= t) ++avail;
                if (o.kind == 'p' && o.ok && o.call <= t) --avail;
            }
            minAvail = std::min(minAvail, avail);
        }
        if (minAvail > 0)
            ctx.violation("pagestack:pop-failed-with-free-pages", "pop failed although at least " + std::to_string(minAvail) + " page(s) were free during its whole interval");
    }
    ctx.count("failed_pops", failedPops);

    // quiescence: popping until failure yields exactly the pages nobody holds
    long heldCount = 0;
    for (int p = 1; p <= cap; ++p) heldCount += held[p];
    long got = 0;
    Ipc::Mem::PageId id;
    std::vector<char> seen(cap + 1, 0);
    while (got <= cap && stack->pop(id)) {
        if (id.number < 1 || id.number > (uint32_t)cap) { ctx.violation("pagestack:invalid-page-popped", "quiescent pop returned invalid page"); break; }
        if (held[id.number] || seen[id.number]) { ctx.violation("pagestack:double-allocation", "quiescent drain returned page " + std::to_string(id.number) + " that is held or was already returned"); break; }
        seen[id.number] = 1;
        ++got;
        id = Ipc::Mem::PageId();
    }
    if (got != cap - heldCount)
        ctx.violation("pagestack:lost-pages", "at quiescence " + std::to_string(got) + " pages could be popped, expected " + std::to_string(cap - heldCount));

    // feature: schedule identity; trivial if no context switch happened
    ctx.feature(Ctx::mix(st.hash, Ctx::hash(w.substr(0, w.find(" ss=")))), st.switches > 0);
    free(mem);
}

int drive(Ctx &ctx) { return vh::Loop(ctx, gen, run); }

} // namespace

VH_REGISTER(C53, drive, "PageStack under seeded cooperative schedules; count-based history oracle");
