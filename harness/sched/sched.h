// Seeded cooperative scheduler: real pthreads serialised by a baton; a context switch can happen
// only at verif::sched_point(), i.e. before every atomic operation of the shimmed IPC code.
#ifndef VERIF_SCHED_H
#define VERIF_SCHED_H

#include <cstdint>
#include <functional>
#include <vector>
#include <string>

namespace verif {

enum Policy { Uniform = 0, Pct = 1, Sticky = 2, Starve = 3 };

struct RunStats {
    uint64_t hash = 0;        // identity of the schedule: sequence of (chosen thread) at every point
    long points = 0;          // scheduling points executed
    long switches = 0;        // context switches (next != current)
    bool livelock = false;    // step bound exceeded (inconclusive)
    bool aborted = false;     // a thread body threw
    std::string abortWhat;
};

// Runs bodies[i] as thread i under the given seed/policy until all finish. Thread-safe w.r.t. monitors:
// exactly one body runs at any time, so monitors may use plain data.
RunStats RunThreads(const std::vector<std::function<void()>> &bodies, uint64_t seed, int policy, long stepLimit = 200000);

// logical clock: advances at every scheduling point and every explicit tick
long Now();
long Tick();
int Self(); // id of the running body (-1 outside RunThreads)

// true while inside RunThreads on a worker thread: hooks are active
bool Active();

} // namespace verif

#endif
