// C55 Shared store index exposes only complete, stable entries.
// Real Ipc::StoreMap (atomic shim; real POSIX shm segments) driven by 2-3 threads under the seeded scheduler.
// The harness owns the slice free list and tags every slice with (key, generation).
#include "squid.h"
#include "vh.h"
#include "sched/sched.h"
#include "ipc/StoreMap.h"
#include "sbuf/SBuf.h"
#include "store_key_md5.h"
#include "SquidConfig.h"

#include <sstream>
#include <unistd.h>

using vh::Ctx;
using vh::Rng;

namespace {

struct Tag { int key = 0; long gen = 0; };

struct Reader { int tid; int key; long gen; sfileno fileno; };

struct Cleaner : public Ipc::StoreMapCleaner {
    std::vector<Tag> *tags = nullptr;
    std::vector<int> *freeList = nullptr;
    std::vector<Reader> *readers = nullptr;
    std::string *bad = nullptr, *badKey = nullptr;
    long freed = 0;
    void noteFreeMapSlice(const Ipc::StoreMapSliceId sliceId) override {
        ++freed;
        Tag &t = (*tags)[sliceId];
        for (const Reader &r : *readers) {
            if (t.key == r.key && t.gen == r.gen && t.gen != 0 && bad->empty()) {
                *badKey = "storemap:slice-freed-under-reader";
                *bad = "slice " + std::to_string(sliceId) + " of entry key=" + std::to_string(r.key) + " gen=" + std::to_string(r.gen) + " was freed while thread " + std::to_string(r.tid) + " holds the entry open for reading";
            }
        }
        t = Tag();
        freeList->push_back(sliceId);
    }
};

int g_realKey[4] = {0, 1, 2, 3};
void mkKey(int k, unsigned char *out) { memset(out, 0, 16); out[0] = (unsigned char)k; out[5] = 0x5a; out[15] = (unsigned char)(k * 37); }

std::string gen(Rng &r)
{
    std::ostringstream o;
    const int nthreads = 2 + (int)r.below(2);
    const bool structured = r.below(2) == 0;
    // col=1: the logical keys are mapped to real keys that all hash to ONE anchor position (key collisions are where
    // "only under the requested key" can fail)
    o << "slots=" << 3 + r.below(6) << " keys=" << (structured ? 2 + r.below(2) : 1 + r.below(3)) << " col=" << (structured ? 1 : r.below(2)) << " pol=" << r.below(4) << " ss=" << r.next() % 1000000007ULL;
    if (structured) {
        // one thread keeps replacing the entry at the shared position with alternating keys, the others keep opening them
        for (int t = 0; t < nthreads; ++t) {
            o << " T";
            const int reps = 2 + (int)r.below(3);
            for (int i = 0; i < reps; ++i) {
                if (t == 0) o << 'W' << 1 + (i & 1) << 1 + r.below(2) << (r.below(3) == 0 ? "D1" : "");
                else o << 'R' << 1 + r.below(2) << (r.below(4) == 0 ? "F2" : "");
            }
        }
        return o.str();
    }
    // W<k><n>: write key k with n slices (appending after the first slice), A<k><n>: write then abort,
    // R<k>: read key k, D<k>: freeEntryByKey, F<k>: freeEntry(fileNoByKey), P: purgeOne
    for (int t = 0; t < nthreads; ++t) {
        o << " T";
        const int n = 2 + (int)r.below(6);
        for (int i = 0; i < n; ++i) {
            const int k = 1 + (int)r.below(3);
            switch (r.below(10)) {
            case 0: case 1: case 2: o << 'W' << k << 1 + r.below(3); break;
            case 3: o << 'A' << k << 1 + r.below(3); break;
            case 4: case 5: case 6: o << 'R' << k; break;
            case 7: o << 'D' << k; break;
            case 8: o << 'F' << k; break;
            default: o << 'P'; break;
            }
        }
    }
    return o.str();
}

long g_mapCounter = 0;

void run(Ctx &ctx, const std::string &w)
{
    int slots = 4, nkeys = 2, pol = 0, collide = 0;
    unsigned long long ss = 0;
    std::vector<std::string> progs;
    {
        std::istringstream is(w);
        std::string tok;
        while (is >> tok) {
            if (tok.rfind("slots=", 0) == 0) slots = atoi(tok.c_str() + 6);
            else if (tok.rfind("keys=", 0) == 0) nkeys = atoi(tok.c_str() + 5);
            else if (tok.rfind("col=", 0) == 0) collide = atoi(tok.c_str() + 4);
            else if (tok.rfind("pol=", 0) == 0) pol = atoi(tok.c_str() + 4);
            else if (tok.rfind("ss=", 0) == 0) ss = strtoull(tok.c_str() + 3, nullptr, 10);
            else if (tok[0] == 'T') progs.push_back(tok.substr(1));
        }
    }
    if (slots < 1 || slots > 64 || progs.empty() || progs.size() > 8 || nkeys < 1) return;
    const int n = (int)progs.size();

    if (!Config.shmLocking.configured()) Config.shmLocking.defaultTo(false);
    const SBuf path(("verif-c55-" + std::to_string(getpid()) + "-" + std::to_string(++g_mapCounter % 4)).c_str());
    Ipc::StoreMap::Owner *owner = Ipc::StoreMap::Init(path, slots);
    {
        Ipc::StoreMap map(path);
        map.disableHitValidation();
        // logical key k -> real key number
        if (collide) {
            std::map<sfileno, std::vector<int>> byPos;
            for (int id = 1; id <= 60; ++id) { unsigned char kk[16]; mkKey(id, kk); byPos[map.fileNoByKey(reinterpret_cast<const cache_key *>(kk))].push_back(id); }
            for (auto &e : byPos) if ((int)e.second.size() >= 3) { for (int i = 0; i < 3; ++i) g_realKey[i + 1] = e.second[i]; break; }
        } else { g_realKey[1] = 1; g_realKey[2] = 2; g_realKey[3] = 3; }
        std::vector<Tag> tags(slots);
        std::vector<int> freeList;
        for (int i = slots - 1; i >= 0; --i) freeList.push_back(i);
        std::vector<Reader> readers;
        std::string bad, badKey;
        Cleaner cleaner;
        cleaner.tags = &tags; cleaner.freeList = &freeList; cleaner.readers = &readers; cleaner.bad = &bad; cleaner.badKey = &badKey;
        map.cleaner = &cleaner;
        auto fail = [&](const std::string &k, const std::string &d) { if (bad.empty()) { badKey = k; bad = d; } };

        std::vector<int> writerOf(slots, -1);
        long nextGen = 0;
        // per key history for the delete-before-open rule
        struct KeyHist {
            std::vector<std::pair<long, long>> writes;   // [call, ret] of every write attempt (open..close/abort)
            std::vector<std::pair<long, long>> completed; // (gen, time closeForWriting returned)
            std::vector<std::pair<long, long>> deletes;  // [call, ret] of freeEntryByKey/freeEntry that returned
        };
        std::vector<KeyHist> hist(4);
        long reads = 0, readHits = 0, writesOk = 0, writeFails = 0, deletes = 0, appReads = 0;

        std::vector<std::function<void()>> bodies;
        for (int t = 0; t < n; ++t) {
            bodies.push_back([&, t] {
                const std::string &p = progs[t];
                for (size_t i = 0; i < p.size(); ++i) {
                    const char op = p[i];
                    int k = 1, cnt = 1;
                    if (op != 'P') { if (i + 1 >= p.size()) break; k = p[++i] - '0'; }
                    if (op == 'W' || op == 'A') { if (i + 1 >= p.size()) break; cnt = p[++i] - '0'; }
                    if (k < 1 || k > 3) continue;
                    if (k > nkeys) k = 1 + (k % nkeys);
                    unsigned char key[16];
                    mkKey(g_realKey[k], key);
                    const auto ckey = reinterpret_cast<const cache_key *>(key);
                    const long call = verif::Tick();
                    if (op == 'W' || op == 'A') {
                        sfileno fileno = -1;
                        Ipc::StoreMap::Anchor *a = map.openForWriting(ckey, fileno);
                        if (!a) { ++writeFails; continue; }
                        if (writerOf[fileno] != -1) fail("storemap:two-writers", "threads " + std::to_string(writerOf[fileno]) + " and " + std::to_string(t) + " both opened anchor " + std::to_string(fileno) + " for writing");
                        writerOf[fileno] = t;
                        const long gen = ++nextGen;
                        a->setKey(ckey);
                        a->basics.timestamp = gen;
                        a->basics.swap_file_sz = 0;
                        int prev = -1, linked = 0;
                        bool abort = (op == 'A');
                        for (int s = 0; s < cnt; ++s) {
                            if (freeList.empty()) { abort = true; break; }
                            const int sl = freeList.back();
                            freeList.pop_back();
                            map.prepFreeSlice(sl);
                            tags[sl] = Tag{k, gen};
                            Ipc::StoreMap::Slice &slice = map.writeableSlice(fileno, sl);
                            slice.size = 100 + s;
                            slice.next = -1;
                            if (prev < 0) a->start = sl;
                            else map.writeableSlice(fileno, prev).next = sl;
                            a->basics.swap_file_sz = a->basics.swap_file_sz + 100 + s;
                            prev = sl;
                            ++linked;
                            if (s == 0 && cnt > 1) map.startAppending(fileno); // readers may attach from now on
                        }
                        writerOf[fileno] = -1;
                        if (abort) {
                            map.abortWriting(fileno);
                            hist[k].writes.push_back({call, verif::Tick()});
                            ++writeFails;
                        } else {
                            map.closeForWriting(fileno);
                            const long ret = verif::Tick();
                            hist[k].writes.push_back({call, ret});
                            hist[k].completed.push_back({gen, ret});
                            ++writesOk;
                        }
                    } else if (op == 'R') {
                        sfileno fileno = -1;
                        ++reads;
                        const Ipc::StoreMap::Anchor *a = map.openForReading(ckey, fileno);
                        if (!a) continue;
                        ++readHits;
                        const long gen = a->basics.timestamp;
                        readers.push_back(Reader{t, k, gen, fileno});
                        if (!a->sameKey(ckey)) fail("storemap:reader-got-wrong-key", "openForReading(key " + std::to_string(k) + ") returned an anchor with another key");
                        if (a->empty()) fail("storemap:reader-got-empty-anchor", "openForReading returned an empty anchor");
                        // (whether the writer is in append mode cannot be sampled race-free from here -- unlockExclusive() clears
                        // `appending` before `writing`; reader/writer exclusion is C54's subject and is monitored there)
                        if (a->lock.writing.verif_peek()) ++appReads;
                        // delete-before-open: a delete that targeted exactly this generation completed before our open started
                        for (auto &d : hist[k].deletes) {
                            if (d.second >= call) continue; // delete not finished before we started
                            // the generation that was current and complete when the delete started, with no writer active during the delete
                            long cur = 0, curAt = -1; bool writerActive = false;
                            for (auto &c : hist[k].completed) if (c.second < d.first && c.second > curAt) { cur = c.first; curAt = c.second; }
                            for (auto &wr : hist[k].writes) if (wr.first <= d.second && wr.second >= d.first) writerActive = true;
                            // a later complete write of another gen between does not matter: we only condemn `cur`
                            bool overwrittenBefore = false; // cur might have been replaced before the delete: then delete hit something else
                            for (auto &c : hist[k].completed) if (c.first > cur && c.second < d.first) overwrittenBefore = true;
                            if (!writerActive && !overwrittenBefore && cur != 0 && gen == cur)
                                fail("storemap:deleted-entry-opened", "entry key=" + std::to_string(k) + " gen=" + std::to_string(gen) + " was deleted (call completed at t=" + std::to_string(d.second) + ") before this openForReading started at t=" + std::to_string(call));
                        }
                        // walk the chain twice; other threads run in between (readableSlice loads are scheduling points)
                        for (int pass = 0; pass < 2; ++pass) {
                            int sl = a->start;
                            int guard = 0;
                            while (sl >= 0 && guard++ <= slots) {
                                if (tags[sl].key != k || tags[sl].gen != gen) {
                                    fail("storemap:reader-sees-foreign-slice", "reader of key=" + std::to_string(k) + " gen=" + std::to_string(gen) + " walks slice " + std::to_string(sl) + " tagged key=" + std::to_string(tags[sl].key) + " gen=" + std::to_string(tags[sl].gen));
                                    break;
                                }
                                sl = map.readableSlice(fileno, sl).next;
                            }
                            if (guard > slots + 1) fail("storemap:chain-cycle", "reader walked more slices than exist");
                        }
                        for (size_t q = 0; q < readers.size(); ++q) if (readers[q].tid == t) { readers.erase(readers.begin() + q); break; }
                        map.closeForReading(fileno);
                    } else if (op == 'D') {
                        map.freeEntryByKey(ckey);
                        hist[k].deletes.push_back({call, verif::Tick()});
                        ++deletes;
                    } else if (op == 'F') {
                        // like Rock/MemStore eviction by position: only judged as a delete when the key matches at call time
                        const sfileno fileno = map.fileNoByKey(ckey);
                        map.freeEntry(fileno);
                        ++deletes;
                    } else if (op == 'P') {
                        map.purgeOne();
                    }
                }
            });
        }
        const verif::RunStats st = verif::RunThreads(bodies, ss, pol);
        ctx.count("sched_points", st.points);
        ctx.count("context_switches", st.switches);
        ctx.count("reads", reads);
        ctx.count("read_hits", readHits);
        ctx.count("reads_of_appending_entries", appReads);
        ctx.count("writes_completed", writesOk);
        ctx.count("writes_failed_or_aborted", writeFails);
        ctx.count("deletes", deletes);
        ctx.count("slices_freed", cleaner.freed);
        if (st.aborted) ctx.violation("storemap:exception", st.abortWhat);
        if (!bad.empty()) ctx.violation(badKey, bad);
        // quiescence: slice conservation: free + reachable from readable entries == slots, no slice reachable twice
        std::vector<char> seen(slots, 0);
        long reachable = 0;
        for (int k = 1; k <= nkeys && bad.empty(); ++k) {
            unsigned char key[16];
            mkKey(g_realKey[k], key);
            const auto ckey = reinterpret_cast<const cache_key *>(key);
            sfileno fn = -1;
            if (const auto *a = map.openForReading(ckey, fn)) {
                int sl = a->start, guard = 0;
                while (sl >= 0 && guard++ <= slots) {
                    if (seen[sl]) { ctx.violation("storemap:slice-shared-by-two-entries", "slice " + std::to_string(sl) + " reachable from two entries at quiescence"); break; }
                    if (tags[sl].key != k) { ctx.violation("storemap:reader-sees-foreign-slice", "at quiescence entry key=" + std::to_string(k) + " reaches slice tagged key=" + std::to_string(tags[sl].key)); break; }
                    seen[sl] = 1; ++reachable;
                    sl = map.readableSlice(fn, sl).next;
                }
                map.closeForReading(fn);
            }
        }
        for (int s : freeList) if (seen[s]) ctx.violation("storemap:free-slice-reachable", "slice " + std::to_string(s) + " is both free and reachable");
        // slices of entries marked for deletion but never reclaimed are legitimately neither free nor reachable: not judged
        ctx.feature(Ctx::mix(st.hash, Ctx::hash(w.substr(0, w.find(" pol=")) + w.substr(w.find(" T")))), st.switches > 0);
        map.cleaner = nullptr;
    }
    delete owner;
}

int drive(Ctx &ctx) { return vh::Loop(ctx, gen, run); }

} // namespace

VH_REGISTER(C55, drive, "StoreMap under seeded cooperative schedules; tagged-slice/reader-registry monitor");
