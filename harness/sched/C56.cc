// C56 Inter-process queues are FIFO without lost items or wakeups.
// Real Ipc::OneToOneUniQueue + QueueReader (atomic shim), one producer and one consumer under the seeded
// scheduler. The out-of-band notification is modelled as a counter of messages in flight.
#include "squid.h"
#include "vh.h"
#include "sched/sched.h"
#include "ipc/Queue.h"

#include <sstream>

using vh::Ctx;
using vh::Rng;

namespace {

struct Item { uint32_t id; uint32_t check; };
inline uint32_t chk(uint32_t id) { return id * 2654435761u ^ 0xA5A5A5A5u; }

std::string gen(Rng &r)
{
    std::ostringstream o;
    o << "cap=" << 1 + r.below(4) << " items=" << 2 + r.below(8) << " pol=" << r.below(4) << " ss=" << r.next() % 1000000007ULL
      << " lazy=" << r.below(3); // how eagerly the consumer handles notifications (0: at once when idle; 1,2: after extra idle polls)
    return o.str();
}

void run(Ctx &ctx, const std::string &w)
{
    int cap = 1, items = 3, pol = 0, lazy = 0;
    unsigned long long ss = 0;
    {
        std::istringstream is(w);
        std::string tok;
        while (is >> tok) {
            if (tok.rfind("cap=", 0) == 0) cap = atoi(tok.c_str() + 4);
            else if (tok.rfind("items=", 0) == 0) items = atoi(tok.c_str() + 6);
            else if (tok.rfind("pol=", 0) == 0) pol = atoi(tok.c_str() + 4);
            else if (tok.rfind("lazy=", 0) == 0) lazy = atoi(tok.c_str() + 5);
            else if (tok.rfind("ss=", 0) == 0) ss = strtoull(tok.c_str() + 3, nullptr, 10);
        }
    }
    if (cap < 1 || cap > 64 || items < 1 || items > 1000) return;
    const int bytes = Ipc::OneToOneUniQueue::Items2Bytes(sizeof(Item), cap);
    void *mem = calloc(1, bytes + 64);
    auto *q = new (mem) Ipc::OneToOneUniQueue(sizeof(Item), cap);
    Ipc::QueueReader reader;

    std::atomic<int> idle(0);        // shimmed: a load is a scheduling point for the harness' own wait loops
    int notificationsInFlight = 0;   // plain: only the baton holder runs
    long notificationsSent = 0, fullRetries = 0;
    bool producerDone = false;
    std::vector<uint32_t> popped;
    std::string bad, badKey;
    auto fail = [&](const std::string &k, const std::string &d) { if (bad.empty()) { badKey = k; bad = d; } };

    auto producer = [&] {
        for (uint32_t id = 1; id <= (uint32_t)items; ++id) {
            const Item it{id, chk(id)};
            for (int spins = 0;; ++spins) {
                try {
                    if (q->push(it, &reader)) { ++notificationsInFlight; ++notificationsSent; }
                    break;
                } catch (const Ipc::OneToOneUniQueue::Full &) {
                    ++fullRetries;
                    (void)idle.load(); // let the consumer run
                    if (spins > 20000) { fail("queue:producer-starved", "queue stays full: consumer made no progress"); return; }
                }
            }
        }
        producerDone = true;
    };
    auto consumer = [&] {
        for (long guard = 0; guard < 400000; ++guard) {
            Item it{0, 0};
            if (q->pop(it, &reader)) {
                if (it.check != chk(it.id)) fail("queue:torn-item", "popped item " + std::to_string(it.id) + " has a bad checksum (read while being written)");
                popped.push_back(it.id);
                continue;
            }
            // pop() said empty and blocked us: we SLEEP (no polling!) until a notification is delivered. Only a notification
            // or nothing at all can follow; if the producer is done and nothing is in flight we sleep forever.
            int idlePolls = 0;
            for (;;) {
                if (notificationsInFlight > 0 && idlePolls >= lazy) break;
                if (producerDone && notificationsInFlight == 0) return; // asleep for good
                ++idlePolls;
                (void)idle.load(); // give others the CPU
                if (++guard > 400000) { fail("queue:consumer-guard", "consumer wait guard exceeded"); return; }
            }
            --notificationsInFlight;
            reader.clearSignal(); // what the notification handler does before popping
        }
        fail("queue:consumer-guard", "consumer loop guard exceeded");
    };
    std::vector<std::function<void()>> bodies{producer, consumer};
    const verif::RunStats st = verif::RunThreads(bodies, ss, pol, 1200);
    ctx.count("sched_points", st.points);
    ctx.count("context_switches", st.switches);
    ctx.count("items_pushed", items);
    ctx.count("items_popped", (long)popped.size());
    ctx.count("notifications", notificationsSent);
    ctx.count("full_retries", fullRetries);
    if (st.aborted) ctx.violation("queue:exception", st.abortWhat);
    if (!bad.empty()) ctx.violation(badKey, bad);
    // FIFO, no loss, no duplication: popped must be a prefix 1..k
    for (size_t i = 0; i < popped.size(); ++i) {
        if (popped[i] != i + 1) {
            ctx.violation(popped[i] <= i ? "queue:duplicate-or-reordered" : "queue:lost-or-reordered", "pop #" + std::to_string(i + 1) + " returned item " + std::to_string(popped[i]));
            break;
        }
    }
    // lost wake-up: consumer went to sleep for good with items still queued and no notification pending
    if (bad.empty() && (long)popped.size() < items && q->size() > 0)
        ctx.violation("queue:lost-wakeup", "consumer is asleep with " + std::to_string(q->size()) + " item(s) queued, producer finished and no notification in flight");
    else if (bad.empty() && (long)popped.size() != items)
        ctx.violation("queue:lost-item", "pushed " + std::to_string(items) + " items, popped " + std::to_string(popped.size()) + ", queue size " + std::to_string(q->size()));
    ctx.feature(Ctx::mix(st.hash, Ctx::hash(w.substr(0, w.find(" pol=")))), st.switches > 0);
    free(mem);
}

int drive(Ctx &ctx) { return vh::Loop(ctx, gen, run); }

} // namespace

VH_REGISTER(C56, drive, "OneToOneUniQueue SPSC under seeded cooperative schedules; FIFO/no-loss/lost-wakeup monitor");
