// C54 Shared read/write lock provides mutual exclusion.
// Real Ipc::ReadWriteLock (atomic shim) driven by 2-4 threads under the seeded scheduler; holder-set monitor.
#include "squid.h"
#include "vh.h"
#include "sched/sched.h"
#include "ipc/ReadWriteLock.h"

#include <sstream>

using vh::Ctx;
using vh::Rng;

namespace {

enum Hold { None, Shared, Excl, Headers };

struct Thr {
    Hold hold = None;
    bool appending = false;        // between startAppending() call and stop/unlock return
    long appendFrom = -1;          // time startAppending was invoked (may be visible from then on)
    long appendUntil = -1;         // time the append mode was certainly over (stop/unlock returned); -1 = still on
    long restoredAt = -1;          // time stopAppendingAndRestoreExclusive() returned TRUE: exclusive from then on
};

std::string gen(Rng &r)
{
    std::ostringstream o;
    const int nthreads = 2 + (int)r.below(3);
    o << "pol=" << r.below(4) << " ss=" << r.next() % 1000000007ULL;
    static const char alphabet[] = "rrrwwwhaasxyRWHU";
    // half of the cases are structured: one appending writer going through whole append sessions, the others readers /
    // header updaters / upgraders, so that the narrow windows (reader half-way through lockShared() while the writer
    // leaves append mode) are actually sampled; the other half are free-form op strings
    const bool structured = r.below(2) == 0;
    for (int t = 0; t < nthreads; ++t) {
        o << " T";
        if (structured) {
            static const char *writer[] = {"was", "wasW", "waW", "wasaW", "wax", "wasasW", "waWwas"};
            static const char *reader[] = {"rR", "rRrR", "hH", "rRhH", "ryW", "rrR", "hHrR", "rRrRrR"};
            const int reps = 1 + (int)r.below(3);
            for (int k = 0; k < reps; ++k) o << (t == 0 ? writer[r.below(7)] : reader[r.below(8)]);
            continue;
        }
        const int n = 3 + (int)r.below(9);
        for (int i = 0; i < n; ++i) o << alphabet[r.below(sizeof(alphabet) - 1)];
    }
    return o.str();
}

void run(Ctx &ctx, const std::string &w)
{
    int pol = 0;
    unsigned long long ss = 0;
    std::vector<std::string> progs;
    {
        std::istringstream is(w);
        std::string tok;
        while (is >> tok) {
            if (tok.rfind("pol=", 0) == 0) pol = atoi(tok.c_str() + 4);
            else if (tok.rfind("ss=", 0) == 0) ss = strtoull(tok.c_str() + 3, nullptr, 10);
            else if (tok[0] == 'T') progs.push_back(tok.substr(1));
        }
    }
    if (progs.empty() || progs.size() > 8) return;
    const int n = (int)progs.size();
    Ipc::ReadWriteLock lock;
    std::vector<Thr> th(n);
    std::string bad, badKey;
    long acquires = 0, failures = 0, sharedBesideAppender = 0;
    auto fail = [&](const std::string &k, const std::string &d) { if (bad.empty()) { badKey = k; bad = d; } };

    // does any OTHER thread currently hold in a way that conflicts with `want`?
    auto otherExcl = [&](int me) { for (int i = 0; i < n; ++i) if (i != me && th[i].hold == Excl) return i; return -1; };
    auto otherReader = [&](int me) { for (int i = 0; i < n; ++i) if (i != me && (th[i].hold == Shared || th[i].hold == Headers)) return i; return -1; };
    auto otherHeaders = [&](int me) { for (int i = 0; i < n; ++i) if (i != me && th[i].hold == Headers) return i; return -1; };

    auto sharedAcquired = [&](int me, long call, long ret, const char *how) {
        ++acquires;
        const int wtr = otherExcl(me);
        if (wtr >= 0) {
            // allowed only if the writer was (possibly) in append mode at some instant of [call, ret]
            const Thr &W = th[wtr];
            const bool mayAppend = W.appendFrom >= 0 && W.appendFrom <= ret && (W.appendUntil < 0 || W.appendUntil >= call);
            if (W.restoredAt >= 0 && W.restoredAt <= ret && !W.appending)
                fail(std::string("rwlock:reader-admitted-after-exclusive-restored:") + how, "thread " + std::to_string(me) + " got a shared lock (call t=" + std::to_string(call) + ", return t=" + std::to_string(ret) + ") although thread " + std::to_string(wtr) + " was told at t=" + std::to_string(W.restoredAt) + " that its access is exclusive again");
            else if (!mayAppend)
                fail(std::string("rwlock:reader-beside-exclusive-writer:") + how, "thread " + std::to_string(me) + " got a shared lock while thread " + std::to_string(wtr) + " holds the exclusive lock and was not appending at any time during the acquisition");
            else
                ++sharedBesideAppender;
        }
    };
    auto exclAcquired = [&](int me, const char *how) {
        ++acquires;
        const int o = otherExcl(me);
        const int r = otherReader(me);
        if (o >= 0) fail(std::string("rwlock:two-writers:") + how, "thread " + std::to_string(me) + " got the exclusive lock while thread " + std::to_string(o) + " holds it");
        else if (r >= 0) fail(std::string("rwlock:writer-beside-reader:") + how, "thread " + std::to_string(me) + " got the exclusive lock while thread " + std::to_string(r) + " holds a shared lock");
    };

    std::vector<std::function<void()>> bodies;
    for (int t = 0; t < n; ++t) {
        bodies.push_back([&, t] {
            Thr &me = th[t];
            auto releaseAll = [&] {
                if (me.hold == Shared) { me.hold = None; lock.unlockShared(); }
                else if (me.hold == Headers) { me.hold = None; lock.unlockHeaders(); }
                else if (me.hold == Excl) { me.hold = None; lock.unlockExclusive(); me.appending = false; me.appendUntil = verif::Tick(); }
            };
            for (char k : progs[t]) {
                const long call = verif::Tick();
                switch (k) {
                case 'r':
                    if (me.hold != None) break;
                    if (lock.lockShared()) { const long ret = verif::Tick(); sharedAcquired(t, call, ret, "lockShared"); me.hold = Shared; } else ++failures;
                    break;
                case 'h':
                    if (me.hold != None) break;
                    if (lock.lockHeaders()) {
                        const long ret = verif::Tick();
                        sharedAcquired(t, call, ret, "lockHeaders");
                        const int o = otherHeaders(t);
                        if (o >= 0) fail("rwlock:two-header-updaters", "threads " + std::to_string(t) + " and " + std::to_string(o) + " both hold the headers lock");
                        me.hold = Headers;
                    } else ++failures;
                    break;
                case 'w':
                    if (me.hold != None) break;
                    if (lock.lockExclusive()) { exclAcquired(t, "lockExclusive"); me.hold = Excl; me.appending = false; me.appendFrom = me.appendUntil = -1; me.restoredAt = -1; } else ++failures;
                    break;
                case 'a':
                    if (me.hold != Excl || me.appending) break;
                    me.appending = true; me.appendFrom = call; me.appendUntil = -1; me.restoredAt = -1;
                    lock.startAppending();
                    break;
                case 's': {
                    if (me.hold != Excl || !me.appending) break;
                    // readers that hold throughout the call must make the result false
                    std::vector<int> before;
                    for (int i = 0; i < n; ++i) if (i != t && (th[i].hold == Shared || th[i].hold == Headers)) before.push_back(i);
                    const bool restored = lock.stopAppendingAndRestoreExclusive();
                    const long ret = verif::Tick();
                    me.appending = false; me.appendUntil = ret;
                    if (restored) {
                        me.restoredAt = ret;
                        for (int i : before)
                            if (th[i].hold == Shared || th[i].hold == Headers) // still holding: held during the whole call
                                fail("rwlock:exclusive-restored-beside-reader", "stopAppendingAndRestoreExclusive() returned true while thread " + std::to_string(i) + " held a shared lock throughout");
                    }
                    break; }
                case 'x':
                    if (me.hold != Excl) break;
                    // we keep holding (as a reader) across the switch
                    lock.switchExclusiveToShared();
                    me.hold = Shared; me.appending = false; me.appendUntil = verif::Tick();
                    break;
                case 'y':
                    if (me.hold != Shared) break;
                    me.hold = None; // the shared lock is given up in any case
                    if (lock.unlockSharedAndSwitchToExclusive()) { exclAcquired(t, "unlockSharedAndSwitchToExclusive"); me.hold = Excl; me.appending = false; me.appendFrom = me.appendUntil = -1; me.restoredAt = -1; } else ++failures;
                    break;
                case 'R': if (me.hold == Shared) releaseAll(); break;
                case 'W': if (me.hold == Excl) releaseAll(); break;
                case 'H': if (me.hold == Headers) releaseAll(); break;
                case 'U': releaseAll(); break;
                }
            }
            releaseAll();
        });
    }
    const verif::RunStats st = verif::RunThreads(bodies, ss, pol);
    ctx.count("sched_points", st.points);
    ctx.count("context_switches", st.switches);
    ctx.count("acquisitions", acquires);
    ctx.count("failed_acquisitions", failures);
    ctx.count("readers_admitted_beside_appender", sharedBesideAppender);
    if (st.aborted) ctx.violation("rwlock:exception", st.abortWhat);
    if (!bad.empty()) ctx.violation(badKey, bad);
    // quiescence: everything released => idle counters and a fresh exclusive lock succeeds
    if (lock.readers.verif_peek() != 0 || lock.writing.verif_peek() || lock.appending.verif_peek())
        ctx.violation("rwlock:not-idle-after-release", "after all holders released: readers=" + std::to_string(lock.readers.verif_peek()) + " writing=" + std::to_string(lock.writing.verif_peek()));
    else if (!lock.lockExclusive())
        ctx.violation("rwlock:stuck-after-release", "a fresh lockExclusive() fails although nobody holds the lock (leaked level counters)");
    else {
        lock.unlockExclusive();
        if (!lock.lockShared()) ctx.violation("rwlock:stuck-after-release", "a fresh lockShared() fails although nobody holds the lock");
        else if (!lock.lockHeaders()) { /* second shared + headers */ ctx.violation("rwlock:stuck-after-release", "lockHeaders() fails on an idle lock"); }
    }
    ctx.feature(Ctx::mix(st.hash, Ctx::hash(w.substr(w.find(" T")))), st.switches > 0);
}

int drive(Ctx &ctx) { return vh::Loop(ctx, gen, run); }

} // namespace

VH_REGISTER(C54, drive, "ReadWriteLock under seeded cooperative schedules; holder-set monitor");
