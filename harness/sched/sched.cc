#include "squid.h"
#include "vh.h"
#include "sched/sched.h"

#include <semaphore.h>
#include <thread>

namespace verif {

namespace {

struct State {
    struct SemRef { sem_t *p = nullptr; }; // baton semaphores live in the persistent workers
    struct SemVec { sem_t &operator[](int i); void resize(int) {} } sem;
    sem_t done;             // posted when the last body finished
    int current = -1;
    int n = 0;
    std::vector<char> alive;
    vh::Rng rng;
    int policy = 0;
    long limit = 0;
    RunStats st;
    std::vector<long> prio;
    std::vector<long> changePts;
    int starved = 0;
    long lowest = 0;
};

State *g = nullptr;
sem_t *WorkerSem(int i);
sem_t &State::SemVec::operator[](int i) { return *WorkerSem(i); }
thread_local int tid = -1;
long g_clock = 0; // only touched by the baton holder (or the main thread while no worker runs)

int pickNext(State &s, int me)
{
    std::vector<int> cand;
    for (int i = 0; i < s.n; ++i) if (s.alive[i]) cand.push_back(i);
    if (cand.empty()) return -1;
    if (cand.size() == 1) return cand[0];
    const bool meAlive = me >= 0 && s.alive[me];
    int pol = s.policy;
    if (s.st.points > s.limit / 2) pol = Uniform; // fairness fallback
    switch (pol) {
    case Sticky:
        if (meAlive && s.rng.below(8) != 0) return me;
        return cand[s.rng.below(cand.size())];
    case Pct: {
        for (long cp : s.changePts)
            if (cp == s.st.points && meAlive) s.prio[me] = --s.lowest;
        int best = cand[0];
        for (int c : cand) if (s.prio[c] > s.prio[best]) best = c;
        return best;
    }
    case Starve: {
        std::vector<int> c2;
        for (int c : cand) if (c != s.starved) c2.push_back(c);
        if (c2.empty() || s.rng.below(64) == 0) return cand[s.rng.below(cand.size())];
        return c2[s.rng.below(c2.size())];
    }
    default:
        return cand[s.rng.below(cand.size())];
    }
}

} // namespace

void sched_point(const volatile void *, int)
{
    State *s = g;
    if (!s || tid < 0) return;
    // only the baton holder executes here: no lock needed
    ++s->st.points;
    ++g_clock;
    if (s->st.points > s->limit) s->st.livelock = true;
    const int me = tid;
    const int next = pickNext(*s, me);
    s->st.hash = vh::Ctx::mix(s->st.hash, (uint64_t)next + 1);
    if (next != me) {
        ++s->st.switches;
        s->current = next;
        sem_post(&s->sem[next]);
        while (sem_wait(&s->sem[me]) != 0) {}
    }
}

long Now() { return g_clock; }
long Tick() { return ++g_clock; }
int Self() { return tid; }
bool Active() { return g && tid >= 0; }

// persistent workers: creating threads under ASan costs milliseconds each
namespace {
const int MaxWorkers = 8;
struct Worker { sem_t wake; std::thread th; };
Worker *workers = nullptr;
sem_t *WorkerSem(int i) { return &workers[i].wake; }
const std::vector<std::function<void()>> *g_bodies = nullptr;

void workerLoop(int i)
{
    for (;;) {
        while (sem_wait(&workers[i].wake) != 0) {}
        State &s = *g;
        tid = i;
        try {
            (*g_bodies)[i]();
        } catch (const std::exception &e) {
            s.st.aborted = true;
            s.st.abortWhat = e.what();
        } catch (...) {
            s.st.aborted = true;
            s.st.abortWhat = "unknown exception";
        }
        s.alive[i] = 0;
        const int next = pickNext(s, -1);
        s.current = next;
        tid = -1;
        if (next >= 0) sem_post(&s.sem[next]);
        else sem_post(&s.done);
    }
}
} // namespace

RunStats RunThreads(const std::vector<std::function<void()>> &bodies, uint64_t seed, int policy, long stepLimit)
{
    if (!workers) {
        workers = new Worker[MaxWorkers];
        for (int i = 0; i < MaxWorkers; ++i) {
            sem_init(&workers[i].wake, 0, 0);
            workers[i].th = std::thread(workerLoop, i);
            workers[i].th.detach();
        }
    }
    State s;
    s.n = (int)bodies.size();
    if (s.n > MaxWorkers) s.n = MaxWorkers;
    s.alive.assign(s.n, 1);
    s.rng.reseed(seed);
    s.policy = policy;
    s.limit = stepLimit;
    s.prio.resize(s.n);
    for (int i = 0; i < s.n; ++i) s.prio[i] = 1000 + (long)s.rng.below(1000);
    const int d = 1 + (int)s.rng.below(3);
    for (int i = 0; i < d; ++i) s.changePts.push_back(1 + (long)s.rng.below(60));
    s.starved = (int)s.rng.below(s.n ? s.n : 1);
    s.sem.resize(s.n);
    sem_init(&s.done, 0, 0);
    g_bodies = &bodies;
    g = &s;
    s.current = pickNext(s, -1);
    s.st.hash = vh::Ctx::mix(0x1234, (uint64_t)s.current + 1);
    if (s.current >= 0) sem_post(&s.sem[s.current]);
    else sem_post(&s.done);
    while (sem_wait(&s.done) != 0) {}
    g = nullptr;
    return s.st;
}

} // namespace verif
