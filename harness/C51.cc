// C51 Bounded LRU/TTL map behaves like its specification.
// Differential oracle: ClpMap<std::string, Val, ValSize> driven by an operation history (add with/without TTL, get,
// del, setMemLimit, clock advance) next to a reference LRU/TTL/capacity model; get() results, add() results,
// memoryUsed(), entries() and the traversal order are compared after every step; memoryUsed() <= memLimit() always.
// The per-entry overhead of the model is calibrated from memoryUsed() deltas (MemoryCountedFor() is private).
#include "squid.h"
#include "vh.h"
#include "base/ClpMap.h"
#include "time/gadgets.h"

#include <climits>
#include <list>
#include <memory>
#include <sstream>

using vh::Ctx;
using vh::Rng;

namespace {

typedef unsigned __int128 u128;

struct Val { long id; uint64_t size; };
uint64_t ValSize(const Val &v) { return v.size; }
typedef ClpMap<std::string, Val, ValSize> Map;

// ---- calibration: cost(key, value) = Overhead + key.length() + value.size ------------------------------
uint64_t Overhead = 0;
bool Calibrated = false;
std::string CalibrationProblem;

void calibrate() {
    const time_t saved = squid_curtime;
    squid_curtime = 1000;
    {
        Map m(uint64_t(1) << 40);
        m.add("", Val{0, 0}, 10);
        Overhead = m.memoryUsed();
    }
    Calibrated = Overhead > 0;
    // the cost must be a function of key length and value size only
    static const struct { size_t k; uint64_t s; } probes[] = {{0, 1}, {1, 0}, {7, 13}, {40, 1000}, {3, 1u << 20}, {255, 0}};
    for (auto &p : probes) {
        Map m(uint64_t(1) << 40);
        m.add("filler", Val{1, 5}, 10);
        const auto before = m.memoryUsed();
        m.add(std::string(p.k, 'x'), Val{2, p.s}, 10);
        if (m.memoryUsed() - before != Overhead + p.k + p.s) {
            Calibrated = false;
            CalibrationProblem = "cost of key length " + std::to_string(p.k) + " value size " + std::to_string(p.s) + " is " + std::to_string(m.memoryUsed() - before) + ", not overhead " + std::to_string(Overhead) + " + sizes";
        }
    }
    squid_curtime = saved;
}

// ---- reference model ---------------------------------------------------------------------------------
struct MEntry { std::string key; long id; u128 cost; time_t expires; };
struct Model {
    std::list<MEntry> lru; // front = most recently used
    u128 limit = 0, used = 0;
    int defaultTtl = INT_MAX;
    long purged = 0;

    std::list<MEntry>::iterator find(const std::string &k) { auto i = lru.begin(); while (i != lru.end() && i->key != k) ++i; return i; }
    void erase(std::list<MEntry>::iterator i) { used -= i->cost; lru.erase(i); }
    void purgeUntil(u128 room) { while (limit - used < room && !lru.empty()) { erase(std::prev(lru.end())); ++purged; } }
};

// history: "M <capacity> <defaultTtl|-> <startTime> | ops..."
//   A key size ttl | a key size (default ttl) | G key | D key | L limit | T delta        (key = index into the key pool)
struct Op { char code; int key; uint64_t x; long ttl; };

std::string keyOf(int k) {
    // keys of different lengths (0..60 bytes); the index fully determines the key and keys are pairwise distinct
    static const size_t lens[] = {0, 1, 2, 3, 5, 8, 13, 21, 34, 60};
    if (k == 0) return std::string();
    std::string s = "k" + std::to_string(k);
    const size_t len = lens[k % 10];
    if (s.size() < len) s += std::string(len - s.size(), 'x');
    return s;
}

bool decode(const std::string &w, uint64_t &cap, long &dttl, bool &hasD, time_t &start, std::vector<Op> &ops) {
    std::istringstream is(w);
    std::string t, d;
    long long st;
    if (!(is >> t) || t != "M" || !(is >> cap >> d >> st)) return false;
    hasD = d != "-"; dttl = hasD ? atol(d.c_str()) : 0; start = (time_t)st;
    if (hasD && dttl < 0) return false; // the constructor asserts defaultTtl >= 0
    while (is >> t) {
        if (t.size() != 1) return false;
        Op o{t[0], 0, 0, 0};
        switch (o.code) {
        case 'A': if (!(is >> o.key >> o.x >> o.ttl)) return false; break;
        case 'a': if (!(is >> o.key >> o.x)) return false; break;
        case 'G': case 'D': if (!(is >> o.key)) return false; break;
        case 'L': case 'T': if (!(is >> o.x)) return false; break;
        default: return false;
        }
        if (o.key < 0 || o.key > 100000) return false;
        ops.push_back(o);
    }
    return true;
}

time_t satAdd(time_t now, long ttl) { // exact sum or the maximum, as the entry lifetime is specified
    const __int128 s = (__int128)now + ttl;
    return s > (__int128)std::numeric_limits<time_t>::max() ? std::numeric_limits<time_t>::max() : (time_t)s;
}

void run(Ctx &ctx, const std::string &w) {
    uint64_t cap; long dttl; bool hasD; time_t start;
    std::vector<Op> ops;
    if (!decode(w, cap, dttl, hasD, start, ops)) return;
    if (!Calibrated) { ctx.grey(); return; }
    if (start < 0) return;

    const time_t savedTime = squid_curtime;
    squid_curtime = start;
    long rejected = 0, expiredGets = 0, hits = 0, misses = 0, limitChanges = 0, instantGrey = 0, replaced = 0;
    Model m;
    m.limit = cap;
    if (hasD) m.defaultTtl = (int)dttl;
    {
        std::unique_ptr<Map> mapP(hasD ? new Map(cap, (Map::Ttl)dttl) : new Map(cap));
        Map &map = *mapP;
        bool dead = false;
        for (size_t n = 0; n < ops.size() && !dead; ++n) {
            const Op &o = ops[n];
            auto where = [&]() { return "step " + std::to_string(n) + " '" + std::string(1, o.code) + " " + std::to_string(o.key) + " " + std::to_string(o.x) + " " + std::to_string(o.ttl) + "' at time " + std::to_string((long long)squid_curtime) + ": "; };
            auto fail = [&](const std::string &key, const std::string &d) { ctx.violation(key, where() + d); dead = true; };
            const std::string key = keyOf(o.key);
            switch (o.code) {
            case 'A': case 'a': {
                const long ttl = o.code == 'A' ? o.ttl : m.defaultTtl;
                const Val v{(long)n + 1, o.x};
                const bool got = o.code == 'A' ? map.add(key, v, (Map::Ttl)o.ttl) : map.add(key, v);
                bool exp = false;
                const char *why = "stored";
                if (m.limit == 0) why = "zero-capacity";
                else {
                    auto old = m.find(key);
                    if (old != m.lru.end()) { m.erase(old); ++replaced; } // the previous value is dropped even if the new one is rejected (pinned by testNegativeTtl)
                    const u128 cost = (u128)Overhead + key.size() + o.x;
                    if (ttl < 0) why = "negative-ttl";
                    else if (cost > (u128)UINT64_MAX) why = "cost-overflow";
                    else if (cost > m.limit) why = "too-big";
                    else {
                        m.purgeUntil(cost);
                        m.lru.push_front(MEntry{key, v.id, cost, satAdd(squid_curtime, ttl)});
                        m.used += cost;
                        exp = true;
                    }
                }
                if (!exp) ++rejected;
                if (got != exp) fail(std::string("add:") + (exp ? "rejected-storable" : "accepted-unstorable"), std::string("add() returned ") + (got ? "true" : "false") + ", model: " + why);
                break; }
            case 'G': {
                const Val *got = map.get(key);
                auto i = m.find(key);
                if (i == m.lru.end()) { ++misses; if (got) fail("get:phantom", "get() returned value id " + std::to_string(got->id) + " for a key the model does not hold"); break; }
                if (i->expires == squid_curtime) {
                    // the expiry instant itself is not settled by the statement: follow what the map did
                    ++instantGrey;
                    if (got) { if (got->id != i->id) fail("get:wrong-value", "get() returned value id " + std::to_string(got->id) + ", model holds " + std::to_string(i->id)); m.lru.splice(m.lru.begin(), m.lru, i); }
                    else m.erase(i);
                    break;
                }
                if (i->expires < squid_curtime) {
                    ++expiredGets;
                    if (got) fail("get:expired-returned", "get() returned value id " + std::to_string(got->id) + " whose lifetime ended at " + std::to_string((long long)i->expires));
                    m.erase(i);
                    break;
                }
                ++hits;
                if (!got) { fail("get:lost", "get() returned nothing; the model holds fresh value id " + std::to_string(i->id) + " (expires " + std::to_string((long long)i->expires) + "), used " + std::to_string((uint64_t)m.used) + " of " + std::to_string((uint64_t)m.limit)); break; }
                if (got->id != i->id || got->size != (uint64_t)(i->cost - Overhead - key.size())) fail("get:wrong-value", "get() returned value id " + std::to_string(got->id) + ", model holds " + std::to_string(i->id));
                m.lru.splice(m.lru.begin(), m.lru, i);
                break; }
            case 'D': {
                map.del(key);
                auto i = m.find(key);
                if (i != m.lru.end()) m.erase(i);
                break; }
            case 'L': {
                map.setMemLimit(o.x);
                ++limitChanges;
                m.limit = o.x;
                while (m.used > m.limit && !m.lru.empty()) { m.erase(std::prev(m.lru.end())); ++m.purged; }
                if (map.memLimit() != o.x) fail("limit:value", "memLimit() is " + std::to_string(map.memLimit()));
                break; }
            case 'T': {
                const uint64_t room = (uint64_t)(std::numeric_limits<time_t>::max() - 1 - squid_curtime);
                squid_curtime += (time_t)std::min<uint64_t>(o.x, room);
                break; }
            }
            if (dead) break;
            // accounting and order after every step
            if (map.memoryUsed() > map.memLimit()) { fail("accounting:over-capacity", "memoryUsed() " + std::to_string(map.memoryUsed()) + " exceeds memLimit() " + std::to_string(map.memLimit())); break; }
            if (map.freeMem() != map.memLimit() - map.memoryUsed()) { fail("accounting:freeMem", "freeMem() inconsistent"); break; }
            if ((u128)map.memoryUsed() != m.used) { fail("accounting:memoryUsed", "memoryUsed() " + std::to_string(map.memoryUsed()) + ", model " + std::to_string((uint64_t)m.used)); break; }
            if (map.entries() != m.lru.size()) { fail("accounting:entries", "entries() " + std::to_string(map.entries()) + ", model " + std::to_string(m.lru.size())); break; }
            auto mi = m.lru.begin();
            size_t pos = 0;
            for (auto it = map.cbegin(); it != map.cend() && mi != m.lru.end(); ++it, ++mi, ++pos) {
                if (it->key != mi->key || it->value.id != mi->id) { fail("order:traversal", "entry #" + std::to_string(pos) + " (most recently used first) is key '" + it->key + "' id " + std::to_string(it->value.id) + ", model has '" + mi->key + "' id " + std::to_string(mi->id)); break; }
                if (it->expires != mi->expires) { fail("ttl:expires", "entry '" + it->key + "' expires at " + std::to_string((long long)it->expires) + ", model " + std::to_string((long long)mi->expires)); break; }
            }
        }
    }
    squid_curtime = savedTime;
    ctx.ubsanGate({"ClpMap.h", "SquidMath.h"});
    auto b = [](long v) { return v == 0 ? "0" : v < 4 ? "1" : v < 16 ? "2" : "3"; };
    const char *capClass = cap == 0 ? "zero" : cap < Overhead ? "tiny" : cap < 4 * Overhead ? "few" : cap < 100 * Overhead ? "some" : cap == UINT64_MAX ? "max" : "big";
    ctx.feature(std::string(capClass) + (hasD ? (dttl == 0 ? " d0" : " d+") : " d-") + " p" + b(m.purged) + " r" + b(rejected) + " x" + b(expiredGets) + " h" + b(hits) + " m" + b(misses) + " l" + b(limitChanges) + " i" + b(instantGrey) + " R" + b(replaced) + (start > 4000000000LL ? " late" : ""), !ops.empty());
    ctx.count("steps", (long)ops.size());
    ctx.count("gets_hit", hits); ctx.count("gets_miss", misses); ctx.count("gets_expired", expiredGets);
    ctx.count("gets_at_expiry_instant_not_judged", instantGrey);
    ctx.count("adds_rejected", rejected); ctx.count("lru_purges", m.purged); ctx.count("limit_changes", limitChanges);
}

std::string gen(Rng &r) {
    const uint64_t ov = Overhead ? Overhead : 100;
    uint64_t cap;
    switch (r.below(20)) {
    case 0: cap = r.coin() ? 0 : r.below(ov + 2); break;
    case 1: cap = ov + r.below(80); break;
    case 2: case 3: cap = UINT64_MAX - r.below(2); break;
    case 4: case 5: case 6: cap = r.below(2 * ov) + 2 * ov; break;
    default: cap = ov * (2 + r.below(12)) + r.below(400); break;
    }
    const bool hasD = r.chance(1, 3);
    const long dttl = r.chance(1, 4) ? 0 : r.chance(1, 4) ? INT_MAX : (long)r.below(50);
    long long start;
    switch (r.below(6)) { case 0: start = 0; break; case 1: start = 1; break; case 2: start = LLONG_MAX - 1 - (long long)r.below(200); break; case 3: start = (long long)INT_MAX - (long long)r.below(60); break; default: start = 1000000000 + (long long)r.below(1000); }
    std::string s = "M " + std::to_string(cap) + " " + (hasD ? std::to_string(dttl) : std::string("-")) + " " + std::to_string(start);
    const int nkeys = 2 + (int)r.below(12);
    const int nops = 5 + (int)r.below(r.chance(1, 4) ? 200 : 60);
    uint64_t curLimit = cap;
    for (int n = 0; n < nops; ++n) {
        const int k = (int)r.below(nkeys);
        const size_t klen = keyOf(k).size();
        switch (r.below(20)) {
        case 0: case 1: case 2: case 3: case 4: case 5: case 6: case 7: { // add
            uint64_t size;
            switch (r.below(24)) {
            case 0: size = 0; break;
            case 1: size = UINT64_MAX - r.below(3); break;
            case 2: size = UINT64_MAX - ov - klen + r.range(-2, 2); break;                                   // sum-overflow boundary
            case 3: size = curLimit >= ov + klen ? curLimit - ov - klen + r.range(-2, 2) : r.below(5); break; // exactly fills / just too big
            case 4: size = r.below(curLimit / 2 + 1); break;
            default: size = r.below(120); break;
            }
            if (r.chance(2, 3)) {
                long ttl;
                switch (r.below(16)) { case 0: case 5: ttl = 0; break; case 1: ttl = r.coin() ? -1 - (long)r.below(3) : INT_MIN; break; case 2: ttl = INT_MAX - (long)r.below(2); break; case 3: case 4: ttl = 1; break; default: ttl = (long)r.below(40); }
                s += " A " + std::to_string(k) + " " + std::to_string(size) + " " + std::to_string(ttl);
            } else s += " a " + std::to_string(k) + " " + std::to_string(size);
            break; }
        case 8: case 9: case 10: case 11: case 12: case 13: s += " G " + std::to_string(k); break;
        case 14: s += " D " + std::to_string(k); break;
        case 15: if (!r.chance(1, 2)) { s += " G " + std::to_string(k); break; } // fallthrough to a capacity change half of the time
        { // capacity change
            switch (r.below(12)) { case 0: curLimit = r.coin() ? 0 : r.below(ov); break; case 1: curLimit = UINT64_MAX; break; case 2: case 3: case 4: curLimit = curLimit / 2; break; case 5: curLimit = ov * (1 + r.below(4)) + r.below(100); break; default: curLimit = ov * r.below(14) + r.below(300); }
            s += " L " + std::to_string(curLimit);
            break; }
        default: s += " T " + std::to_string(r.chance(1, 2) ? 1 : r.chance(1, 10) ? r.below(3000000000ULL) : r.below(45)); break;
        }
    }
    return s;
}

int drive(Ctx &ctx) {
    calibrate();
    if (!Calibrated) ctx.note("calibration failed: " + CalibrationProblem + " -- all cases grey");
    if (ctx.shard == 0) ctx.note("calibrated per-entry overhead: " + std::to_string(Overhead) + " bytes");
    return vh::Loop(ctx, gen, run);
}

} // namespace

VH_REGISTER(C51, drive, "ClpMap add/get/del/setMemLimit/clock histories vs reference LRU/TTL/capacity model");
